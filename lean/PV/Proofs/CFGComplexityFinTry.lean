import PV.Proofs.CFGComplexityFinDefs
import PV.Proofs.CFGComplexityFinSyn
import PV.Proofs.CFGComplexityFinHead
import PV.Proofs.CFGComplexityTry
/-!
Property C03 for the CFG mirror with `finally` — `try` / `except` / `else` / `finally`: the handlers, the body + handlers (`tryMid`),
the `else` part (`tryElse`), the `finally` part (body + propagation edges) and the assembly `try_cntF`.
-/
namespace PV.CFGFin
open PV.CFG PV.CFGSound PV.Dec

section main
variable {E : List Edge} {N : Nat}

/-- targets of the inner context seen from outside: own handler blocks are fresh, the own `finally` block is listed separately -/
theorem tg_inner {n n' : Nat} {L : List (Nat × Nat × Nat)} {X0 : List Exc} {cfin : Option Nat} {hbs : List Nat} {b b' : Bool} {t : Nat}
    (h : TgF n' L ({ fin := cfin, handlers := hbs, processingFinally := false } :: X0) b' t) (hn : n ≤ n') (hb : b' = true → b = true)
    (hh : ∀ y ∈ hbs, n ≤ y) : TgF n L X0 b t ∨ cfin = some t := by
  rcases h with h | h | ⟨hd, x, d, rest, hl, h⟩ | ⟨c, hc, h⟩
  · exact .inl (.inl (by omega))
  · exact .inl (.inr (.inl h))
  · refine .inl (.inr (.inr (.inl ⟨hd, x, d, rest, hl, ?_⟩)))
    rcases h with h | ⟨h1, h2⟩
    · exact .inl h
    · exact .inr ⟨h1, hb h2⟩
  · rcases List.mem_cons.mp hc with rfl | hc
    · rcases h with h | h
      · exact .inl (.inl (hh _ h))
      · exact .inr h
    · exact .inl (.inr (.inr (.inr ⟨c, hc, h⟩)))

/-! ### handlers -/
theorem handlers_cntF (ih : ∀ ss, sizeL ss ≤ N → QFL E ss) (nh : FC) (il : Bool) (after : Nat) :
    ∀ (hs : List Stmt) (hbs : List Nat) (st : St), sizeL hs ≤ N → WF st → CtxF nh il st → okFHs il hs = true →
      hbs.length = hs.length → hbs.Nodup → (∀ hb ∈ hbs, hb < st.next ∧ Calm st hb ∧ R E hb) → after < st.next →
      Fut E st.next (procHandlers st hs hbs after).next (procHandlers st hs hbs after) →
      cnt (rE E) (procHandlers st hs hbs after).edges + hs.length = cnt (rE E) st.edges + ldAltsX nh hs ∧
      ((sxAlts hs).ex.normal = true → R E after) ∧
      Jmp E st.loops st.excs (sxAlts hs).ex ∧
      LTI E (fun t => TgF st.next st.loops st.excs (sxAlts hs).ex.brk t ∨ (t = after ∧ (sxAlts hs).ex.normal = true)) st
        (procHandlers st hs hbs after) ∧
      (∀ m, m < st.next → (∀ hb ∈ hbs, m ≠ hb) → Calm st m → Calm (procHandlers st hs hbs after) m) := by
  intro hs
  induction hs with
  | nil =>
    intro hbs st _ _ _ _ _ _ _ _ _
    rw [procHandlers_nil_l, sxAlts_nil, ldAltsX_nil]
    exact ⟨rfl, ff, Jmp.empty rfl rfl rfl rfl, LTI.refl _ _ _, fun m _ _ h => h⟩
  | cons x hs ihh =>
    intro hbs st hsz w hc hok hlen hnd hhb hal hf
    obtain ⟨s, e, body, rfl, hok1, hok2⟩ := okFHs_cons hok
    rcases hbs with _ | ⟨hb, hbs⟩
    · simp at hlen
    simp only [sizeL, Stmt.size] at hsz
    simp only [List.length_cons, Nat.add_right_cancel_iff] at hlen
    rw [List.nodup_cons] at hnd
    rw [procHandlers_handler] at hf ⊢
    simp only [] at hf ⊢
    rw [sxAlts_cons, sxS_handler, ldAltsX_cons, ldSX_handler]
    obtain ⟨hbl, hbc, hbr⟩ := hhb hb List.mem_cons_self
    have hcur := w.cur
    have h2 := w.two
    have i0 : Inv st.cur 0 st st := Inv.refl w (Or.inl rfl)
    have i1 := (i0.setCur (x := hb) (by ob) hbl).add (b := hb) (p := s) (q := e) (ty := .other) (by ob) (by ob)
    obtain ⟨j, sm⟩ := procList_frame body _ i1.wf hb st.next (Or.inl rfl) (Nat.le_refl _)
    have hjn := j.next_le
    have hown := j.own
    have k2 := j.edgeUnlessExit (a := (procList ((setCur st hb).add hb s e .other) body).cur) (b := after) (t := .normal) j.own j.wf.cur (by ob)
    have hent : EntryC E ((setCur st hb).add hb s e .other) := ⟨hbr, (Calm.congr (s' := setCur st hb) rfl rfl hbc).add_other⟩
    have hp1 := fun f => ih body (by omega) nh il _ i1.wf (hc.of_eq rfl rfl) hok1 f hent
    have hl2 : ((procList ((setCur st hb).add hb s e .other) body).edgeUnlessExit (procList ((setCur st hb).add hb s e .other) body).cur
        after .normal).loops = st.loops := by
      simp only [edgeUnlessExit_loops, sm.loops]; rfl
    have hx2 : ((procList ((setCur st hb).add hb s e .other) body).edgeUnlessExit (procList ((setCur st hb).add hb s e .other) body).cur
        after .normal).excs = st.excs := by
      simp only [edgeUnlessExit_excs, sm.excs]; rfl
    generalize procList _ body = s1 at *
    have hctx : CtxLt (s1.edgeUnlessExit s1.cur after .normal) st.next := (w.ctxLt (Nat.le_refl _)).of_eq hl2 hx2
    have hhb' : ∀ y ∈ hbs, y < (s1.edgeUnlessExit s1.cur after .normal).next ∧ Calm (s1.edgeUnlessExit s1.cur after .normal) y ∧ R E y := by
      intro y hy
      obtain ⟨a1, a2, a3⟩ := hhb y (List.mem_cons_of_mem _ hy)
      have hne : y ≠ hb := fun h => hnd.1 (h ▸ hy)
      exact ⟨by ob, Calm.eue (try_own_ne hown hne a1) (j.calm hne a1 (Calm.add_ne (fun h => hne h.symm) (Calm.congr (s' := setCur st hb) rfl rfl a2))), a3⟩
    obtain ⟨j3, sm3⟩ := handlers_frame (c := st.cur) (n := 0) (frame_all (sizeL hs)).1 (frame_all (sizeL hs)).2 hs hbs _ after (Nat.le_refl _)
      k2.wf (.inr (Nat.zero_le _)) (Nat.zero_le _) (fun y hy => ⟨.inr (Nat.zero_le _), (hhb' y hy).1⟩) (by ob)
    have hjn3 := j3.next_le
    have fb : Fut E st.next s1.next s1 := ((hf.mono (lo' := st.next) (hi' := s1.next) (Nat.le_refl _) (by ob)).back_TI
      (procHandlers_target hs hbs _ after k2.wf (fun y hy => (hhb' y hy).1) (by ob) _ (TG.zone hctx h2 (by ob)) (.inl hal))).back_eue (.inl hal)
    have hp := hp1 fb
    obtain ⟨r1, r2, r3, r4, r5⟩ := ihh hbs _ (by omega) k2.wf (hc.of_eq hl2 hx2) hok2 hlen hnd.2 hhb' (by ob)
      (hf.mono (by ob) (Nat.le_refl _))
    have e1 : cnt (rE E) (s1.edgeUnlessExit s1.cur after .normal).edges = cnt (rE E) s1.edges :=
      cnt_eue_plain s1 s1.cur after .normal rfl (by intro h; cases h)
    have e2 := hp.cnt
    simp only [add_edges, setCur_edges] at e2
    have key : cnt (rE E) (procHandlers (s1.edgeUnlessExit s1.cur after .normal) hs hbs after).edges + (hs.length + 1) =
          cnt (rE E) st.edges + (1 + ldLX nh body + ldAltsX nh hs) ∧
        (((sxL body).ex.normal || (sxAlts hs).ex.normal) = true → R E after) ∧
        Jmp E st.loops st.excs ((sxL body).ex.union (sxAlts hs).ex) ∧
        LTI E (fun t => TgF st.next st.loops st.excs ((sxL body).ex.brk || (sxAlts hs).ex.brk) t ∨
            (t = after ∧ ((sxL body).ex.normal || (sxAlts hs).ex.normal) = true)) st
          (procHandlers (s1.edgeUnlessExit s1.cur after .normal) hs hbs after) ∧
        (∀ m, m < st.next → (∀ hb' ∈ hb :: hbs, m ≠ hb') → Calm st m →
          Calm (procHandlers (s1.edgeUnlessExit s1.cur after .normal) hs hbs after) m) := by
      refine ⟨by omega, ?_, ?_, ?_, ?_⟩
      · intro hn
        rcases Bool.or_eq_true_iff.mp hn with hn | hn
        · have he1 := hp.normal hn
          have hm : (s1.cur, after, ETy.normal) ∈ (s1.edgeUnlessExit s1.cur after .normal).edges := by
            rw [he1.calm.eue_eq]; exact List.mem_cons_self ..
          exact R.step he1.reach (hf.mem (j3.sub.1 _ hm))
        · exact r2 hn
      · exact Jmp.union (hp.jmp.cast rfl rfl) (r3.cast hl2.symm hx2.symm)
      · have t1 : LTI E (fun t => TgF st.next st.loops st.excs ((sxL body).ex.brk || (sxAlts hs).ex.brk) t ∨
            (t = after ∧ ((sxL body).ex.normal || (sxAlts hs).ex.normal) = true)) st s1 :=
          (hp.tgt.mono (fun t h => .inl (h.mono (Nat.le_refl _) (fun hb => by simp [hb])))).tryStartEq rfl
        have t2 := t1.eue (a := s1.cur) (b := after) (t := .normal) (fun hr => by
          cases hn : (sxL body).ex.normal
          · exact absurd hr (hp.dead hn)
          · exact .inr ⟨rfl, by simp⟩)
        refine t2.trans (r4.mono (fun t h => ?_))
        rw [hl2, hx2] at h
        rcases h with h | ⟨h1, h2⟩
        · exact .inl (h.mono (by ob) (fun hb => by simp [hb]))
        · exact .inr ⟨h1, by simp [h2]⟩
      · intro m hm1 hm2 hcm
        have hne : m ≠ hb := hm2 hb List.mem_cons_self
        exact r5 m (by ob) (fun hb' hm => hm2 hb' (List.mem_cons_of_mem _ hm))
          (Calm.eue (try_own_ne hown hne hm1) (j.calm hne hm1 (Calm.add_ne (fun h => hne h.symm) (Calm.congr (s' := setCur st hb) rfl rfl hcm))))
    exact key

/-! ### the body and the handlers -/
theorem tryMid_cntF (ih : ∀ ss, sizeL ss ≤ N → QFL E ss) (body handlers : List Stmt) (hbz : sizeL body ≤ N) (hhz : sizeL handlers ≤ N)
    (il : Bool) (s3 : St) (tryB : Nat) (cfin : Option Nat) (X0 : List Exc) (nat ah : Nat) (w : WF s3)
    (hx0 : ∀ cx ∈ X0, (∀ g, cx.fin = some g → g < s3.next) ∧ ∀ h ∈ cx.handlers, h < s3.next)
    (hcf : ∀ f, cfin = some f → f < s3.next) (fc' : FC)
    (hctx : ∀ s' : St, s'.loops = s3.loops →
      s'.excs = { fin := cfin, handlers := (List.range handlers.length).map (fun k => s3.next + k), processingFinally := false } :: X0 →
      CtxF fc' il s')
    (hokb : okFL il body = true) (hokh : okFHs il handlers = true)
    (htl : tryB < s3.next) (htc : Calm s3 tryB) (hrt : R E tryB) (hnl : nat < s3.next) (hal : ah < s3.next)
    (hf : ∀ lo hi, s3.next + handlers.length ≤ lo → hi ≤ (tryMid s3 tryB cfin X0 nat ah body handlers).next →
      Fut E lo hi (tryMid s3 tryB cfin X0 nat ah body handlers)) :
    cnt (rE E) (tryMid s3 tryB cfin X0 nat ah body handlers).edges =
      cnt (rE E) s3.edges + ldLX fc' body + ldAltsX fc' handlers ∧
    ((sxL body).ex.normal = true → R E nat) ∧
    ((sxAlts handlers).ex.normal = true → R E ah) ∧
    Jmp E s3.loops ({ fin := cfin, handlers := (List.range handlers.length).map (fun k => s3.next + k), processingFinally := false } :: X0)
      ((sxL body).ex.union (sxAlts handlers).ex) ∧
    LTI E (fun t => TgF s3.next s3.loops X0 ((sxL body).ex.brk || (sxAlts handlers).ex.brk) t ∨ (t = nat ∧ (sxL body).ex.normal = true) ∨
        (t = ah ∧ (sxAlts handlers).ex.normal = true) ∨ cfin = some t) s3 (tryMid s3 tryB cfin X0 nat ah body handlers) ∧
    (∀ m, m < s3.next → m ≠ tryB → Calm s3 m → Calm (tryMid s3 tryB cfin X0 nat ah body handlers) m) := by
  unfold tryMid at hf ⊢
  simp only [] at hf ⊢
  have hmem : ∀ h ∈ (List.range handlers.length).map (fun k => s3.next + k), s3.next ≤ h ∧ h < s3.next + handlers.length := by
    intro h hh
    obtain ⟨k, hk, rfl⟩ := List.mem_map.mp hh
    have := List.mem_range.mp hk
    omega
  have hlen : ((List.range handlers.length).map (fun k => s3.next + k)).length = handlers.length := by simp
  have hnd := nodup_map_add s3.next handlers.length
  generalize (List.range handlers.length).map (fun k => s3.next + k) = hbs at hmem hlen hnd hf hctx ⊢
  have hcur := w.cur
  have h2 := w.two
  have i0 : Inv s3.cur 0 s3 s3 := Inv.refl w (Or.inl rfl)
  have i4 := ((i0.bumpN handlers.length).setExcs (x := { fin := cfin, handlers := hbs, processingFinally := false } :: X0) (by
    intro cx hcx
    rcases List.mem_cons.mp hcx with rfl | hcx
    · exact ⟨fun g hg => by have := hcf g hg; ob, fun h hh => by have := hmem h hh; ob⟩
    · exact ⟨fun g hg => by have := (hx0 cx hcx).1 g hg; ob, fun h hh => by have := (hx0 cx hcx).2 h hh; ob⟩)).setCur
      (x := tryB) (by ob) (by ob)
  obtain ⟨j5, sm5⟩ := procList_frame body _ i4.wf tryB (s3.next + handlers.length) (Or.inl rfl) (by ob)
  obtain ⟨j50, _⟩ := procList_frame body _ i4.wf s3.cur 0 (Or.inr (Nat.zero_le _)) (Nat.zero_le _)
  have hown := j5.own
  have hjn := j5.next_le
  have hjc := j5.wf.cur
  have k5' := j50.edgeUnlessExit (b := nat) (t := .normal) j50.own hjc (by ob)
  have hc4 : CtxF fc' il (setCur (setExcs (bumpN s3 handlers.length) ({ fin := cfin, handlers := hbs, processingFinally := false } :: X0)) tryB) :=
    hctx _ rfl rfl
  have hent4 : EntryC E (setCur (setExcs (bumpN s3 handlers.length) ({ fin := cfin, handlers := hbs, processingFinally := false } :: X0)) tryB) :=
    ⟨hrt, Calm.congr (s := s3) rfl rfl htc⟩
  have hp1 := fun f => ih body hbz fc' il _ i4.wf hc4 hokb f hent4
  have hl5 : ((procList (setCur (setExcs (bumpN s3 handlers.length) ({ fin := cfin, handlers := hbs, processingFinally := false } :: X0)) tryB) body).edgeUnlessExit
      (procList (setCur (setExcs (bumpN s3 handlers.length) ({ fin := cfin, handlers := hbs, processingFinally := false } :: X0)) tryB) body).cur
      nat .normal).loops = s3.loops := by
    simp only [edgeUnlessExit_loops, sm5.loops]; rfl
  have hx5 : ((procList (setCur (setExcs (bumpN s3 handlers.length) ({ fin := cfin, handlers := hbs, processingFinally := false } :: X0)) tryB) body).edgeUnlessExit
      (procList (setCur (setExcs (bumpN s3 handlers.length) ({ fin := cfin, handlers := hbs, processingFinally := false } :: X0)) tryB) body).cur
      nat .normal).excs = { fin := cfin, handlers := hbs, processingFinally := false } :: X0 := by
    simp only [edgeUnlessExit_excs, sm5.excs]; rfl
  have hu4 : ∀ m, Untouched s3 m →
      Untouched (setCur (setExcs (bumpN s3 handlers.length) ({ fin := cfin, handlers := hbs, processingFinally := false } :: X0)) tryB) m := by
    intro m hu
    simp only [unt_setCur, unt_setExcs, unt_bumpN]
    exact hu
  generalize procList _ body = s5 at *
  obtain ⟨k6, sm6, hn6, hc6⟩ := foldl_edges_frame (c := s3.cur) (n := 0) tryB .exc hbs _
    (Inv.refl k5'.wf (.inr (Nat.zero_le _)) : Inv s3.cur 0 (s5.edgeUnlessExit s5.cur nat .normal) (s5.edgeUnlessExit s5.cur nat .normal))
    (.inr (Nat.zero_le _)) (by ob) (fun h hh => by have := hmem h hh; ob)
  have c6 := cnt_foldl_exc (r := rE E) tryB (rE_true.mpr hrt) hbs (s5.edgeUnlessExit s5.cur nat .normal)
  have hback6 : ∀ lo hi, s3.next + handlers.length ≤ lo →
      Fut E lo hi (hbs.foldl (fun st h => st.edge tryB h .exc) (s5.edgeUnlessExit s5.cur nat .normal)) → Fut E lo hi s5 :=
    fun lo hi hlo f => (f.back_foldl tryB .exc hbs _ (fun h hh => .inl (by have := hmem h hh; omega))).back_eue (.inl (by omega))
  have calm6 : ∀ m, tryB ≠ m → Calm (s5.edgeUnlessExit s5.cur nat .normal) m →
      Calm (hbs.foldl (fun st h => st.edge tryB h .exc) (s5.edgeUnlessExit s5.cur nat .normal)) m :=
    fun m hm h => try_foldl_edge_calm tryB .exc hm hbs _ h
  have unt6 : ∀ m, tryB ≠ m → Untouched (s5.edgeUnlessExit s5.cur nat .normal) m →
      Untouched (hbs.foldl (fun st h => st.edge tryB h .exc) (s5.edgeUnlessExit s5.cur nat .normal)) m :=
    fun m hm h => foldl_edge_unt tryB .exc hm hbs _ h
  have mem6 : ∀ S : List SRec, Cov E S (hbs.foldl (fun st h => st.edge tryB h .exc) (s5.edgeUnlessExit s5.cur nat .normal)) →
      ∀ h ∈ hbs, (tryB, h, ETy.exc) ∈ E := fun S hc => (foldl_edge_cov tryB .exc hbs _ hc).1
  have lti6 : ∀ (G : Nat → Prop) (s0 : St), LTI E G s0 (s5.edgeUnlessExit s5.cur nat .normal) → (R E tryB → ∀ h ∈ hbs, G h) →
      LTI E G s0 (hbs.foldl (fun st h => st.edge tryB h .exc) (s5.edgeUnlessExit s5.cur nat .normal)) :=
    fun G s0 h hg => LTI.foldl tryB .exc hbs _ h hg
  generalize hbs.foldl (fun st h => st.edge tryB h .exc) (s5.edgeUnlessExit s5.cur nat .normal) = s6 at *
  have hl6 : s6.loops = s3.loops := sm6.loops.trans hl5
  have hx6 : s6.excs = { fin := cfin, handlers := hbs, processingFinally := false } :: X0 := sm6.excs.trans hx5
  have hhbl : ∀ y ∈ hbs, y < s6.next := fun y hy => by have := hmem y hy; rw [hn6]; ob
  obtain ⟨j7, sm7⟩ := handlers_frame (c := s3.cur) (n := 0) (frame_all N).1 (frame_all N).2 handlers hbs s6 ah hhz k6.wf
    (Or.inr (Nat.zero_le _)) (Nat.zero_le _) (fun h hh => ⟨Or.inr (Nat.zero_le _), hhbl h hh⟩) (by rw [hn6]; ob)
  have hjn7 := j7.next_le
  have f7 : Fut E s6.next (procHandlers s6 handlers hbs ah).next (procHandlers s6 handlers hbs ah) :=
    hf _ _ (by rw [hn6]; ob) (Nat.le_refl _)
  have hctx6 : CtxLt s6 (s3.next + handlers.length) := (i4.wf.ctxLt (by ob)).of_eq hl6 hx6
  have f5 : Fut E (s3.next + handlers.length) s5.next s5 :=
    hback6 _ _ (Nat.le_refl _) ((hf (s3.next + handlers.length) s5.next (Nat.le_refl _) (by rw [hn6] at hjn7; ob)).back_TI
      (procHandlers_target handlers hbs s6 ah k6.wf hhbl (by rw [hn6]; ob) _ (TG.zone hctx6 (by omega) (by rw [hn6]; ob)) (.inl (by omega))))
  have hp := hp1 (f5.mono (by ob) (Nat.le_refl _))
  have hcov6 : Cov E (procHandlers s6 handlers hbs ah).stmts s6 := Cov.of_inv j7 ⟨fun e h => f7.mem h, fun r h => h⟩
  have hhb6 : ∀ hb ∈ hbs, hb < s6.next ∧ Calm s6 hb ∧ R E hb := by
    intro hb hm
    have := hmem hb hm
    refine ⟨hhbl hb hm, (unt6 hb (by omega) (Untouched.eue (try_own_ne hown (by omega) this.2)
      (j5.untouched (by omega) this.2 (hu4 hb (w.untouched this.1))))).calm, R.step hrt (mem6 _ hcov6 hb hm)⟩
  obtain ⟨r1, r2, r3, r4, r5⟩ := handlers_cntF ih fc' il ah handlers hbs s6 hhz k6.wf (hc4.of_eq hl6 hx6) hokh hlen hnd hhb6
    (by rw [hn6]; ob) f7
  have c5 : cnt (rE E) (s5.edgeUnlessExit s5.cur nat .normal).edges = cnt (rE E) s5.edges :=
    cnt_eue_plain s5 s5.cur nat .normal rfl (by intro h; cases h)
  have c4 := hp.cnt
  simp only [setCur_edges, setExcs_edges, bumpN_edges] at c4
  refine ⟨by omega, ?_, r2, ?_, ?_, ?_⟩
  · intro hn
    have he5 := hp.normal hn
    have hm : (s5.cur, nat, ETy.normal) ∈ (s5.edgeUnlessExit s5.cur nat .normal).edges := by
      rw [he5.calm.eue_eq]; exact List.mem_cons_self ..
    exact R.step he5.reach (hcov6.1 _ (k6.sub.1 _ hm))
  · exact Jmp.union (hp.jmp.cast rfl rfl) (r3.cast hl6.symm hx6.symm)
  · have t1 : LTI E (fun t => TgF s3.next s3.loops X0 ((sxL body).ex.brk || (sxAlts handlers).ex.brk) t ∨ (t = nat ∧ (sxL body).ex.normal = true) ∨
        (t = ah ∧ (sxAlts handlers).ex.normal = true) ∨ cfin = some t) s3 s5 :=
      (hp.tgt.mono (fun t h => by
        rcases tg_inner (n := s3.next) (b := ((sxL body).ex.brk || (sxAlts handlers).ex.brk)) h (by ob) (fun hb => by simp [hb])
          (fun y hy => (hmem y hy).1) with h | h
        · exact .inl h
        · exact .inr (.inr (.inr h)))).tryStartEq rfl
    have t2 := t1.eue (a := s5.cur) (b := nat) (t := .normal) (fun hr => by
      cases hn : (sxL body).ex.normal
      · exact absurd hr (hp.dead hn)
      · exact .inr (.inl ⟨rfl, rfl⟩))
    have t3 := lti6 _ _ t2 (fun _ h hh => .inl (.inl (hmem h hh).1))
    refine t3.trans (r4.mono (fun t h => ?_))
    rw [hl6, hx6] at h
    rcases h with h | ⟨h1, h2⟩
    · rcases tg_inner (n := s3.next) (b := ((sxL body).ex.brk || (sxAlts handlers).ex.brk)) h (by rw [hn6]; ob) (fun hb => by simp [hb])
        (fun y hy => (hmem y hy).1) with h | h
      · exact .inl h
      · exact .inr (.inr (.inr h))
    · exact .inr (.inr (.inl ⟨h1, h2⟩))
  · intro m hm1 hm2 hcm
    exact r5 m (by rw [hn6]; ob) (fun hb hh => by have := hmem hb hh; omega)
      (calm6 m (fun h => hm2 h.symm) (Calm.eue (try_own_ne hown hm2 (by omega)) (j5.calm hm2 (by omega) (Calm.congr (s := s3) rfl rfl hcm))))


/-! ### the `else` part -/
theorem tryElse_cntF (ih : ∀ ss, sizeL ss ≤ N → QFL E ss) (orelse : List Stmt) (hoz : sizeL orelse ≤ N) (nh' : FC) (il : Bool)
    (s7 : St) (elseB ah : Nat) (w7 : WF s7) (hc7 : CtxF nh' il s7) (hok : okFL il orelse = true) (hel : elseB < s7.next)
    (hf : Fut E s7.next (procList (setCur s7 elseB) orelse).next (procList (setCur s7 elseB) orelse))
    (hE : ∀ e ∈ (tryElse s7 true elseB ah orelse).edges, e ∈ E)
    (bn : Bool) (hlive : bn = true → R E elseB ∧ Calm s7 elseB) (hdead : bn = false → ¬ R E elseB) :
    cnt (rE E) (tryElse s7 true elseB ah orelse).edges = cnt (rE E) s7.edges + (if bn = true then ldLX nh' orelse else 0) ∧
    ((if bn = true then sxL orelse else ({} : SX)).ex.normal = true → R E ah) ∧
    Jmp E s7.loops s7.excs (if bn = true then sxL orelse else ({} : SX)).ex ∧
    LTI E (fun t => TgF s7.next s7.loops s7.excs (if bn = true then sxL orelse else ({} : SX)).ex.brk t ∨
        (t = ah ∧ (if bn = true then sxL orelse else ({} : SX)).ex.normal = true)) s7 (tryElse s7 true elseB ah orelse) ∧
    (∀ m, m < s7.next → m ≠ elseB → Calm s7 m → Calm (tryElse s7 true elseB ah orelse) m) := by
  unfold tryElse at hE ⊢
  simp only [↓reduceIte] at hE ⊢
  have hcur := w7.cur
  have i1 := (Inv.refl w7 (.inl rfl) : Inv s7.cur 0 s7 s7).setCur (x := elseB) (.inr (Nat.zero_le _)) hel
  obtain ⟨j, sm⟩ := procList_frame orelse _ i1.wf elseB s7.next (Or.inl rfl) (Nat.le_refl _)
  have hown := j.own
  have hjn := j.next_le
  have hp1 := fun he => ih orelse hoz nh' il _ i1.wf (hc7.of_eq rfl rfl) hok hf he
  generalize procList _ orelse = s8 at *
  have c8 : cnt (rE E) (s8.edgeUnlessExit s8.cur ah .normal).edges = cnt (rE E) s8.edges :=
    cnt_eue_plain s8 s8.cur ah .normal rfl (by intro h; cases h)
  have hcalm : ∀ m, m < s7.next → m ≠ elseB → Calm s7 m → Calm (s8.edgeUnlessExit s8.cur ah .normal) m := by
    intro m hm1 hm2 hcm
    exact Calm.eue (try_own_ne hown hm2 hm1) (j.calm hm2 hm1 (Calm.congr (s := s7) rfl rfl hcm))
  cases bn
  · have dr := dead_run i1.wf j hf (hdead rfl)
    have hcnt := (dr (fun _ => True)).1
    have hdd := (dr (fun _ => True)).2.1
    refine ⟨by rw [c8, hcnt]; rfl, ff, Jmp.empty rfl rfl rfl rfl, ((dr _).2.2.tryStartEq (s0' := s7) rfl).eue (fun hr => absurd hr hdd), hcalm⟩
  · simp only [↓reduceIte]
    have hp := hp1 ⟨(hlive rfl).1, Calm.congr (s := s7) rfl rfl (hlive rfl).2⟩
    have c7 := hp.cnt
    simp only [setCur_edges] at c7
    refine ⟨by rw [c8, c7], ?_, hp.jmp.cast rfl rfl, ?_, hcalm⟩
    · intro hn
      have he8 := hp.normal hn
      have hm : (s8.cur, ah, ETy.normal) ∈ (s8.edgeUnlessExit s8.cur ah .normal).edges := by
        rw [he8.calm.eue_eq]; exact List.mem_cons_self ..
      exact R.step he8.reach (hE _ hm)
    · have t1 : LTI E (fun t => TgF s7.next s7.loops s7.excs (sxL orelse).ex.brk t ∨ (t = ah ∧ (sxL orelse).ex.normal = true)) s7 s8 :=
        (hp.tgt.mono (fun t h => Or.inl h)).tryStartEq rfl
      refine t1.eue (fun hr => ?_)
      cases hn : (sxL orelse).ex.normal
      · exact absurd hr (hp.dead hn)
      · exact .inr ⟨rfl, rfl⟩

/-! ### assembling -/
theorem try_finishF {st s8 : St} (w : WF st) (ex : Ex) (n : Nat) (hlt : st.next + 1 < s8.next)
    (hf : Fut E st.next s8.next (setExcs (setCur s8 (st.next + 1)) st.excs))
    (hcnt : cnt (rE E) s8.edges = cnt (rE E) st.edges + n)
    (hn : ex.normal = true → R E (st.next + 1))
    (hcalm : Calm s8 (st.next + 1))
    (hbrk : Jmp E st.loops st.excs ex)
    (hlti : LTI E (fun t => TgF st.next st.loops st.excs ex.brk t ∧ (ex.normal = false → t ≠ st.next + 1)) st s8) :
    PostF E st (setExcs (setCur s8 (st.next + 1)) st.excs) ex n := by
  refine ⟨hcnt, fun h => ⟨hn h, Calm.congr (s := s8) rfl rfl hcalm⟩, fun h => ?_, hbrk, (hlti.mono (fun t h => h.1)).of_edges_eq rfl⟩
  show ¬ R E (st.next + 1)
  exact dead_of_LTI (hf.mono (lo' := st.next + 1) (hi' := st.next + 2) (by omega) (by omega))
    (Nat.le_refl _) (by omega) w (by omega) ((hlti.mono (fun t ht => ht.2 h)).of_edges_eq rfl)


/-! ### body, handlers and `else` together (with or without a `finally` block) -/
theorem tg_low {st : St} (w : WF st) {b : Bool} {t : Nat} (h : TgF (st.next + 2) st.loops st.excs b t) :
    TgF st.next st.loops st.excs b t ∧ t ≠ st.next + 1 := by
  refine ⟨h.mono (by omega) id, h.ne (m := st.next + 1) (by omega) (by have := w.two; unfold exitB; omega) ?_ (WF.not_XT w (by omega))⟩
  intro hd x d rest hl
  have := w.loops (hd, x, d) (by rw [hl]; exact List.mem_cons_self ..)
  simp only at this
  exact ⟨by omega, fun _ => by omega⟩

/-- targets of code run under one more context `c0` (fresh handler blocks, fresh `finally` block), seen from outside -/
theorem tg_outer {st : St} (w : WF st) {n' : Nat} {c0 : Exc} {b b' : Bool} {t : Nat}
    (h : TgF n' st.loops (c0 :: st.excs) b' t) (hn : st.next + 2 ≤ n') (hb : b' = true → b = true)
    (hh : ∀ y ∈ c0.handlers, st.next + 2 ≤ y) (hcf : ∀ f, c0.fin = some f → st.next + 2 ≤ f) :
    TgF st.next st.loops st.excs b t ∧ t ≠ st.next + 1 := by
  rcases h with h | h | ⟨hd, x, d, rest, hl, h⟩ | ⟨c, hc, h⟩
  · exact ⟨.inl (by omega), by omega⟩
  · exact tg_low w (.inr (.inl h))
  · refine tg_low w (.inr (.inr (.inl ⟨hd, x, d, rest, hl, ?_⟩)))
    rcases h with h | ⟨h1, h2⟩
    · exact .inl h
    · exact .inr ⟨h1, hb h2⟩
  · rcases List.mem_cons.mp hc with rfl | hc
    · rcases h with h | h
      · have := hh _ h; exact ⟨.inl (by omega), by omega⟩
      · have := hcf _ h; exact ⟨.inl (by omega), by omega⟩
    · exact tg_low w (.inr (.inr (.inr ⟨c, hc, h⟩)))

abbrev tryME (s3 : St) (tryB : Nat) (cfin : Option Nat) (X0 : List Exc) (nat ah : Nat) (body handlers : List Stmt) (hasElse : Bool)
    (elseB : Nat) (orelse : List Stmt) : St :=
  tryElse (tryMid s3 tryB cfin X0 nat ah body handlers) hasElse elseB ah orelse

abbrev ctxOf (s3 : St) (cfin : Option Nat) (handlers : List Stmt) : Exc :=
  { fin := cfin, handlers := (List.range handlers.length).map (fun k => s3.next + k), processingFinally := false }

abbrev elx (body orelse : List Stmt) : SX := if (sxL body).ex.normal = true then sxL orelse else ({} : SX)

abbrev pnx (body handlers orelse : List Stmt) : Bool :=
  (if orelse.isEmpty = true then (sxL body).ex.normal else (elx body orelse).ex.normal) || (sxAlts handlers).ex.normal

theorem tryME_cntF (ih : ∀ ss, sizeL ss ≤ N → QFL E ss) (body handlers orelse : List Stmt)
    (hb : sizeL body ≤ N) (hh : sizeL handlers ≤ N) (ho : sizeL orelse ≤ N) (fc : FC) (il : Bool) (st : St) (w : WF st) (hc : CtxF fc il st)
    (he : EntryC E st) (hokb : okFL il body = true) (hokh : okFHs il handlers = true) (hoke : okFL il orelse = true)
    (hasFin hasElse : Bool) (hE : hasElse = !orelse.isEmpty) (s3 : St) (finB elseB : Nat)
    (q1 : s3.edges = (st.cur, st.next, .normal) :: st.edges) (q2 : s3.stmts = st.stmts) (q3 : s3.loops = st.loops) (_q4 : s3.excs = st.excs)
    (q5 : s3.cur = st.cur) (q6 : st.next + 2 ≤ s3.next) (q7 : hasFin = true → st.next + 2 ≤ finB ∧ finB < s3.next)
    (q8 : hasElse = true → st.next + 2 ≤ elseB ∧ elseB < s3.next) (q9 : hasFin = true → hasElse = true → finB ≠ elseB)
    (k3 : Inv st.cur 0 st s3)
    (cfin : Option Nat) (hcfin : cfin = if hasFin then some finB else none)
    (nat : Nat) (hnat : nat = if hasElse then elseB else if hasFin then finB else st.next + 1)
    (ah : Nat) (hah : ah = if hasFin then finB else st.next + 1)
    (fc' : FC) (hfc : fc' = if hasFin then FC.inFin else fc.inTry handlers.length)
    (hF8 : ∀ lo hi, st.next + 2 ≤ lo → (hasFin = true → finB < lo ∨ hi ≤ finB) → (hi ≤ s3.next ∨ s3.next + handlers.length ≤ lo) →
      hi ≤ (tryME s3 st.next cfin st.excs nat ah body handlers hasElse elseB orelse).next →
      Fut E lo hi (tryME s3 st.next cfin st.excs nat ah body handlers hasElse elseB orelse)) :
    cnt (rE E) (tryME s3 st.next cfin st.excs nat ah body handlers hasElse elseB orelse).edges =
      cnt (rE E) st.edges + (ldLX fc' body + ldAltsX fc' handlers + (if (sxL body).ex.normal = true then ldLX fc' orelse else 0)) ∧
    (pnx body handlers orelse = true → R E ah) ∧
    Jmp E st.loops (ctxOf s3 cfin handlers :: st.excs) (((sxL body).ex.union (sxAlts handlers).ex).union (elx body orelse).ex) ∧
    LTI E (fun t => TgF st.next st.loops st.excs ((sxL body).ex.brk || (sxAlts handlers).ex.brk || (elx body orelse).ex.brk) t ∧
        (t = st.next + 1 → hasFin = false ∧ pnx body handlers orelse = true)) st
      (tryME s3 st.next cfin st.excs nat ah body handlers hasElse elseB orelse) ∧
    (∀ m, st.next + 1 ≤ m → m < s3.next → (hasElse = true → m ≠ elseB) →
      Calm (tryME s3 st.next cfin st.excs nat ah body handlers hasElse elseB orelse) m) ∧
    Inv st.cur 0 st (tryME s3 st.next cfin st.excs nat ah body handlers hasElse elseB orelse) ∧
    (tryME s3 st.next cfin st.excs nat ah body handlers hasElse elseB orelse).loops = st.loops ∧
    (tryME s3 st.next cfin st.excs nat ah body handlers hasElse elseB orelse).excs = ctxOf s3 cfin handlers :: st.excs ∧
    s3.next + handlers.length ≤ (tryME s3 st.next cfin st.excs nat ah body handlers hasElse elseB orelse).next := by
  have hcur := w.cur
  have h2 := w.two
  have w3 := k3.wf
  have hahl : st.next + 1 ≤ ah ∧ ah < s3.next ∧ (hasElse = true → ah ≠ elseB) ∧ (ah = st.next + 1 → hasFin = false) := by
    rw [hah]; cases hasFin
    · simp only [Bool.false_eq_true, ↓reduceIte]
      exact ⟨Nat.le_refl _, by omega, fun h => by have := q8 h; omega, fun _ => by first | rfl | trivial⟩
    · simp only [↓reduceIte]
      have := q7 rfl
      exact ⟨by omega, this.2, fun h => q9 rfl h, fun h => by omega⟩
  have hnatl : nat < s3.next ∧ st.next + 1 ≤ nat ∧ (nat = st.next + 1 → hasFin = false ∧ hasElse = false) := by
    rw [hnat]; cases hasElse
    · cases hasFin
      · simp only [Bool.false_eq_true, ↓reduceIte]; exact ⟨by omega, Nat.le_refl _, fun _ => by first | exact ⟨rfl, rfl⟩ | trivial | simp⟩
      · simp only [Bool.false_eq_true, ↓reduceIte]; have := q7 rfl; exact ⟨this.2, by omega, fun h => by omega⟩
    · simp only [↓reduceIte]; have := q8 rfl; exact ⟨this.2, by omega, fun h => by omega⟩
  have hx0 := w.excs_le (m := s3.next) (by omega)
  have hcf : ∀ f, cfin = some f → f < s3.next ∧ st.next + 2 ≤ f := by
    intro f hf'
    rw [hcfin] at hf'
    cases hasFin
    · simp at hf'
    · simp only [↓reduceIte, Option.some.injEq] at hf'
      rw [← hf']; exact ⟨(q7 rfl).2, (q7 rfl).1⟩
  obtain ⟨k7, l7, x7, hn7⟩ := tryMid_frame (c := s3.cur) (n := 0) (frame_all N).1 (frame_all N).2 body handlers hb hh
    (Inv.refl w3 (Or.inl rfl)) (Nat.zero_le _) st.next (Or.inr (Nat.zero_le _)) (by omega) cfin (fun f hf' => (hcf f hf').1) st.excs hx0
    nat ah hnatl.1 hahl.2.1
  obtain ⟨k8, sm8, hn8⟩ := tryElse_frame (c := s3.cur) (n := 0) (frame_all N).2 orelse ho (Inv.refl k7.wf (Or.inr (Nat.zero_le _))) (Nat.zero_le _)
    hasElse elseB ah (fun h => ⟨Nat.zero_le _, by have := (q8 h).2; omega⟩) (by have := hahl.2.1; omega)
  have hn8' : (tryMid s3 st.next cfin st.excs nat ah body handlers).next ≤
      (tryME s3 st.next cfin st.excs nat ah body handlers hasElse elseB orelse).next := hn8
  have hmemE : ∀ x ∈ (tryME s3 st.next cfin st.excs nat ah body handlers hasElse elseB orelse).edges, x ∈ E :=
    fun x h => (hF8 (tryME s3 st.next cfin st.excs nat ah body handlers hasElse elseB orelse).next
      (tryME s3 st.next cfin st.excs nat ah body handlers hasElse elseB orelse).next
      (by omega) (fun hfin => .inl (by have := q7 hfin; omega)) (.inr (by omega)) (Nat.le_refl _)).mem h
  have hrt : R E st.next :=
    R.step he.reach (hmemE _ (k8.sub.1 _ (k7.sub.1 (st.cur, st.next, .normal) (by rw [q1]; exact List.mem_cons_self ..))))
  have hu3 : ∀ m, st.next ≤ m → Untouched s3 m := by
    intro m hm
    refine ⟨fun x hx => ?_, fun r hr => ?_⟩
    · rw [q1] at hx
      rcases List.mem_cons.mp hx with rfl | hx
      · simp only; omega
      · exact (w.untouched hm).1 x hx
    · rw [q2] at hr; exact (w.untouched hm).2 r hr
  have c3 : cnt (rE E) s3.edges = cnt (rE E) st.edges := by
    rw [q1]; exact cnt_cons_plain rfl (by intro h; cases h)
  have hmemh : ∀ h ∈ (List.range handlers.length).map (fun k => s3.next + k), s3.next ≤ h ∧ h < s3.next + handlers.length := by
    intro h hh
    obtain ⟨k, hk, rfl⟩ := List.mem_map.mp hh
    have := List.mem_range.mp hk
    omega
  have hctx7 : ∀ lo, s3.next + handlers.length ≤ lo → CtxLt (tryMid s3 st.next cfin st.excs nat ah body handlers) lo := by
    intro lo hlo
    refine ⟨fun x hx => ?_, fun c hc => ?_⟩
    · rw [l7, q3] at hx; have := w.loops x hx; omega
    · rw [x7] at hc
      rcases List.mem_cons.mp hc with rfl | hc
      · exact ⟨fun f hf' => by have := (hcf f hf').1; omega, fun h hh => by have := hmemh h hh; omega⟩
      · exact ⟨fun f hf => by have := (w.excs c hc).1 f hf; omega, fun h hh => by have := (w.excs c hc).2 h hh; omega⟩
  have hfM : ∀ lo hi, s3.next + handlers.length ≤ lo → hi ≤ (tryMid s3 st.next cfin st.excs nat ah body handlers).next →
      Fut E lo hi (tryMid s3 st.next cfin st.excs nat ah body handlers) := fun lo hi hlo hhi =>
    tryElse_back orelse _ k7.wf hasElse elseB ah (fun h => by have := (q8 h).2; omega)
      (TG.zone (hctx7 lo hlo) (by omega) hhi) (.inl (by have := hahl.2.1; omega))
      (hF8 lo hi (by omega) (fun hfin => .inl (by have := q7 hfin; omega)) (.inr hlo) (by omega))
  have hctxM : ∀ s' : St, s'.loops = s3.loops → s'.excs = ctxOf s3 cfin handlers :: st.excs → CtxF fc' il s' := by
    intro s' hl hx
    have hfresh : ∀ y ∈ (List.range handlers.length).map (fun k => s3.next + k), st.next ≤ y := fun y hy => by have := hmemh y hy; omega
    have hnd := nodup_map_add s3.next handlers.length
    have hlen : ((List.range handlers.length).map (fun k => s3.next + k)).length = handlers.length := by simp
    rw [hfc]
    cases hasFin
    · simp only [Bool.false_eq_true, ↓reduceIte] at hcfin ⊢
      subst hcfin
      rw [← hlen]
      exact hc.pushTryN w (hl.trans q3) hx hfresh hnd
    · simp only [↓reduceIte] at hcfin ⊢
      subst hcfin
      exact hc.pushTryF w (hl.trans q3) hx hfresh hnd
  obtain ⟨m1, m2, m3, m4, m5, m6⟩ := tryMid_cntF ih body handlers hb hh il s3 st.next cfin st.excs nat ah w3 hx0 (fun f hf' => (hcf f hf').1) fc'
    hctxM hokb hokh (by omega) (hu3 _ (Nat.le_refl _)).calm hrt hnatl.1 hahl.2.1 hfM
  have hc7 : CtxF fc' il (tryMid s3 st.next cfin st.excs nat ah body handlers) := hctxM _ l7 x7
  have hl7' : (tryMid s3 st.next cfin st.excs nat ah body handlers).loops = st.loops := l7.trans q3
  have hemp : hasElse = false → orelse = [] := by
    intro h
    rw [h] at hE
    rcases orelse with _ | ⟨o, os⟩
    · rfl
    · simp at hE
  -- the `else` part
  have key :
      cnt (rE E) (tryME s3 st.next cfin st.excs nat ah body handlers hasElse elseB orelse).edges =
        cnt (rE E) (tryMid s3 st.next cfin st.excs nat ah body handlers).edges +
          (if (sxL body).ex.normal = true then ldLX fc' orelse else 0) ∧
      ((if orelse.isEmpty = true then (sxL body).ex.normal else (elx body orelse).ex.normal) = true → R E ah) ∧
      Jmp E (tryMid s3 st.next cfin st.excs nat ah body handlers).loops (tryMid s3 st.next cfin st.excs nat ah body handlers).excs
        (elx body orelse).ex ∧
      LTI E (fun t => TgF (tryMid s3 st.next cfin st.excs nat ah body handlers).next
            (tryMid s3 st.next cfin st.excs nat ah body handlers).loops
            (tryMid s3 st.next cfin st.excs nat ah body handlers).excs (elx body orelse).ex.brk t ∨
          (t = ah ∧ (elx body orelse).ex.normal = true))
        (tryMid s3 st.next cfin st.excs nat ah body handlers)
        (tryME s3 st.next cfin st.excs nat ah body handlers hasElse elseB orelse) ∧
      (∀ m, m < (tryMid s3 st.next cfin st.excs nat ah body handlers).next → (hasElse = true → m ≠ elseB) →
        Calm (tryMid s3 st.next cfin st.excs nat ah body handlers) m →
        Calm (tryME s3 st.next cfin st.excs nat ah body handlers hasElse elseB orelse) m) ∧
      ((elx body orelse).ex.normal = true →
        (if orelse.isEmpty = true then (sxL body).ex.normal else (elx body orelse).ex.normal) = true) := by
    cases hasElse
    · have hnil := hemp rfl
      subst hnil
      simp only [Bool.false_eq_true, ↓reduceIte] at hnat
      have hna : nat = ah := hnat.trans hah.symm
      unfold tryME tryElse elx
      simp only [Bool.false_eq_true, ↓reduceIte, List.isEmpty_nil, ldLX_nil, sxL_nil]
      refine ⟨by simp, ?_, ?_, LTI.refl _ _ _, fun m _ _ h => h, ?_⟩
      · intro h; rw [← hna]; exact m2 h
      · split <;> exact Jmp.empty rfl rfl rfl rfl
      · split
        · intro _; assumption
        · intro h; cases h
    · have hne : orelse.isEmpty = false := by simpa using hE.symm
      simp only [↓reduceIte] at hnat
      have hnat' := hnat.symm
      subst hnat'
      obtain ⟨q8a, q8b⟩ := q8 rfl
      have hdeadE : (sxL body).ex.normal = false → ¬ R E elseB := by
        intro hbn
        have g : TG (fun x => x < elseB ∨ elseB + 1 ≤ x) (tryMid s3 st.next cfin st.excs elseB ah body handlers) := by
          refine ⟨fun x hx => .inr (by omega), .inl (by unfold exitB; omega), ?_, ?_⟩
          · intro l hl
            rw [hl7'] at hl
            have := w.loops l hl
            exact ⟨.inl (by omega), .inl (by omega)⟩
          · intro c hc'
            rw [x7] at hc'
            rcases List.mem_cons.mp hc' with rfl | hc'
            · refine ⟨fun f hf' => ?_, fun h hh => .inr (by have := hmemh h hh; omega)⟩
              have hff : f = finB ∧ hasFin = true := by
                have hf'' : cfin = some f := hf'
                rw [hcfin] at hf''
                cases hasFin
                · simp at hf''
                · simp only [↓reduceIte, Option.some.injEq] at hf''; exact ⟨hf''.symm, rfl⟩
              have := q9 hff.2 rfl
              rw [hff.1]; omega
            · exact ⟨fun f hf => .inl (by have := (w.excs c hc').1 f hf; omega), fun h hh => .inl (by have := (w.excs c hc').2 h hh; omega)⟩
        have f7 := tryElse_back orelse _ k7.wf true elseB ah (fun _ => by omega) g
          (by have := hahl.2.2.1 rfl; omega)
          (hF8 elseB (elseB + 1) q8a (fun hfin => by have := q9 hfin rfl; omega) (.inl (by omega)) (by omega))
        refine dead_of_LTI f7 (Nat.le_refl _) (by omega) w (by omega) ?_
        have t0 : LTI E (fun x => x ≠ elseB) st s3 :=
          ⟨[(st.cur, st.next, .normal)], q1, fun x hx _ => by rw [List.mem_singleton.mp hx]; simp only; omega⟩
        refine t0.trans (m5.mono (fun t h => ?_))
        rcases h with h | ⟨_, h⟩ | ⟨h, _⟩ | h
        · refine h.ne q8b (by unfold exitB; omega) ?_ (PV.CFGFin.not_XT w.excs (by omega))
          intro hd x d rest hl
          have := w.loops (hd, x, d) (by rw [← q3, hl]; exact List.mem_cons_self ..)
          simp only at this
          exact ⟨by omega, fun _ => by omega⟩
        · rw [hbn] at h; cases h
        · have := hahl.2.2.1 rfl; omega
        · have hff : t = finB ∧ hasFin = true := by
            rw [hcfin] at h
            cases hasFin
            · simp at h
            · simp only [↓reduceIte, Option.some.injEq] at h; exact ⟨h.symm, rfl⟩
          have := q9 hff.2 rfl
          rw [hff.1]; exact this
      have hf8 := hF8 (tryMid s3 st.next cfin st.excs elseB ah body handlers).next
        (tryME s3 st.next cfin st.excs elseB ah body handlers true elseB orelse).next (by omega)
        (fun hfin => .inl (by have := q7 hfin; omega)) (.inr (by omega)) (Nat.le_refl _)
      unfold tryME tryElse at hf8
      simp only [↓reduceIte, edgeUnlessExit_next] at hf8
      obtain ⟨e1, e2, e3, e4, e5⟩ := tryElse_cntF ih orelse ho fc' il _ elseB ah k7.wf hc7 hoke (by omega)
        (hf8.back_eue (.inl (by have := hahl.2.1; omega)))
        hmemE (sxL body).ex.normal (fun h => ⟨m2 h, m6 elseB q8b (by omega) (hu3 _ (by omega)).calm⟩) hdeadE
      unfold elx
      simp only [hne, Bool.false_eq_true, ↓reduceIte]
      exact ⟨e1, e2, e3, e4, fun m hm1 hm2 hcm => e5 m hm1 (by first | exact hm2 rfl | exact hm2 trivial | simpa using hm2) hcm, id⟩
  obtain ⟨a1, a2, a3, a4, a5, a7⟩ := key
  have hlt8 : s3.next + handlers.length ≤ (tryME s3 st.next cfin st.excs nat ah body handlers hasElse elseB orelse).next := by
    unfold tryME; omega
  have hx8 : (tryME s3 st.next cfin st.excs nat ah body handlers hasElse elseB orelse).excs = ctxOf s3 cfin handlers :: st.excs :=
    sm8.excs.trans x7
  have hl8 : (tryME s3 st.next cfin st.excs nat ah body handlers hasElse elseB orelse).loops = st.loops := sm8.loops.trans hl7'
  have k38 : Inv st.cur 0 st (tryME s3 st.next cfin st.excs nat ah body handlers hasElse elseB orelse) := by
    rw [q5] at k7 k8
    exact (k3.trans k7).trans k8
  have hs7n : s3.next + handlers.length ≤ (tryMid s3 st.next cfin st.excs nat ah body handlers).next := hn7
  have helnE : hasElse = false →
      (if orelse.isEmpty = true then (sxL body).ex.normal else (elx body orelse).ex.normal) = (sxL body).ex.normal := by
    intro h
    rw [hemp h]; rfl
  unfold pnx
  generalize elx body orelse = el at *
  generalize (if orelse.isEmpty = true then (sxL body).ex.normal else el.ex.normal) = eln at *
  unfold tryME at *
  generalize tryMid s3 st.next cfin st.excs nat ah body handlers = s7 at *
  generalize tryElse s7 hasElse elseB ah orelse = s8 at *
  refine ⟨by rw [a1, m1, c3]; omega, ?_, ?_, ?_, ?_, k38, hl8, hx8, hlt8⟩
  · intro hn
    rcases Bool.or_eq_true_iff.mp hn with hn | hn
    · exact a2 hn
    · exact m3 hn
  · exact Jmp.union (m4.cast q3.symm rfl) (a3.cast hl7'.symm x7.symm)
  · have t0 : LTI E (fun t => TgF st.next st.loops st.excs ((sxL body).ex.brk || (sxAlts handlers).ex.brk || el.ex.brk) t ∧
        (t = st.next + 1 → hasFin = false ∧ (eln || (sxAlts handlers).ex.normal) = true)) st s3 :=
      ⟨[(st.cur, st.next, .normal)], q1, fun x hx _ => by
        rw [List.mem_singleton.mp hx]; exact ⟨.inl (Nat.le_refl _), fun h => by simp only at h; omega⟩⟩
    have t1 := t0.trans (m5.mono (fun t h => by
      rcases h with h | ⟨h1, h2⟩ | ⟨h1, h2⟩ | h
      · rw [q3] at h
        have := tg_low w (h.mono (n := st.next + 2) (b := ((sxL body).ex.brk || (sxAlts handlers).ex.brk || el.ex.brk)) q6 (fun hb => by simp [hb]))
        exact ⟨this.1, fun ht => absurd ht this.2⟩
      · subst h1
        refine ⟨.inl (by omega), fun ht => ?_⟩
        obtain ⟨hf1, hf2⟩ := hnatl.2.2 ht
        refine ⟨hf1, ?_⟩
        rw [helnE hf2, h2]; rfl
      · subst h1
        refine ⟨.inl (by omega), fun ht => ⟨hahl.2.2.2 ht, ?_⟩⟩
        rw [h2]; simp
      · have := hcf t h
        exact ⟨.inl (by omega), fun ht => by omega⟩))
    refine t1.trans (a4.mono (fun t h => ?_))
    rcases h with h | ⟨h1, h2⟩
    · rw [hl7', x7] at h
      have := tg_outer w (b := ((sxL body).ex.brk || (sxAlts handlers).ex.brk || el.ex.brk)) h (by omega) (fun hb => by simp [hb])
        (fun y hy => by have := hmemh y hy; omega) (fun f hf' => (hcf f hf').2)
      exact ⟨this.1, fun ht => absurd ht this.2⟩
    · subst h1
      refine ⟨.inl (by omega), fun ht => ⟨hahl.2.2.2 ht, ?_⟩⟩
      rw [a7 h2]; rfl
  · intro m hm1 hm2 hm3
    exact a5 m (by omega) hm3 (m6 m hm2 (by omega) (hu3 m (by omega)).calm)

/-! ### `try` without `finally` -/
theorem try_cntN (ih : ∀ ss, sizeL ss ≤ N → QFL E ss) (body handlers orelse : List Stmt)
    (hb : sizeL body ≤ N) (hh : sizeL handlers ≤ N) (ho : sizeL orelse ≤ N) (s e : Nat) :
    QFS E (.try_ s e body handlers orelse []) := by
  intro fc il st w hc hok hf he
  rw [okFS_try] at hok
  simp only [Bool.and_eq_true] at hok
  obtain ⟨⟨⟨hokb, hokh⟩, hoke⟩, _⟩ := hok
  rw [procStmt_try, procTry_eq'] at hf ⊢
  rw [sxS_try, ldSX_try]
  simp only [List.isEmpty_nil, Bool.not_true, Bool.false_eq_true, ↓reduceIte] at hf ⊢
  unfold tryFin at hf ⊢
  simp only [Bool.false_eq_true, ↓reduceIte] at hf ⊢
  obtain ⟨hasElse, hE⟩ : ∃ b, b = !orelse.isEmpty := ⟨_, rfl⟩
  rw [← hE] at hf ⊢
  obtain ⟨q1, q2, q3, q4, q5, q6, q7, q8, q9⟩ := tryPre_facts st false hasElse
  obtain ⟨k3, _⟩ := tryPre_frame (c := st.cur) (n := 0) st w (Or.inl rfl) (Nat.zero_le _) false hasElse
  generalize tryPre st false hasElse = p at *
  obtain ⟨s3, finB, elseB⟩ := p
  simp only [] at hf q1 q2 q3 q4 q5 q6 q7 q8 q9 k3 ⊢
  generalize hnat : (if hasElse = true then elseB else st.next + 1) = nat at hf ⊢
  have hcur := w.cur
  obtain ⟨r1, r2, r3, r4, r5, r6, r7, r8, r9⟩ := tryME_cntF ih body handlers orelse hb hh ho fc il st w hc he hokb hokh hoke false hasElse hE
    s3 finB elseB q1 q2 q3 q4 q5 q6 q7 q8 q9 k3 none rfl nat (by subst hnat; rfl) (st.next + 1) rfl (fc.inTry handlers.length) rfl
    (fun lo hi h1 _ _ h4 =>
      (hf.mono (lo' := lo) (hi' := hi) (by omega) (by simp only [setExcs_next, setCur_next]; exact h4)).back_setExcs.back_setCur)
  have r9' : s3.next + handlers.length ≤
      (tryElse (tryMid s3 st.next none st.excs nat (st.next + 1) body handlers) hasElse elseB (st.next + 1) orelse).next := r9
  have q6' : st.next + 2 ≤ s3.next := q6
  refine try_finishF w _ _ (by omega) hf r1 r2 (r5 _ (Nat.le_refl _) (by omega) (fun h => by have := q8 h; omega)) ?_ ?_
  · exact ((r3.popPlain rfl rfl (fun l hl => hc.ld l hl)).mono id id id id)
  · refine r4.mono (fun t h => ⟨h.1, fun hn ht => ?_⟩)
    have h1 := (h.2 ht).2
    have h2 : pnx body handlers orelse = false := hn
    rw [h2] at h1; cases h1

/-! ### the `finally` part -/
theorem exit_reach {L : List (Nat × Nat × Nat)} {X : List Exc} {c : Exc} {f : Nat} {ex : Ex} {il : Bool} (J : Jmp E L (c :: X) ex)
    (h1 : c.processingFinally = false) (h2 : c.fin = some f) (hd : ∀ l ∈ L, l.2.2 ≤ X.length) (hl : il = true → L ≠ [])
    (h : ex.ret = true ∨ ex.raise = true ∨ (il = true ∧ (ex.brk = true ∨ ex.cont = true))) : R E f := by
  rcases h with h | h | ⟨hil, h | h⟩
  · exact J.ret h (some f) (pendO_cons_fin h1 h2)
  · exact J.raise h f (pendO_cons_fin h1 h2)
  · obtain ⟨⟨hh, x, d⟩, rest, hll⟩ := List.exists_cons_of_ne_nil (hl hil)
    have hdd := hd (hh, x, d) (by rw [hll]; exact List.mem_cons_self ..)
    exact J.brk h hh x d rest hll (some f) (by rw [take_cons_depth c X hdd]; exact pendO_cons_fin h1 h2)
  · obtain ⟨⟨hh, x, d⟩, rest, hll⟩ := List.exists_cons_of_ne_nil (hl hil)
    have hdd := hd (hh, x, d) (by rw [hll]; exact List.mem_cons_self ..)
    exact J.cont h hh x d rest hll (some f) (by rw [take_cons_depth c X hdd]; exact pendO_cons_fin h1 h2)

theorem tryFin_back {lo hi : Nat} (fin : List Stmt) (s8 : St) (w8 : WF s8) (finB exitBk : Nat) (ctx : Exc) (X0 : List Exc)
    (hex : s8.excs = ctx :: X0) (hfl : finB < s8.next)
    (g : TG (fun x => x < lo ∨ hi ≤ x) s8) (ge : exitBk < lo ∨ hi ≤ exitBk)
    (f : Fut E lo hi (tryFin s8 true finB exitBk ctx X0 fin)) : Fut E lo hi s8 := by
  unfold tryFin at f
  simp only [↓reduceIte] at f
  have hb := w8.excs
  rw [hex] at hb
  have i0 : Inv s8.cur 0 s8 s8 := Inv.refl w8 (.inl rfl)
  have i1 := (i0.setCur (x := finB) (.inr (Nat.zero_le _)) hfl).setExcs (x := { ctx with processingFinally := true } :: X0) (by
    intro cx hcx
    rcases List.mem_cons.mp hcx with rfl | hcx
    · exact hb ctx (List.mem_cons_self ..)
    · exact hb cx (List.mem_cons_of_mem _ hcx))
  obtain ⟨j, sm⟩ := procList_frame fin _ i1.wf s8.cur 0 (.inr (Nat.zero_le _)) (Nat.zero_le _)
  have gA : TG (fun x => x < lo ∨ hi ≤ x) (setExcs (setCur s8 finB) ({ ctx with processingFinally := true } :: X0)) := by
    refine ⟨g.up, g.exit, g.loops, ?_⟩
    intro c hc
    rcases List.mem_cons.mp hc with rfl | hc
    · exact g.excs ctx (by rw [hex]; exact List.mem_cons_self ..)
    · exact g.excs c (by rw [hex]; exact List.mem_cons_of_mem _ hc)
  have tiB := procList_target fin _ i1.wf _ gA
  have hjn := j.next_le
  have hsl := sm.loops
  generalize procList _ fin = sB at *
  have gD : TG (fun x => x < lo ∨ hi ≤ x) ((setExcs sB (ctx :: X0)).edgeUnlessExit (setExcs sB (ctx :: X0)).cur exitBk .normal) := by
    refine ⟨fun x hx => g.up x (by ob), g.exit, ?_, ?_⟩
    · intro l hl
      simp only [edgeUnlessExit_loops, setExcs_loops, hsl, setCur_loops] at hl
      exact g.loops l hl
    · intro c hc
      simp only [edgeUnlessExit_excs, setExcs_excs] at hc
      exact g.excs c (by rw [hex]; exact hc)
  exact ((((f.back_TI (finallyPropagation_target _ finB _ gD)).back_eue ge).back_setExcs).back_TI tiB).back_setExcs.back_setCur

/-! #### `conn` -/
theorem hasSucc_edgeT (s : St) (a b : Nat) (t : ETy) (a' b' : Nat) :
    (s.edge a b t).hasSucc a' b' = ((a == a' && b == b') || s.hasSucc a' b') := by
  simp [St.hasSucc, St.edge]

theorem cnt_conn_plain {r : Nat → Bool} (fin : Nat) (s : St) (b : Nat) (t : ETy) (h1 : isCond t = false) (h2 : t ≠ .exc) :
    cnt r (conn fin s b t).edges = cnt r s.edges := by
  unfold conn; split
  · rfl
  · exact cnt_cons_plain h1 h2

theorem _root_.PV.CFGSound.LTI.conn {G : Nat → Prop} {s0 s : St} (h : LTI E G s0 s) {fin b : Nat} {t : ETy} (hb : G b) : LTI E G s0 (conn fin s b t) := by
  unfold PV.CFGSound.conn; split
  · exact h
  · exact h.edge (fun _ => hb)

theorem _root_.PV.CFGSound.Calm.conn {s : St} {m fin b : Nat} {t : ETy} (hf : fin ≠ m) (h : Calm s m) : Calm (conn fin s b t) m := by
  unfold PV.CFGSound.conn; split
  · exact h
  · exact h.edge hf

theorem hasSucc_conn_ne (fin : Nat) (s : St) (b : Nat) (t : ETy) (a' b' : Nat) (h : b ≠ b') :
    (conn fin s b t).hasSucc a' b' = s.hasSucc a' b' := by
  unfold conn; split
  · rfl
  · rw [hasSucc_edgeT]; simp [h]

theorem hasSucc_conn_mono (fin : Nat) (s : St) (b : Nat) (t : ETy) (a' b' : Nat) (h : s.hasSucc a' b' = true) :
    (conn fin s b t).hasSucc a' b' = true := by
  unfold conn; split
  · exact h
  · rw [hasSucc_edgeT, h]; simp

theorem hasSucc_conn_self (fin : Nat) (s : St) (b : Nat) (t : ETy) : (conn fin s b t).hasSucc fin b = true := by
  unfold conn; split
  · assumption
  · rw [hasSucc_edgeT]; simp

theorem hasSucc_eue_ne (s : St) (a b : Nat) (t : ETy) (a' b' : Nat) (h : b ≠ b') :
    (s.edgeUnlessExit a b t).hasSucc a' b' = s.hasSucc a' b' := by
  rcases edgeUnlessExit_cases s a b t with ⟨_, h'⟩ | ⟨_, h'⟩ <;> rw [h']
  rw [hasSucc_edgeT]; simp [h]

theorem fp1_eq (fin : Nat) (no : Option Nat) (s : St) : fp1 fin no s = conn fin s (no.getD exitB) .ret := by
  unfold fp1; cases no <;> rfl

theorem fp2_eq_nil (fin : Nat) (outer : List Exc) (s : St) (h : s.loops = []) : fp2 fin outer s = s := by
  unfold fp2; rw [h]

theorem fp2_eq_cons (fin : Nat) (outer : List Exc) (s : St) {hdr ex d : Nat} {rest : List (Nat × Nat × Nat)} (h : s.loops = (hdr, ex, d) :: rest) :
    fp2 fin outer s =
      conn fin (conn fin s (((outer.take (s.excs.length - 1 - d)).findSome? (fun c => c.fin)).getD ex) .brk)
        (((outer.take (s.excs.length - 1 - d)).findSome? (fun c => c.fin)).getD hdr) .cont := by
  unfold fp2; rw [h]
  simp only
  cases (outer.take (s.excs.length - 1 - d)).findSome? (fun c => c.fin) <;> rfl

/-- the exception-typed propagation edges: one per handler of the enclosing context that the `finally` block does not reach yet -/
theorem foldl_conn_cnt {r : Nat → Bool} (fin : Nat) (hr : r fin = true) (b0 : Bool) : ∀ (hs : List Nat) (s : St), hs.Nodup →
    (∀ h ∈ hs, s.hasSucc fin h = b0) →
    cnt r (hs.foldl (fun st h => conn fin st h .exc) s).edges = cnt r s.edges + (if b0 = true then 0 else hs.length)
  | [], s, _, _ => by simp
  | h :: hs, s, hnd, hh => by
    simp only [List.foldl_cons, List.length_cons]
    rw [List.nodup_cons] at hnd
    have h0 := hh h List.mem_cons_self
    cases b0
    · have hc : conn fin s h .exc = s.edge fin h .exc := by unfold conn; rw [h0]; simp
      rw [hc, foldl_conn_cnt fin hr false hs _ hnd.2 (fun y hy => by
        rw [hasSucc_edgeT, hh y (List.mem_cons_of_mem _ hy)]
        have : h ≠ y := fun e => hnd.1 (e ▸ hy)
        simp [this])]
      rw [edge_edges, cnt_cons_exc hr]
      simp only [Bool.false_eq_true, ↓reduceIte]; omega
    · have hc : conn fin s h .exc = s := by unfold conn; rw [h0]; simp
      rw [hc, foldl_conn_cnt fin hr true hs _ hnd.2 (fun y hy => hh y (List.mem_cons_of_mem _ hy))]
      simp

def fp3N (outer : List Exc) (no : Option Nat) (b0 : Bool) : Nat :=
  match no with
  | some _ => 0
  | none =>
    match outer with
    | c :: _ => if b0 = true then 0 else c.handlers.length
    | [] => 0

theorem fp3_cnt {r : Nat → Bool} (fin : Nat) (hr : r fin = true) (outer : List Exc) (no : Option Nat) (s : St) (b0 : Bool)
    (hno : ∀ o, no = some o → s.hasSucc fin o = true) (hex : no = none → outer = [] → s.hasSucc fin exitB = true)
    (hh : no = none → ∀ c rest, outer = c :: rest → c.handlers.Nodup ∧ ∀ h ∈ c.handlers, s.hasSucc fin h = b0) :
    cnt r (fp3 fin outer no s).edges = cnt r s.edges + fp3N outer no b0 := by
  unfold fp3 fp3N
  cases no with
  | some o =>
    simp only
    have : conn fin s o .exc = s := by unfold conn; rw [hno o rfl]; simp
    rw [this]; rfl
  | none =>
    simp only
    cases outer with
    | nil =>
      simp only
      have : conn fin s exitB .exc = s := by unfold conn; rw [hex rfl rfl]; simp
      rw [this]; rfl
    | cons c rest =>
      simp only
      obtain ⟨h1, h2⟩ := hh rfl c rest rfl
      exact foldl_conn_cnt fin hr b0 c.handlers s h1 h2

theorem foldl_conn_lti {G : Nat → Prop} {s0 : St} (fin : Nat) (t : ETy) : ∀ (hs : List Nat) (s : St), LTI E G s0 s → (∀ h ∈ hs, G h) →
    LTI E G s0 (hs.foldl (fun st h => conn fin st h t) s)
  | [], _, h, _ => h
  | x :: hs, s, h, hg => by
    simp only [List.foldl_cons]
    exact foldl_conn_lti fin t hs _ (h.conn (hg x List.mem_cons_self)) (fun y hy => hg y (List.mem_cons_of_mem _ hy))

theorem foldl_conn_calm {m : Nat} (fin : Nat) (t : ETy) (hf : fin ≠ m) : ∀ (hs : List Nat) (s : St), Calm s m →
    Calm (hs.foldl (fun st h => conn fin st h t) s) m
  | [], _, h => h
  | x :: hs, s, h => by
    simp only [List.foldl_cons]
    exact foldl_conn_calm fin t hf hs _ (h.conn hf)

/-- all propagation edges: targets -/
theorem fp_lti {G : Nat → Prop} {s0 sD : St} (fin : Nat) (h : LTI E G s0 sD) (hex : G exitB)
    (hF : ∀ c ∈ sD.excs.drop 1, ∀ f, c.fin = some f → G f)
    (hL : ∀ hdr x d rest, sD.loops = (hdr, x, d) :: rest → G x ∧ G hdr)
    (hH : ∀ c rest, sD.excs.drop 1 = c :: rest → ∀ y ∈ c.handlers, G y) :
    LTI E G s0 (finallyPropagation sD fin) := by
  rw [finallyPropagation_eq]
  have hno : ∀ Y : List Exc, (∀ c ∈ Y, c ∈ sD.excs.drop 1) → G ((Y.findSome? (fun c => c.fin)).getD exitB) ∧
      ∀ z, G z → G ((Y.findSome? (fun c => c.fin)).getD z) := by
    intro Y hY
    cases hq : Y.findSome? (fun c => c.fin) with
    | none => exact ⟨hex, fun z hz => hz⟩
    | some o =>
      obtain ⟨c, hc, hfc⟩ := List.exists_of_findSome?_eq_some hq
      exact ⟨hF c (hY c hc) o hfc, fun z _ => hF c (hY c hc) o hfc⟩
  have l1 : LTI E G s0 (fp1 fin ((sD.excs.drop 1).findSome? (fun c => c.fin)) sD) := by
    rw [fp1_eq]; exact h.conn (hno _ (fun c hc => hc)).1
  have hl1 : (fp1 fin ((sD.excs.drop 1).findSome? (fun c => c.fin)) sD).loops = sD.loops := fp1_loops ..
  have l2 : LTI E G s0 (fp2 fin (sD.excs.drop 1) (fp1 fin ((sD.excs.drop 1).findSome? (fun c => c.fin)) sD)) := by
    cases hq : sD.loops with
    | nil => rw [fp2_eq_nil _ _ _ (hl1.trans hq)]; exact l1
    | cons l rest =>
      obtain ⟨hdr, x, d⟩ := l
      rw [fp2_eq_cons _ _ _ (hl1.trans hq)]
      have hg := hL hdr x d rest hq
      exact (l1.conn ((hno _ (fun c hc => List.mem_of_mem_take hc)).2 x hg.1)).conn ((hno _ (fun c hc => List.mem_of_mem_take hc)).2 hdr hg.2)
  unfold fp3
  split
  · next o ho =>
    obtain ⟨c, hc, hfc⟩ := List.exists_of_findSome?_eq_some ho
    exact l2.conn (hF c hc o hfc)
  · split
    · next c rest hcr => exact foldl_conn_lti fin .exc _ _ l2 (hH c rest hcr)
    · exact l2.conn hex

theorem fp_calm {sD : St} {m : Nat} (fin : Nat) (hf : fin ≠ m) (h : Calm sD m) : Calm (finallyPropagation sD fin) m := by
  rw [finallyPropagation_eq]
  have l1 : Calm (fp1 fin ((sD.excs.drop 1).findSome? (fun c => c.fin)) sD) m := by rw [fp1_eq]; exact h.conn hf
  have l2 : Calm (fp2 fin (sD.excs.drop 1) (fp1 fin ((sD.excs.drop 1).findSome? (fun c => c.fin)) sD)) m := by
    unfold fp2
    split
    · exact l1
    · simp only
      split <;> exact (l1.conn hf).conn hf
  unfold fp3
  split
  · exact l2.conn hf
  · split
    · exact foldl_conn_calm fin .exc hf _ _ l2
    · exact l2.conn hf

/-- the `finally` body and the propagation edges -/
theorem tryFin_cntF (ih : ∀ ss, sizeL ss ≤ N → QFL E ss) (fin : List Stmt) (hfz : sizeL fin ≤ N) (fc : FC) (il : Bool) (st : St) (w : WF st)
    (hc : CtxF fc il st) (s8 : St) (w8 : WF s8) (finB : Nat) (hbs : List Nat)
    (hl8 : s8.loops = st.loops) (hx8 : s8.excs = { fin := some finB, handlers := hbs, processingFinally := false } :: st.excs)
    (hfB : st.next + 2 ≤ finB ∧ finB < s8.next) (hfresh : ∀ y ∈ hbs, st.next + 2 ≤ y) (hnd : hbs.Nodup)
    (hokf : okFL il fin = true) (hfinR : R E finB) (hcalmF : Calm s8 finB) (hcalmE : Calm s8 (st.next + 1))
    (hf : Fut E st.next (tryFin s8 true finB (st.next + 1) { fin := some finB, handlers := hbs, processingFinally := false } st.excs fin).next
      (tryFin s8 true finB (st.next + 1) { fin := some finB, handlers := hbs, processingFinally := false } st.excs fin)) :
    cnt (rE E) (tryFin s8 true finB (st.next + 1) { fin := some finB, handlers := hbs, processingFinally := false } st.excs fin).edges =
      cnt (rE E) s8.edges + (ldLX fc.finBody fin + (if hrL fin = .raise then 0 else fc.pe)) ∧
    ((sxL fin).ex.normal = true → R E (st.next + 1)) ∧
    Jmp E st.loops st.excs { normal := (sxL fin).ex.normal, ret := true, brk := true, cont := true, raise := true } ∧
    LTI E (fun t => TgF st.next st.loops st.excs true t ∧ ((sxL fin).ex.normal = false → t ≠ st.next + 1)) s8
      (tryFin s8 true finB (st.next + 1) { fin := some finB, handlers := hbs, processingFinally := false } st.excs fin) ∧
    Calm (tryFin s8 true finB (st.next + 1) { fin := some finB, handlers := hbs, processingFinally := false } st.excs fin) (st.next + 1) ∧
    s8.next ≤ (tryFin s8 true finB (st.next + 1) { fin := some finB, handlers := hbs, processingFinally := false } st.excs fin).next := by
  unfold tryFin at hf ⊢
  simp only [↓reduceIte] at hf ⊢
  have h2 := w.two
  have hb := w8.excs
  rw [hx8] at hb
  have i0 : Inv s8.cur 0 s8 s8 := Inv.refl w8 (.inl rfl)
  have i1 := (i0.setCur (x := finB) (.inr (Nat.zero_le _)) hfB.2).setExcs
    (x := { fin := some finB, handlers := hbs, processingFinally := true } :: st.excs) (by
    intro cx hcx
    rcases List.mem_cons.mp hcx with rfl | hcx
    · exact hb { fin := some finB, handlers := hbs, processingFinally := false } (List.mem_cons_self ..)
    · exact hb cx (List.mem_cons_of_mem _ hcx))
  have hcA : CtxF fc.finBody il (setExcs (setCur s8 finB) ({ fin := some finB, handlers := hbs, processingFinally := true } :: st.excs)) :=
    hc.pushFinBody w (f := finB) (hbs := hbs) hl8 rfl (fun y hy => by have := hfresh y hy; omega) hnd
  have heA : EntryC E (setExcs (setCur s8 finB) ({ fin := some finB, handlers := hbs, processingFinally := true } :: st.excs)) :=
    ⟨hfinR, Calm.congr (s := s8) rfl rfl hcalmF⟩
  obtain ⟨j, sm⟩ := procList_frame fin _ i1.wf finB s8.next (.inl rfl) (Nat.le_refl _)
  obtain ⟨j0, _⟩ := procList_frame fin _ i1.wf s8.cur 0 (.inr (Nat.zero_le _)) (Nat.zero_le _)
  have hjn := j.next_le
  have hjo := j.own
  have hjc := j.wf.cur
  have hsl := sm.loops
  have hpost := fun f => ih fin hfz fc.finBody il _ i1.wf hcA hokf f heA
  -- the entry-block analysis of the `finally` body
  have hhead := fun (c : Exc) (X : List Exc) (hx : st.excs = c :: X) (hnf : ∀ c' ∈ c :: X, c'.fin = none ∧ c'.processingFinally = false) =>
    head_raise fin il (setExcs (setCur s8 finB) ({ fin := some finB, handlers := hbs, processingFinally := true } :: st.excs)) i1.wf hokf
      (fun h => by show s8.loops ≠ []; rw [hl8]; exact hc.loops h) { fin := some finB, handlers := hbs, processingFinally := true } c X
      (by show _ :: st.excs = _; rw [hx]) rfl rfl hnf hcalmF.1 (hc.hex c (by rw [hx]; exact List.mem_cons_self ..))
      (fun l hl => hc.disj l (by rw [← hl8]; exact hl) c (by rw [hx]; exact List.mem_cons_self ..))
  have hcalmEB : Calm (procList (setExcs (setCur s8 finB) ({ fin := some finB, handlers := hbs, processingFinally := true } :: st.excs)) fin)
      (st.next + 1) := j.calm (by omega) (by omega) (Calm.congr (s := s8) rfl rfl hcalmE)
  generalize procList _ fin = sB at *
  simp only [setExcs_cur] at hf ⊢
  -- the state before the propagation edges
  have k3a := (i0.setCur (x := finB) (.inr (Nat.zero_le _)) hfB.2).setExcs
    (x := { fin := some finB, handlers := hbs, processingFinally := true } :: st.excs) (by
    intro cx hcx
    rcases List.mem_cons.mp hcx with rfl | hcx
    · exact hb { fin := some finB, handlers := hbs, processingFinally := false } (List.mem_cons_self ..)
    · exact hb cx (List.mem_cons_of_mem _ hcx))
  have kC := (k3a.trans j0).setExcs (x := { fin := some finB, handlers := hbs, processingFinally := false } :: st.excs) (by
    intro cx hcx
    have := hb cx hcx
    exact ⟨fun f hf' => by have := this.1 f hf'; ob, fun h hh => by have := this.2 h hh; ob⟩)
  have kD := kC.edgeUnlessExit (a := sB.cur) (b := st.next + 1) (t := .normal) (.inr (Nat.zero_le _)) (by ob) (by ob)
  obtain ⟨k9, sm9, hn9, hc9⟩ := finallyPropagation_frame kD (fin := finB) (.inr (Nat.zero_le _)) (by ob)
  have hlD : ((setExcs sB ({ fin := some finB, handlers := hbs, processingFinally := false } :: st.excs)).edgeUnlessExit
      sB.cur (st.next + 1) .normal).loops = st.loops := by
    simp only [edgeUnlessExit_loops, setExcs_loops, hsl, setCur_loops]; exact hl8
  have hxD : ((setExcs sB ({ fin := some finB, handlers := hbs, processingFinally := false } :: st.excs)).edgeUnlessExit
      sB.cur (st.next + 1) .normal).excs =
      { fin := some finB, handlers := hbs, processingFinally := false } :: st.excs := by
    simp only [edgeUnlessExit_excs, setExcs_excs]
  have hdrop : (((setExcs sB ({ fin := some finB, handlers := hbs, processingFinally := false } :: st.excs)).edgeUnlessExit
      sB.cur (st.next + 1) .normal).excs).drop 1 = st.excs := by
    rw [hxD]; rfl
  have hmem9 := fun e h => hf.mem (e := e) h
  -- the `finally` body
  have gD : TG (fun x => x < s8.next ∨ sB.next ≤ x) ((setExcs sB ({ fin := some finB, handlers := hbs, processingFinally := false } :: st.excs)).edgeUnlessExit
      sB.cur (st.next + 1) .normal) :=
    TG.zone ((w8.ctxLt (Nat.le_refl _)).of_eq (hlD.trans hl8.symm) (hxD.trans hx8.symm)) (by have := w8.two; omega) (by ob)
  have fB : Fut E s8.next sB.next sB :=
    (((hf.mono (lo' := s8.next) (hi' := sB.next) (by omega) (by rw [hn9]; ob)).back_TI
      (finallyPropagation_target _ finB _ gD)).back_eue (.inl (by omega))).back_setExcs
  have pf := hpost fB
  clear hpost
  have hsubD : ∀ e ∈ ((setExcs sB ({ fin := some finB, handlers := hbs, processingFinally := false } :: st.excs)).edgeUnlessExit
      sB.cur (st.next + 1) .normal).edges, e ∈ E := by
    intro e he
    obtain ⟨a1, _⟩ := finallyPropagation_frame (c := finB) (n := 0) (Inv.refl kD.wf (.inr (Nat.zero_le _))) (fin := finB) (.inl rfl) (by ob)
    exact hmem9 e (a1.sub.1 e he)
  -- facts about the state before the propagation edges
  have hP : ∀ t, t < st.next → TgF st.next st.loops st.excs true t → TgF st.next st.loops st.excs true t ∧ ((sxL fin).ex.normal = false → t ≠ st.next + 1) :=
    fun t ht h => ⟨h, fun _ => by omega⟩
  have cD : cnt (rE E) ((setExcs sB ({ fin := some finB, handlers := hbs, processingFinally := false } :: st.excs)).edgeUnlessExit
      sB.cur (st.next + 1) .normal).edges = cnt (rE E) s8.edges + ldLX fc.finBody fin := by
    rw [cnt_eue_plain _ _ _ _ rfl (by intro h; cases h)]
    exact pf.cnt
  have lD : LTI E (fun t => TgF st.next st.loops st.excs true t ∧ ((sxL fin).ex.normal = false → t ≠ st.next + 1)) s8
      ((setExcs sB ({ fin := some finB, handlers := hbs, processingFinally := false } :: st.excs)).edgeUnlessExit sB.cur (st.next + 1) .normal) := by
    have t1 : LTI E (fun t => TgF st.next st.loops st.excs true t ∧ ((sxL fin).ex.normal = false → t ≠ st.next + 1)) s8 sB :=
      (pf.tgt.mono (fun t h => by
        have h' : TgF s8.next st.loops ({ fin := some finB, handlers := hbs, processingFinally := true } :: st.excs) (sxL fin).ex.brk t := by
          rw [← hl8]; exact h
        have := tg_outer w (b := true) h' (by omega) (fun _ => rfl) (fun y hy => hfresh y hy)
          (fun f hf' => by simp only [Option.some.injEq] at hf'; omega)
        exact ⟨this.1, fun _ => this.2⟩)).tryStartEq rfl
    have t2 : LTI E (fun t => TgF st.next st.loops st.excs true t ∧ ((sxL fin).ex.normal = false → t ≠ st.next + 1)) s8
        (setExcs sB ({ fin := some finB, handlers := hbs, processingFinally := false } :: st.excs)) := t1.of_edges_eq rfl
    exact t2.eue (fun hr => ⟨.inl (by omega), fun hn => absurd hr (pf.dead hn)⟩)
  have calmD : Calm ((setExcs sB ({ fin := some finB, handlers := hbs, processingFinally := false } :: st.excs)).edgeUnlessExit
      sB.cur (st.next + 1) .normal) (st.next + 1) :=
    Calm.eue (by ob) (Calm.congr (s := sB) rfl rfl hcalmEB)
  have hnD : (sxL fin).ex.normal = true → R E (st.next + 1) := by
    intro hn
    have heB := pf.normal hn
    have hm : (sB.cur, st.next + 1, ETy.normal) ∈ ((setExcs sB ({ fin := some finB, handlers := hbs, processingFinally := false } :: st.excs)).edgeUnlessExit
        sB.cur (st.next + 1) .normal).edges := by
      have hcs : Calm (setExcs sB ({ fin := some finB, handlers := hbs, processingFinally := false } :: st.excs)) sB.cur :=
        Calm.congr (s := sB) rfl rfl heB.calm
      rw [hcs.eue_eq]; exact List.mem_cons_self ..
    exact R.step heB.reach (hsubD _ hm)
  have hsD : ∀ a b, b ≠ st.next + 1 → ((setExcs sB ({ fin := some finB, handlers := hbs, processingFinally := false } :: st.excs)).edgeUnlessExit
      sB.cur (st.next + 1) .normal).hasSucc a b = sB.hasSucc a b := by
    intro a b hb'
    rw [hasSucc_eue_ne _ _ _ _ _ _ (fun h => hb' h.symm)]; rfl
  have hnextD : ((setExcs sB ({ fin := some finB, handlers := hbs, processingFinally := false } :: st.excs)).edgeUnlessExit
      sB.cur (st.next + 1) .normal).next = sB.next := by simp
  have hjn' : s8.next ≤ sB.next := hjn
  generalize (setExcs sB ({ fin := some finB, handlers := hbs, processingFinally := false } :: st.excs)).edgeUnlessExit
      sB.cur (st.next + 1) .normal = sD at *
  -- targets of the propagation edges
  have hPexit : TgF st.next st.loops st.excs true exitB ∧ ((sxL fin).ex.normal = false → exitB ≠ st.next + 1) :=
    hP exitB (by unfold exitB; omega) (.inr (.inl rfl))
  have hPfin : ∀ c ∈ st.excs, ∀ f, c.fin = some f → TgF st.next st.loops st.excs true f ∧ ((sxL fin).ex.normal = false → f ≠ st.next + 1) :=
    fun c hcm f hf' => hP f ((w.excs c hcm).1 f hf') (.inr (.inr (.inr ⟨c, hcm, .inr hf'⟩)))
  have l9 : LTI E (fun t => TgF st.next st.loops st.excs true t ∧ ((sxL fin).ex.normal = false → t ≠ st.next + 1)) s8
      (finallyPropagation sD finB) := by
    refine fp_lti finB lD hPexit (by rw [hdrop]; exact hPfin) ?_ ?_
    · intro hdr x d rest hl
      have hl' : st.loops = (hdr, x, d) :: rest := hlD.symm.trans hl
      have := w.loops (hdr, x, d) (by rw [hl']; exact List.mem_cons_self ..)
      exact ⟨hP x this.2 (.inr (.inr (.inl ⟨hdr, x, d, rest, hl', .inr ⟨rfl, rfl⟩⟩))),
        hP hdr this.1 (.inr (.inr (.inl ⟨hdr, x, d, rest, hl', .inl rfl⟩)))⟩
    · intro c rest hcr y hy
      rw [hdrop] at hcr
      have hcm : c ∈ st.excs := by rw [hcr]; exact List.mem_cons_self ..
      exact hP y ((w.excs c hcm).2 y hy) (.inr (.inr (.inr ⟨c, hcm, .inl hy⟩)))
  have calm9 : Calm (finallyPropagation sD finB) (st.next + 1) := fp_calm finB (by omega) calmD
  have hcov9 : Cov E (finallyPropagation sD finB).stmts (finallyPropagation sD finB) := ⟨hmem9, fun r h => h⟩
  refine ⟨?_, hnD, ?_, l9, calm9, by rw [hn9, hnextD]; exact hjn'⟩
  · -- the count
    rw [finallyPropagation_eq, hdrop]
    have hl1 : (fp1 finB (st.excs.findSome? (fun c => c.fin)) sD).loops = st.loops := (fp1_loops ..).trans hlD
    have c1 : cnt (rE E) (fp1 finB (st.excs.findSome? (fun c => c.fin)) sD).edges = cnt (rE E) sD.edges := by
      rw [fp1_eq]; exact cnt_conn_plain _ _ _ _ rfl (by intro h; cases h)
    have hs1 : (fp1 finB (st.excs.findSome? (fun c => c.fin)) sD).hasSucc finB ((st.excs.findSome? (fun c => c.fin)).getD exitB) = true := by
      rw [fp1_eq]; exact hasSucc_conn_self ..
    have hs1' : ∀ b, (st.excs.findSome? (fun c => c.fin)).getD exitB ≠ b →
        (fp1 finB (st.excs.findSome? (fun c => c.fin)) sD).hasSucc finB b = sD.hasSucc finB b := by
      intro b hb'; rw [fp1_eq]; exact hasSucc_conn_ne _ _ _ _ _ _ hb'
    generalize fp1 finB (st.excs.findSome? (fun c => c.fin)) sD = s1 at *
    have c2 : cnt (rE E) (fp2 finB st.excs s1).edges = cnt (rE E) s1.edges ∧
        (∀ b, s1.hasSucc finB b = true → (fp2 finB st.excs s1).hasSucc finB b = true) ∧
        (st.excs.findSome? (fun c => c.fin) = none → ∀ b, (∀ l ∈ st.loops, l.1 ≠ b ∧ l.2.1 ≠ b) →
          (fp2 finB st.excs s1).hasSucc finB b = s1.hasSucc finB b) := by
      cases hq : s1.loops with
      | nil =>
        rw [fp2_eq_nil _ _ _ hq]
        exact ⟨rfl, fun b h => h, fun _ b _ => rfl⟩
      | cons l rest =>
        obtain ⟨hdr, x, d⟩ := l
        rw [fp2_eq_cons _ _ _ hq]
        refine ⟨?_, fun b h => hasSucc_conn_mono _ _ _ _ _ _ (hasSucc_conn_mono _ _ _ _ _ _ h), ?_⟩
        · rw [cnt_conn_plain _ _ _ _ rfl (by intro h; cases h), cnt_conn_plain _ _ _ _ rfl (by intro h; cases h)]
        · intro hnone b hb'
          have hnl : (st.excs.take (s1.excs.length - 1 - d)).findSome? (fun c => c.fin) = none := by
            rw [List.findSome?_eq_none_iff] at hnone ⊢
            intro c hcm
            exact hnone c (List.mem_of_mem_take hcm)
          rw [hnl]
          have := hb' (hdr, x, d) (by rw [← hl1, hq]; exact List.mem_cons_self ..)
          simp only [Option.getD_none]
          rw [hasSucc_conn_ne _ _ _ _ _ _ this.1, hasSucc_conn_ne _ _ _ _ _ _ this.2]
    obtain ⟨c2a, c2b, c2c⟩ := c2
    have c3 := fp3_cnt (r := rE E) finB (rE_true.mpr hfinR) st.excs (st.excs.findSome? (fun c => c.fin)) (fp2 finB st.excs s1)
      (decide (hrL fin = .raise))
      (fun o ho => c2b o (by rw [ho] at hs1; exact hs1))
      (fun hno _ => c2b exitB (by rw [hno] at hs1; exact hs1))
      (fun hno c rest hx => by
        have hcm : c ∈ st.excs := by rw [hx]; exact List.mem_cons_self ..
        have hnone := hno
        rw [List.findSome?_eq_none_iff] at hnone
        have hnf : ∀ c' ∈ c :: rest, c'.fin = none ∧ c'.processingFinally = false := by
          intro c' hc'
          have hm' : c' ∈ st.excs := by rw [hx]; exact hc'
          refine ⟨hnone c' hm', ?_⟩
          cases hp : c'.processingFinally
          · rfl
          · have := hc.pfin c' hm' hp
            rw [hnone c' hm'] at this; cases this
        refine ⟨hc.hnd c hcm, fun h hh' => ?_⟩
        have hlt := (w.excs c hcm).2 h hh'
        rw [c2c hno h (fun l hl => by
            have := hc.disj l hl c hcm
            exact ⟨fun e => this.1 (e ▸ hh'), fun e => this.2 (e ▸ hh')⟩),
          hs1' h (by rw [hno]; exact fun e => hc.hex c hcm (by rw [show exitB = h from e]; exact hh')),
          hsD finB h (by omega)]
        exact hhead c rest hx hnf h hh')
    rw [c3, c2a, c1, cD]
    have hpe : fp3N st.excs (st.excs.findSome? (fun c => c.fin)) (decide (hrL fin = .raise)) = (if hrL fin = .raise then 0 else fc.pe) := by
      rw [← hc.pe]
      unfold peX anyFin fp3N
      cases st.excs.findSome? (fun c => c.fin) with
      | some o => simp
      | none =>
        simp only
        cases st.excs with
        | nil => simp
        | cons c rest => simp only [decide_eq_true_eq]
    rw [hpe]; omega
  · -- the jumps
    rw [finallyPropagation_eq, hdrop] at hcov9
    obtain ⟨_, hcov2⟩ := fp3_cov hcov9
    obtain ⟨e2, hcov1⟩ := fp2_cov hcov2
    obtain ⟨e1, _⟩ := fp1_cov hcov1
    have hl1 : (fp1 finB (st.excs.findSome? (fun c => c.fin)) sD).loops = st.loops := (fp1_loops ..).trans hlD
    have hx1 : (fp1 finB (st.excs.findSome? (fun c => c.fin)) sD).excs.length - 1 = st.excs.length := by
      rw [fp1_excs, hxD]; simp
    refine ⟨fun _ h x d rest hl o ho => ?_, fun _ h x d rest hl o ho => ?_, fun _ o ho => ?_, fun _ f ho => ?_⟩
    · obtain ⟨⟨t, ht⟩, _⟩ := e2 h x d rest (hl1.trans hl)
      rw [hx1] at ht
      have := pendO_any ho
      unfold anyFin at this
      rw [this] at ht
      exact R.step hfinR ht
    · obtain ⟨_, ⟨t, ht⟩⟩ := e2 h x d rest (hl1.trans hl)
      rw [hx1] at ht
      have := pendO_any ho
      unfold anyFin at this
      rw [this] at ht
      exact R.step hfinR ht
    · obtain ⟨t, ht⟩ := e1
      have := pendO_any ho
      unfold anyFin at this
      rw [this] at ht
      exact R.step hfinR ht
    · obtain ⟨t, ht⟩ := e1
      have := pendO_any ho
      unfold anyFin at this
      rw [this] at ht
      exact R.step hfinR ht

/-! ### `try` with `finally` -/
theorem try_cntFin (ih : ∀ ss, sizeL ss ≤ N → QFL E ss) (body handlers orelse fin : List Stmt)
    (hb : sizeL body ≤ N) (hh : sizeL handlers ≤ N) (ho : sizeL orelse ≤ N) (hfz : sizeL fin ≤ N) (hne : fin.isEmpty = false) (s e : Nat) :
    QFS E (.try_ s e body handlers orelse fin) := by
  intro fc il st w hc hok hf he
  rw [okFS_try] at hok
  simp only [Bool.and_eq_true] at hok
  obtain ⟨⟨⟨hokb, hokh⟩, hoke⟩, hokf⟩ := hok
  rw [procStmt_try, procTry_eq'] at hf ⊢
  rw [sxS_try, ldSX_try]
  simp only [hne, Bool.not_false, Bool.false_eq_true, ↓reduceIte] at hf ⊢
  obtain ⟨hasElse, hE⟩ : ∃ b, b = !orelse.isEmpty := ⟨_, rfl⟩
  rw [← hE] at hf ⊢
  obtain ⟨q1, q2, q3, q4, q5, q6, q7, q8, q9⟩ := tryPre_facts st true hasElse
  obtain ⟨k3, _⟩ := tryPre_frame (c := st.cur) (n := 0) st w (Or.inl rfl) (Nat.zero_le _) true hasElse
  generalize tryPre st true hasElse = p at *
  obtain ⟨s3, finB, elseB⟩ := p
  simp only [] at hf q1 q2 q3 q4 q5 q6 q8 k3 ⊢
  generalize hnat : (if hasElse = true then elseB else finB) = nat at hf ⊢
  have hcur := w.cur
  have h2 := w.two
  have w3 := k3.wf
  have q6' : st.next + 2 ≤ s3.next := q6
  have q7' : st.next + 2 ≤ finB ∧ finB < s3.next := q7 rfl
  obtain ⟨q7a, q7b⟩ := q7'
  have q9' : hasElse = true → finB ≠ elseB := q9 rfl
  have hnatl : nat < s3.next := by
    rw [← hnat]; cases hasElse
    · simp only [Bool.false_eq_true, ↓reduceIte]; exact q7b
    · simp only [↓reduceIte]; exact (q8 rfl).2
  have hmemh : ∀ h ∈ (List.range handlers.length).map (fun k => s3.next + k), s3.next ≤ h ∧ h < s3.next + handlers.length := by
    intro h hh
    obtain ⟨k, hk, rfl⟩ := List.mem_map.mp hh
    have := List.mem_range.mp hk
    omega
  have hx0 := w.excs_le (m := s3.next) (by omega)
  obtain ⟨k7, l7, x7, hn7⟩ := tryMid_frame (c := s3.cur) (n := 0) (frame_all N).1 (frame_all N).2 body handlers hb hh
    (Inv.refl w3 (Or.inl rfl)) (Nat.zero_le _) st.next (Or.inr (Nat.zero_le _)) (by omega) (some finB)
    (fun f hf' => by simp only [Option.some.injEq] at hf'; omega) st.excs hx0 nat finB hnatl q7b
  obtain ⟨k8, sm8, hn8⟩ := tryElse_frame (c := s3.cur) (n := 0) (frame_all N).2 orelse ho (Inv.refl k7.wf (Or.inr (Nat.zero_le _))) (Nat.zero_le _)
    hasElse elseB finB (fun h => ⟨Nat.zero_le _, by have := (q8 h).2; omega⟩) (by omega)
  have w8 := k8.wf
  have hx8 := sm8.excs.trans x7
  have hl8 := sm8.loops.trans (l7.trans q3)
  obtain ⟨k9, sm9, hn9⟩ := tryFin_frame (c := s3.cur) (n := 0) (frame_all N).2 fin hfz (Inv.refl k8.wf (.inr (Nat.zero_le _))) (Nat.zero_le _)
    true finB (st.next + 1) _ st.excs hx8 (fun _ => ⟨Nat.zero_le _, by omega⟩) (by omega)
  have hF8 : ∀ lo hi, st.next + 2 ≤ lo → (true = true → finB < lo ∨ hi ≤ finB) → (hi ≤ s3.next ∨ s3.next + handlers.length ≤ lo) →
      hi ≤ (tryME s3 st.next (some finB) st.excs nat finB body handlers hasElse elseB orelse).next →
      Fut E lo hi (tryME s3 st.next (some finB) st.excs nat finB body handlers hasElse elseB orelse) := by
    intro lo hi h1 h2' h3 h4
    have h4' : hi ≤ (tryElse (tryMid s3 st.next (some finB) st.excs nat finB body handlers) hasElse elseB finB orelse).next := h4
    have hme : (tryME s3 st.next (some finB) st.excs nat finB body handlers hasElse elseB orelse).next =
        (tryElse (tryMid s3 st.next (some finB) st.excs nat finB body handlers) hasElse elseB finB orelse).next := rfl
    have f9 := (hf.mono (lo' := lo) (hi' := hi) (by omega) (by simp only [setExcs_next, setCur_next]; omega)).back_setExcs.back_setCur
    refine tryFin_back fin _ w8 finB (st.next + 1) _ st.excs hx8 (by omega) ?_ (.inl (by omega)) f9
    refine ⟨fun x hx => .inr (by omega), .inl (by unfold exitB; omega), ?_, ?_⟩
    · intro l hl
      rw [hl8] at hl
      have := w.loops l hl
      exact ⟨.inl (by omega), .inl (by omega)⟩
    · intro c hc'
      rw [hx8] at hc'
      rcases List.mem_cons.mp hc' with rfl | hc'
      · refine ⟨fun f hf' => ?_, fun h hh' => ?_⟩
        · simp only [Option.some.injEq] at hf'
          rw [← hf']; exact h2' rfl
        · have := hmemh h hh'
          rcases h3 with h3 | h3
          · exact .inr (by omega)
          · exact .inl (by omega)
      · exact ⟨fun f hf' => .inl (by have := (w.excs c hc').1 f hf'; omega), fun h hh' => .inl (by have := (w.excs c hc').2 h hh'; omega)⟩
  obtain ⟨r1, r2, r3, r4, r5, r6, r7, r8, r9⟩ := tryME_cntF ih body handlers orelse hb hh ho fc il st w hc he hokb hokh hoke true hasElse hE
    s3 finB elseB q1 q2 q3 q4 q5 q6 q7 q8 q9 k3 (some finB) rfl nat (by subst hnat; rfl) finB rfl FC.inFin rfl hF8
  -- the `finally` block is reachable: the body (or the `else` part) has some exit, and every exit leads there
  have hfinR : R E finB := by
    have hex := exit_reach (il := il) r3 rfl rfl hc.ld hc.loops
    rcases sx_exit body il hokb with h | h | h | ⟨hil, h⟩
    · cases hoe : orelse.isEmpty
      · have hel : elx body orelse = sxL orelse := by unfold elx; rw [if_pos h]
        rcases sx_exit orelse il hoke with h' | h' | h' | ⟨hil, h'⟩
        · exact r2 (by unfold pnx; rw [hoe, hel, h']; rfl)
        · exact hex (.inl (by rw [hel]; simp [Ex.union, h']))
        · exact hex (.inr (.inl (by rw [hel]; simp [Ex.union, h'])))
        · refine hex (.inr (.inr ⟨hil, ?_⟩))
          rcases h' with h' | h'
          · exact .inl (by rw [hel]; simp [Ex.union, h'])
          · exact .inr (by rw [hel]; simp [Ex.union, h'])
      · exact r2 (by unfold pnx; rw [hoe, h]; rfl)
    · exact hex (.inl (by simp [Ex.union, h]))
    · exact hex (.inr (.inl (by simp [Ex.union, h])))
    · refine hex (.inr (.inr ⟨hil, ?_⟩))
      rcases h with h | h
      · exact .inl (by simp [Ex.union, h])
      · exact .inr (by simp [Ex.union, h])
  have r9' : s3.next + handlers.length ≤ (tryElse (tryMid s3 st.next (some finB) st.excs nat finB body handlers) hasElse elseB finB orelse).next := r9
  obtain ⟨f1, f2, f3, f4, f5, f6⟩ := tryFin_cntF ih fin hfz fc il st w hc _ w8 finB _ hl8 hx8 ⟨q7a, by omega⟩
    (fun y hy => by have := hmemh y hy; omega) (nodup_map_add s3.next handlers.length) hokf hfinR
    (r5 finB (by omega) q7b (fun h => q9' h)) (r5 (st.next + 1) (Nat.le_refl _) (by omega) (fun h => by have := q8 h; omega))
    hf.back_setExcs.back_setCur
  refine try_finishF w _ _ (by omega) hf (by rw [f1, r1]; omega) f2 f5 f3 ?_
  refine (r4.mono (fun t h => ⟨h.1.mono (Nat.le_refl _) (fun _ => rfl), fun _ ht => ?_⟩)).trans f4
  have := (h.2 ht).1
  cases this

/-- `try` / `except` / `else` / `finally` -/
theorem try_cntF (ih : ∀ ss, sizeL ss ≤ N → QFL E ss) (body handlers orelse fin : List Stmt)
    (hb : sizeL body ≤ N) (hh : sizeL handlers ≤ N) (ho : sizeL orelse ≤ N) (hfz : sizeL fin ≤ N) (s e : Nat) :
    QFS E (.try_ s e body handlers orelse fin) := by
  cases hne : fin.isEmpty
  · exact try_cntFin ih body handlers orelse fin hb hh ho hfz hne s e
  · have : fin = [] := List.isEmpty_iff.mp hne
    subst this
    exact try_cntN ih body handlers orelse hb hh ho s e

end main
end PV.CFGFin

#print axioms PV.CFGFin.try_cntF
