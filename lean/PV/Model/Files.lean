/-!
Model of pyscn's file selection (C18), core-only: `service/file_reader.go` after the repair of F7.

* `globSeg` / `globComps` / `glob` — the subset of `doublestar.Match` the shipped and generated patterns use: literals, `?`, `*`
  (never crossing `/`), `**` as a whole component (zero or more directories). Validated against the real library on every run.
* `select` — which files of a tree (paths relative to the target directory, as component lists) are analysed.
* `collect` — what the implementation returns for a target SPELLED with some prefix: the walk yields `prefix ++ rel`, the pattern
  match sees `filepath.Rel(target, path)`.
-/
namespace PV.Files

/-- one path segment against one pattern segment -/
def globSeg : List Char → List Char → Bool
  | [], [] => true
  | [], _ :: _ => false
  | '*' :: p, [] => globSeg p []
  | '*' :: p, c :: s => globSeg p (c :: s) || globSeg ('*' :: p) s
  | '?' :: p, _ :: s => globSeg p s
  | _ :: _, [] => false
  | a :: p, c :: s => a == c && globSeg p s
termination_by p s => p.length + s.length

/-- components against components; `**` alone stands for zero or more components -/
def globComps : List String → List String → Bool
  | [], [] => true
  | [], _ :: _ => false
  | p :: ps, [] => p == "**" && globComps ps []
  | p :: ps, c :: cs =>
    if p == "**" then globComps ps (c :: cs) || globComps (p :: ps) cs
    else globSeg p.toList c.toList && globComps ps cs
termination_by ps cs => ps.length + cs.length

def glob (pattern : String) (path : List String) : Bool := globComps (pattern.splitOn "/") path

def lower (s : String) : String := s.map Char.toLower

/-- `shouldSkipDirectory` (names are compared in lower case; the last entry is a glob) -/
def skipDirs : List String :=
  ["__pycache__", ".git", ".svn", ".hg", ".bzr", "node_modules", ".tox", ".pytest_cache", ".mypy_cache", "venv", "env", ".venv", ".env", "build", "dist", "*.egg-info"]

def skipDir (name : String) : Bool := skipDirs.any fun d => globSeg d.toList (lower name).toList

def hidden (name : String) : Bool := name.startsWith "."

/-- `IsValidPythonFile`: extension `.py` / `.pyi`, case-insensitive -/
def isPy (name : String) : Bool := (lower name).endsWith ".py" || (lower name).endsWith ".pyi"

/-- every directory on the way is entered and the file itself is not hidden -/
def visible : List String → Bool
  | [] => false
  | [f] => !hidden f
  | d :: rest => !hidden d && !skipDir d && visible rest

/-- `matchesPattern`: a pattern without a slash describes a file name and applies at any depth -/
def matchesPattern (pattern : String) (rel : List String) : Bool :=
  if !pattern.contains '/' then glob pattern [rel.getLast?.getD ""] else glob pattern rel

/-- `shouldIncludeFile` -/
def included (inc exc : List String) (rel : List String) : Bool :=
  !(exc.any fun p => matchesPattern p rel) && (inc.isEmpty || inc.any fun p => matchesPattern p rel)

def selectOne (recursive : Bool) (inc exc : List String) (rel : List String) : Bool :=
  isPy (rel.getLast?.getD "") && visible rel && (recursive || rel.length == 1) && included inc exc rel

/-- the files analysed, as paths relative to the target directory -/
def select (tree : List (List String)) (recursive : Bool) (inc exc : List String) : List (List String) :=
  tree.filter (selectOne recursive inc exc)

/-- what `collectFromDirectory` returns when the target is spelled `pre` (components, e.g. `[".."," x", "proj"]` or `["."]`):
the walk yields `pre ++ rel`; the pattern match is done on the path relative to the target -/
def collect (pre : List String) (tree : List (List String)) (recursive : Bool) (inc exc : List String) : List (List String) :=
  (tree.map fun rel => pre ++ rel).filter fun path => selectOne recursive inc exc (path.drop pre.length)

/-- `addFile` of `CollectPythonFiles`: a file (identified by its absolute path) is appended unless it was selected already -/
def addFile (acc : List (List String)) (x : List String) : List (List String) := if acc.contains x then acc else acc ++ [x]

/-- several targets at once: each target is (absolute directory, its tree); the selections are concatenated in target order, every file once -/
def collectMany (targets : List (List String × List (List String))) (recursive : Bool) (inc exc : List String) : List (List String) :=
  (targets.flatMap fun t => (select t.2 recursive inc exc).map fun rel => t.1 ++ rel).foldl addFile []

end PV.Files
