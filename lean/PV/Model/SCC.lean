/-!
Specification-level executable model for C11: the circular dependencies of an import graph are
its strongly connected components with at least two modules.

The model does NOT mirror Tarjan's algorithm; it computes mutual reachability by a certified
closure (every answer it produces is proved correct, `PV/Properties/C11.lean`), and the
correspondence check compares pyscn's real detector with it on every generated graph.
Core-only (linked into the driver).
-/
namespace PV.SCC

structure G where
  n : Nat                      -- vertices are 0 … n-1
  edges : List (Nat × Nat)     -- (importer, imported)
  deriving Repr

inductive Reach (g : G) : Nat → Nat → Prop
  | refl (u : Nat) : Reach g u u
  | step {u v w : Nat} : Reach g u v → (v, w) ∈ g.edges → Reach g u w

/-- one round: add the targets of all edges leaving the set -/
def expand (g : G) (R : List Nat) : List Nat :=
  R ++ (g.edges.filter (fun e => R.contains e.1)).map (·.2)

/-- no edge leaves the set -/
def closed (g : G) (R : List Nat) : Bool :=
  g.edges.all (fun e => !R.contains e.1 || R.contains e.2)

/-- iterate `expand` until closed; `none` if the fuel runs out (never observed: fuel = n + 1) -/
def closure (g : G) : Nat → List Nat → Option (List Nat)
  | 0, R => if closed g R then some R else none
  | f + 1, R => if closed g R then some R else closure g f (expand g R)

def reachSet (g : G) (u : Nat) : Option (List Nat) := closure g (g.n + g.edges.length + 1) [u]

/-- table of reach sets for all vertices (`none` entries = closure ran out of fuel) -/
def reachTable (g : G) : List (Option (List Nat)) := (List.range g.n).map (reachSet g)

def tableOk (tbl : List (Option (List Nat))) : Bool := tbl.all Option.isSome

def reaches (tbl : List (Option (List Nat))) (u v : Nat) : Bool :=
  match tbl.getD u none with
  | some S => S.contains v
  | none => false

def mutualB (tbl : List (Option (List Nat))) (u v : Nat) : Bool := reaches tbl u v && reaches tbl v u

/-- the class of `u`: vertices mutually reachable with it, in increasing order -/
def comp (g : G) (tbl : List (Option (List Nat))) (u : Nat) : List Nat := (List.range g.n).filter (mutualB tbl u)

/-- `u` represents its class when it is the smallest member and the class has ≥ 2 members -/
def isRep (g : G) (tbl : List (Option (List Nat))) (u : Nat) : Bool :=
  (comp g tbl u).head? == some u && decide (2 ≤ (comp g tbl u).length)

def cyclesOf (g : G) (tbl : List (Option (List Nat))) : List (List Nat) :=
  ((List.range g.n).filter (isRep g tbl)).map (comp g tbl)

/-- all cycles (non-trivial SCCs), each sorted increasingly, without repetition, ordered by first member;
`none` only if a closure ran out of fuel -/
def cycles (g : G) : Option (List (List Nat)) :=
  let tbl := reachTable g
  if tableOk tbl then some (cyclesOf g tbl) else none

/-- ALL classes of mutual reachability (singletons included), each sorted, ordered by first member -/
def classesOf (g : G) (tbl : List (Option (List Nat))) : List (List Nat) :=
  ((List.range g.n).filter (fun u => (comp g tbl u).head? == some u)).map (comp g tbl)

def classes (g : G) : Option (List (List Nat)) :=
  let tbl := reachTable g
  if tableOk tbl then some (classesOf g tbl) else none

/-- severity by size and "core" flag, mirror of `assessCycleSeverity` (circular_detector.go:285-309) -/
def severity (size : Nat) (hasCore : Bool) : String :=
  if hasCore || size ≥ 10 then "critical" else if size ≥ 6 then "high" else if size ≥ 3 then "medium" else "low"

def inDegree (g : G) (v : Nat) : Nat := ((g.edges.filter (fun e => e.2 == v && e.1 != v && decide (e.1 < g.n))).eraseDups).length

/-- high fan-in (> 10) marks core infrastructure -/
def hasCore (g : G) (c : List Nat) : Bool := c.any (fun v => inDegree g v > 10)

structure Stats where
  totalCycles : Nat
  modulesInCycles : Nat
  sizes : List Nat
  severities : List String

def stats (g : G) (cs : List (List Nat)) : Stats :=
  { totalCycles := cs.length,
    modulesInCycles := (cs.map List.length).sum,
    sizes := cs.map List.length,
    severities := cs.map (fun c => severity c.length (hasCore g c)) }

end PV.SCC
