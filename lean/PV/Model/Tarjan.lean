import PV.Model.SCC
/-!
Executable mirror of pyscn's Tarjan strongly-connected-components code
(`internal/analyzer/circular_detector.go`, `findStronglyConnectedComponents` / `strongConnect`).

Correspondence with the Go code
* `State.index`       = `cdd.index`
* `State.indices`     = `cdd.indices` (association list, newest binding first; "visited" ⇔ has a binding)
* `State.stack`       = `cdd.stack` (head of the list = top of the stack)
* `inStack[w]`        = `s.stack.contains w` (the Go map is a cache of exactly this membership test)
* `State.components`  = `cdd.components` (emission order; only components with more than one vertex)
* `lowLinks[v]`       = the first component of the pair returned by `strongConnect … v` (the Go code only ever
                        reads `lowLinks[w]` right after `strongConnect(w)` returned and `lowLinks[v]` of the running call)
* `State.ok`          = fuel flag: cleared only if the explicit recursion fuel runs out
                        (`PV.Tarjan.run_ok` proves that this never happens)

Vertices are `0 … g.n-1`; the numbering is the sorted order of module names, hence iterating `List.range g.n` /
the ascending successor list mirrors `GetModuleNames()` / `sortedModuleSet(node.Dependencies)`.
Core-only (linked into the driver).
-/
namespace PV.Tarjan
open PV.SCC

structure State where
  index : Nat
  indices : List (Nat × Nat)
  stack : List Nat
  components : List (List Nat)
  ok : Bool
  deriving Repr

def State.init : State :=
  { index := 0, indices := [], stack := [], components := [], ok := true }

/-- `cdd.indices[x]` (`none` = not visited) -/
def State.idx (s : State) (x : Nat) : Option Nat := s.indices.lookup x

/-- successors of `v`, ascending, without repetition, restricted to vertices of the graph -/
def succs (g : G) (v : Nat) : List Nat := (List.range g.n).filter (fun w => g.edges.contains (v, w))

/-- insertion sort (`sort.Strings(component)`) -/
def ins (a : Nat) : List Nat → List Nat
  | [] => [a]
  | b :: l => if a ≤ b then a :: b :: l else b :: ins a l

def isort : List Nat → List Nat
  | [] => []
  | a :: l => ins a (isort l)

/-- pop the stack down to and including `v`: (popped vertices in pop order, remaining stack) -/
def popTo (v : Nat) : List Nat → List Nat × List Nat
  | [] => ([], [])
  | x :: xs =>
    if x == v then ([x], xs)
    else match popTo v xs with
      | (c, r) => (x :: c, r)

/-- `indices[v] = lowLinks[v] = index; index++; stack = append(stack, v); inStack[v] = true` -/
def push (v : Nat) (s : State) : State :=
  { s with
    index := s.index + 1, indices := (v, s.index) :: s.indices, stack := v :: s.stack }

/-- the root case: pop down to `v`, keep the component only if it has more than one vertex (sorted) -/
def emit (v : Nat) (s : State) : State :=
  match popTo v s.stack with
  | (c, rest) =>
    { s with
      stack := rest,
      components := if c.length > 1 then s.components ++ [isort c] else s.components }

/-- one iteration of the successor loop of `strongConnect`; `acc = (lowLinks[v], state)`,
`sc` = the recursive call -/
def step (sc : Nat → State → Nat × State) (acc : Nat × State) (w : Nat) : Nat × State :=
  match acc.2.idx w with
  | none =>
    match sc w acc.2 with
    | (lw, s') => (min acc.1 lw, s')
  | some iw => if acc.2.stack.contains w then (min acc.1 iw, acc.2) else acc

/-- `strongConnect(v)`; returns `(lowLinks[v], state)`. The first argument is recursion-depth fuel. -/
def strongConnect (g : G) : Nat → Nat → State → Nat × State
  | 0, _, s => (s.index, { s with ok := false })
  | f + 1, v, s =>
    match (succs g v).foldl (step (strongConnect g f)) (s.index, push v s) with
    | (low, s2) => if low == s.index then (low, emit v s2) else (low, s2)

/-- `findStronglyConnectedComponents`: `strongConnect` on every unvisited vertex in order -/
def run (g : G) : State :=
  (List.range g.n).foldl
    (fun s v => match s.idx v with
      | none => (strongConnect g g.n v s).2
      | some _ => s)
    State.init

/-- the emitted components (each sorted ascending, only those with ≥ 2 vertices), in emission order -/
def sccs (g : G) : List (List Nat) := (run g).components

/-! ## the literal mirror: all five Go fields, `lowLinks` and `inStack` kept as maps and read back as the Go code does

`PV/Proofs/TarjanCorrect.lean` (`goRun_sim`, `goSccs_eq`) proves that this version and the one above compute the same
index counter, indices, stack, components and fuel flag, that `inStack[x]` is always `x ∈ stack`, and that
`lowLinks[v]` after `strongConnect(v)` is the value returned above. -/

structure GoState where
  index : Nat
  indices : List (Nat × Nat)
  lowLinks : List (Nat × Nat)
  stack : List Nat
  inStack : List (Nat × Bool)
  components : List (List Nat)
  ok : Bool
  deriving Repr

def GoState.init : GoState :=
  { index := 0, indices := [], lowLinks := [], stack := [], inStack := [], components := [], ok := true }

def GoState.idx (s : GoState) (x : Nat) : Option Nat := s.indices.lookup x
/-- `cdd.lowLinks[x]` (a Go map read yields the zero value for an absent key) -/
def GoState.low (s : GoState) (x : Nat) : Nat := (s.lowLinks.lookup x).getD 0
/-- `cdd.inStack[x]` -/
def GoState.inStk (s : GoState) (x : Nat) : Bool := (s.inStack.lookup x).getD false
/-- `cdd.lowLinks[x] = l` -/
def GoState.setLow (s : GoState) (x l : Nat) : GoState := { s with lowLinks := (x, l) :: s.lowLinks }

/-- the pop loop: `top := stack[len-1]; stack = stack[:len-1]; inStack[top] = false; component = append(component, top)`
until `top == v`; returns (component, remaining stack, inStack) -/
def goPop (v : Nat) : List Nat → List (Nat × Bool) → List Nat × List Nat × List (Nat × Bool)
  | [], ins => ([], [], ins)
  | x :: xs, ins =>
    if x == v then ([x], xs, (x, false) :: ins)
    else match goPop v xs ((x, false) :: ins) with
      | (c, r, ins') => (x :: c, r, ins')

/-- `lowLinks[v] = minLowLink(lowLinks[v], lowLinks[w])` -/
def GoState.relax (s : GoState) (v w : Nat) : GoState := s.setLow v (min (s.low v) (s.low w))

def goStep (sc : Nat → GoState → GoState) (v : Nat) (s : GoState) (w : Nat) : GoState :=
  match s.idx w with
  | none => (sc w s).relax v w
  | some iw => if s.inStk w then s.setLow v (min (s.low v) iw) else s

/-- `if lowLinks[v] == indices[v] { pop …; if len(component) > 1 { sort; append } }` -/
def goFinish (v : Nat) (s : GoState) : GoState :=
  if s.low v == (s.idx v).getD 0 then
    match goPop v s.stack s.inStack with
    | (c, rest, ins) =>
      { s with
        stack := rest, inStack := ins,
        components := if c.length > 1 then s.components ++ [isort c] else s.components }
  else s

def goStrongConnect (g : G) : Nat → Nat → GoState → GoState
  | 0, v, s => { s with lowLinks := (v, s.index) :: s.lowLinks, ok := false }
  | f + 1, v, s =>
    goFinish v ((succs g v).foldl (goStep (goStrongConnect g f) v)
      { s with
        indices := (v, s.index) :: s.indices, lowLinks := (v, s.index) :: s.lowLinks, index := s.index + 1,
        stack := v :: s.stack, inStack := (v, true) :: s.inStack })

def goRun (g : G) : GoState :=
  (List.range g.n).foldl
    (fun s v => match s.idx v with
      | none => goStrongConnect g g.n v s
      | some _ => s)
    GoState.init

def goSccs (g : G) : List (List Nat) := (goRun g).components

end PV.Tarjan
