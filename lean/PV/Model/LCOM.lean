import PV.Model.SCC
/-!
Specification-level model for C14: LCOM4 = number of connected components of the method graph.
Vertices: the class's instance methods `0 … n-1` (in name order); edge between two different methods iff they
access a common `self` attribute or one calls the other through `self`.
Core-only (linked into the driver).
-/
namespace PV.LCOM
open PV.SCC

structure Cls where
  n : Nat
  attrs : List (List Nat)     -- per method: ids of the self attributes it accesses
  calls : List (List Nat)     -- per method: indices of the methods it calls through self
  deriving Repr

def shares (c : Cls) (i j : Nat) : Bool := (c.attrs.getD i []).any (fun a => (c.attrs.getD j []).contains a)
def callsB (c : Cls) (i j : Nat) : Bool := (c.calls.getD i []).contains j
/-- adjacency of the method graph -/
def adj (c : Cls) (i j : Nat) : Bool := i != j && (shares c i j || callsB c i j || callsB c j i)

def graph (c : Cls) : G :=
  { n := c.n, edges := (List.range c.n).flatMap (fun i => ((List.range c.n).filter (adj c i)).map (fun j => (i, j))) }

/-- groups = connected components (every instance method is in exactly one) -/
def groups (c : Cls) : Option (List (List Nat)) := classes (graph c)

/-- LCOM4; a class with at most one instance method is trivially cohesive -/
def lcom4 (c : Cls) : Option Nat := if c.n ≤ 1 then some 1 else (groups c).map List.length

end PV.LCOM
