import PV.Generated.Score
/-!
Hand-written mirror of `AnalyzeUseCase.calculateSummary` (app/analyze_usecase.go:532-622): the unified summary is
filled only from the sections that ran, then the health score is computed, with the fallback score on a
validation failure.  Pinned to the source by the regenerated fact table `PV.Generated.SummaryFacts`
(theorem `C15_summary_facts`) and compared with the real function on every run.
Core-only (linked into the driver).
-/
namespace PV.Summary
open PV PV.Generated.Score

structure CxSec (F : Type) where
  files : Int
  n : Int
  avg : F
  high : Int
structure DeadSec where
  total : Int
  crit : Int
  warn : Int
  info : Int
structure CloneSec where
  total : Int
  pairs : Int
  groups : Int
  lines : Int
structure ClsSec (F : Type) where
  classes : Int
  high : Int
  med : Int
  avg : F
structure SysSec (F : Type) where
  hasDeps : Bool
  modules : Int
  depth : Int
  hasCirc : Bool
  cycMods : Int
  hasCoupling : Bool
  msd : F
  hasArch : Bool
  compliance : F

structure Sections (F : Type) where
  cx : Option (CxSec F)
  dead : Option DeadSec
  clone : Option CloneSec
  cbo : Option (ClsSec F)
  lcom : Option (ClsSec F)
  sys : Option (SysSec F)

/-- duplication percentage from k-core group density (lines 556-575) -/
def duplication (F : Type) [Arith F] (groups lines : Int) (old : F) : F :=
  if lines > 0 ∧ groups > 0 then
    let lk : F := (Arith.ofInt lines : F) / (Arith.lit 1000 1 : F)
    let lk := if lk < (Arith.lit 1 1 : F) then (Arith.lit 1 1 : F) else lk
    let density := (Arith.ofInt groups : F) / lk
    Arith.fmin (Arith.lit 10 1 : F) (density * (Arith.lit 20 1 : F))
  else old

/-- the assignments of `calculateSummary`, section by section, onto a summary `s0` (whose *Enabled flags are already set) -/
def fill (F : Type) [Arith F] (s0 : AnalyzeSummary F) (r : Sections F) : AnalyzeSummary F :=
  let s := s0
  let s := match r.cx with
    | some c => { s with TotalFiles := c.files, AnalyzedFiles := c.files, TotalFunctions := c.n, AverageComplexity := c.avg, HighComplexityCount := c.high }
    | none => s
  let s := match r.dead with
    | some d => { s with DeadCodeCount := d.total, CriticalDeadCode := d.crit, WarningDeadCode := d.warn, InfoDeadCode := d.info }
    | none => s
  let s := match r.clone with
    | some c => { s with TotalClones := c.total, ClonePairs := c.pairs, CloneGroups := c.groups,
                         CodeDuplication := duplication F c.groups c.lines s.CodeDuplication }
    | none => s
  let s := match r.cbo with
    | some c => { s with CBOClasses := c.classes, HighCouplingClasses := c.high, MediumCouplingClasses := c.med, AverageCoupling := c.avg }
    | none => s
  let s := match r.lcom with
    | some c => { s with LCOMClasses := c.classes, HighLCOMClasses := c.high, MediumLCOMClasses := c.med, AverageLCOM := c.avg }
    | none => s
  match r.sys with
  | some y =>
    let s := if y.hasDeps then
        let s := { s with DepsTotalModules := y.modules, DepsMaxDepth := y.depth }
        let s := if y.hasCirc then { s with DepsModulesInCycles := y.cycMods } else s
        if y.hasCoupling then { s with DepsMainSequenceDeviation := y.msd } else s
      else s
    if y.hasArch then { s with ArchCompliance := y.compliance } else s
  | none => s

/-- score with fallback (lines 614-622) -/
def finalize (F : Type) [Arith F] (s : AnalyzeSummary F) : AnalyzeSummary F :=
  let (err, o) := CalculateHealthScore F s
  if err then
    let h := CalculateFallbackScore F o
    { o with HealthScore := h, Grade := GetGradeFromScore F h }
  else o

def calculateSummary (F : Type) [Arith F] (s0 : AnalyzeSummary F) (r : Sections F) : AnalyzeSummary F :=
  finalize F (fill F s0 r)

end PV.Summary
