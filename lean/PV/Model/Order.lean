/-!
Model of the emission pipelines of a report (C05), core-only: what Go leaves unspecified is a PARAMETER —
map iteration is an arbitrary permutation of the entries, `sort.Slice` keeps any order among tied keys, goroutines finish in any order.
-/
namespace PV.Order

/-- emit the items sorted by a comparison; `l` arrives in whatever order the map iteration produced -/
def emitSorted {α : Type} (le : α → α → Bool) (l : List α) : List α := l.mergeSort le

/-- emit in arrival order (no sort): what a `for k, v := range m { out = append(out, …) }` does -/
def emitRaw {α : Type} (l : List α) : List α := l

/-- every task writes its result into its own slot (`tasks[i].Result`); `events` = completions in the order the scheduler produced them -/
def assemble {R : Type} (events : List (Nat × R)) (slot : Nat) : Option R :=
  (events.find? fun e => e.1 == slot).map (·.2)

end PV.Order
