/-!
Specification-level model for C07: edit distance between ordered labelled forests, by the
textbook right-most-root recursion (delete the right-most root / insert it / match the two
right-most roots).  Costs are natural numbers (the shipped cost models only produce multiples
of 0.01; the driver works in units of 1/1000).  Forests are kept REVERSED (right-most tree first)
so that the recursion peels the head of a list.
Core-only (linked into the driver).
-/
namespace PV.TED

inductive Tree where
  | node (label : Nat) (children : List Tree)
  deriving Repr, Inhabited

structure Cost where
  del : Nat → Nat
  ins : Nat → Nat
  ren : Nat → Nat → Nat

mutual
  def Tree.size : Tree → Nat
    | .node _ cs => 1 + sizeL cs
  def sizeL : List Tree → Nat
    | [] => 0
    | t :: ts => t.size + sizeL ts
end

theorem sizeL_append (a b : List Tree) : sizeL (a ++ b) = sizeL a + sizeL b := by
  induction a with
  | nil => simp [sizeL]
  | cons t ts ih => simp [sizeL, ih]; omega

theorem sizeL_reverse (a : List Tree) : sizeL a.reverse = sizeL a := by
  induction a with
  | nil => rfl
  | cons t ts ih => simp [sizeL, sizeL_append, ih]; omega

/-- forest edit distance; both forests reversed (right-most tree first) -/
def ted (c : Cost) : List Tree → List Tree → Nat
  | [], [] => 0
  | .node a as :: F, [] => ted c (as.reverse ++ F) [] + c.del a
  | [], .node b bs :: G => ted c [] (bs.reverse ++ G) + c.ins b
  | .node a as :: F, .node b bs :: G =>
      min (ted c (as.reverse ++ F) (.node b bs :: G) + c.del a)
     (min (ted c (.node a as :: F) (bs.reverse ++ G) + c.ins b)
          (ted c as.reverse bs.reverse + ted c F G + c.ren a b))
termination_by F G => sizeL F + sizeL G
decreasing_by
  all_goals simp only [List.unattach_reverse, List.unattach_attach, sizeL, Tree.size, sizeL_append, sizeL_reverse]
  all_goals omega

-- cost of deleting / inserting every node of a forest
mutual
  def delAll (c : Cost) : Tree → Nat
    | .node a cs => c.del a + delAllL c cs
  def delAllL (c : Cost) : List Tree → Nat
    | [] => 0
    | t :: ts => delAll c t + delAllL c ts
end
mutual
  def insAll (c : Cost) : Tree → Nat
    | .node a cs => c.ins a + insAllL c cs
  def insAllL (c : Cost) : List Tree → Nat
    | [] => 0
    | t :: ts => insAll c t + insAllL c ts
end

/-- distance between two trees -/
def dist (c : Cost) (t₁ t₂ : Tree) : Nat := ted c [t₁] [t₂]

/-- similarity as the exact fraction (num, den): `1 - min(d, max n₁ n₂) / max n₁ n₂`, in cost units `unit`
(d is in units of 1/unit).  `ComputeSimilarity` (apted.go:406-442). -/
def similarity (unit d n₁ n₂ : Nat) : Nat × Nat :=
  let m := max n₁ n₂
  if m = 0 then (1, 1) else (m * unit - min d (m * unit), m * unit)

end PV.TED
