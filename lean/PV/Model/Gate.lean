/-!
Model of the decision `pyscn check` takes (cmd/pyscn/check.go:122-235, 238-272, 358-377, 427-453).
The five analyses are inputs (their results, or the fact that they failed); the model mirrors the
issue counting statement by statement.  The guards it mirrors are pinned to the source by the
regenerated fact table `PV.Generated.GateFacts` (theorem `C19_facts`).
Core-only (linked into the driver).
-/
namespace PV.Gate

inductive Sev | info | warning | critical
  deriving DecidableEq, Repr

def Sev.rank : Sev → Nat
  | .info => 1 | .warning => 2 | .critical => 3

/-- `DeadCodeSeverity.IsAtLeast` -/
def Sev.isAtLeast (s m : Sev) : Bool := decide (m.rank ≤ s.rank)

inductive Analysis | complexity | deadcode | clones | deps | mockdata
  deriving DecidableEq, Repr

structure Flags where
  select : List Analysis          -- after validation and alias resolution (`circular` = `deps`); [] = flag absent
  maxComplexity : Int := 10
  maxComplexityChanged : Bool := false
  allowDead : Bool := false
  skipClones : Bool := false
  allowCirc : Bool := false
  maxCycles : Int := 0

structure Results where
  cx : Option (List Int × Int)    -- complexities of all functions, and the merged request's MaxComplexity (0 = unset); none = analysis failed
  dead : Option (List Sev × Sev)  -- severities of the findings in the response, and the merged request's MinSeverity
  clones : Option Nat
  cycles : Option Nat
  mock : Option Nat

/-- `determineEnabledAnalyses`: which analyses run -/
def enabled (f : Flags) (a : Analysis) : Bool :=
  if f.select.length > 0 then f.select.contains a
  else match a with
    | .complexity => true
    | .deadcode => true
    | .clones => !f.skipClones
    | .deps => false
    | .mockdata => false

/-- threshold resolution of `checkComplexity`: explicit flag, else config value if > 0, else the flag default -/
def effMax (f : Flags) (cfgMax : Int) : Int :=
  if !f.maxComplexityChanged && cfgMax > 0 then cfgMax else f.maxComplexity

def cxIssues (f : Flags) (cs : List Int) (cfgMax : Int) : Nat := (cs.filter (fun c => decide (c > effMax f cfgMax))).length
def deadIssues (ss : List Sev) (gate : Sev) : Nat := (ss.filter (fun s => s.isAtLeast gate)).length

/-- contribution of one analysis to (issueCount, hasErrors) -/
def cxPart (f : Flags) (r : Results) : Nat × Bool :=
  if enabled f .complexity then
    match r.cx with
    | none => (0, true)
    | some (cs, cfgMax) => (cxIssues f cs cfgMax, false)
  else (0, false)

def deadPart (f : Flags) (r : Results) : Nat × Bool :=
  if enabled f .deadcode then
    match r.dead with
    | none => (0, true)
    | some (ss, gate) => if !f.allowDead then (deadIssues ss gate, false) else (0, false)
  else (0, false)

def depsPart (f : Flags) (r : Results) : Nat × Bool :=
  if enabled f .deps then
    match r.cycles with
    | none => (0, true)
    | some n => if (n : Int) > f.maxCycles then (if !f.allowCirc then (n, false) else (0, false)) else (0, false)
  else (0, false)

def mockPart (f : Flags) (r : Results) : Nat × Bool :=
  if enabled f .mockdata then
    match r.mock with
    | none => (0, true)
    | some n => (n, false)
  else (0, false)

/-- `runCheck`: (issueCount, hasErrors) accumulated over the analyses in source order; the clone
check is informational and touches neither -/
def run (f : Flags) (r : Results) : Nat × Bool :=
  let a := cxPart f r
  let b := deadPart f r
  let c := depsPart f r
  let d := mockPart f r
  (a.1 + b.1 + c.1 + d.1, a.2 || b.2 || c.2 || d.2)

/-- exit status 0 ⇔ no error and no issue (`main.go`: any returned error ↦ exit 1) -/
def exitZero (f : Flags) (r : Results) : Bool :=
  let (n, e) := run f r
  !e && n == 0

/-- `runCheck` first resolves the configuration file (explicit `--config` must exist); failing that it returns an error before any analysis -/
def exitZeroCfg (configResolved : Bool) (f : Flags) (r : Results) : Bool := configResolved && exitZero f r

end PV.Gate
