import PV.Model.UF
/-!
The same union-find as `PV/Model/UF.lean`, with the two Go maps stored in arrays (`parent[x]`,
`rank[x]` for `x < n`) instead of functions, so that a lookup is O(1) and a run over a large graph is
fast.  `PV/Proofs/UFArrayRefines.lean` proves that it computes exactly the same thing as the function
model (`Arr.components n edges = components n edges` for all inputs), so every theorem of
`PV/Proofs/UFCorrect.lean` transfers.  Core-only.
-/
namespace PV.UF.Arr

structure AState where
  parent : Array Nat
  rank : Array Nat

/-- the function-model state an array state stands for (outside the arrays: own parent, rank 0) -/
def AState.abs (a : AState) : State :=
  { parent := fun x => a.parent.getD x x
    rank := fun x => a.rank.getD x 0 }

def init (n : Nat) : AState :=
  { parent := Array.range n
    rank := Array.replicate n 0 }

def find : Nat → AState → Nat → AState × Nat
  | 0, a, x => (a, x)
  | fuel + 1, a, x =>
    if a.parent.getD x x = x then (a, x)
    else
      let res := find fuel a (a.parent.getD x x)
      ({ parent := res.1.parent.setIfInBounds x res.2
         rank := res.1.rank }, res.2)

def union (n : Nat) (a : AState) (x y : Nat) : AState :=
  let fa := find n a x
  let fb := find n fa.1 y
  let s2 := fb.1
  let ra := fa.2
  let rb := fb.2
  if ra = rb then s2
  else if s2.rank.getD ra 0 < s2.rank.getD rb 0 then
    { parent := s2.parent.setIfInBounds ra rb
      rank := s2.rank }
  else if s2.rank.getD ra 0 > s2.rank.getD rb 0 then
    { parent := s2.parent.setIfInBounds rb ra
      rank := s2.rank }
  else
    { parent := s2.parent.setIfInBounds rb ra
      rank := s2.rank.setIfInBounds ra (s2.rank.getD ra 0 + 1) }

def step (n : Nat) (a : AState) (e : Nat × Nat) : AState :=
  if e.1 < n ∧ e.2 < n then union n a e.1 e.2 else a

def run (n : Nat) (edges : List (Nat × Nat)) : AState :=
  edges.foldl (step n) (init n)

def labelPass (n : Nat) : AState → List Nat → List (Nat × Nat)
  | _, [] => []
  | a, v :: vs =>
    let res := find n a v
    (v, res.2) :: labelPass n res.1 vs

def components (n : Nat) (edges : List (Nat × Nat)) : List (List Nat) :=
  (group (labelPass n (run n edges) (List.range n))).map (·.2)

end PV.UF.Arr
