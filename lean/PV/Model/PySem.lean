import PV.Model.CFG
/-!
Big-step, NONDETERMINISTIC semantics of the Python statement fragment (C01's "every execution"):
every test may go either way, every loop may run any number of iterations, every statement, test,
iterator step, context-manager enter/exit and class/def header may raise, `__exit__` may swallow an
exception, an exception in a `try` body may or may not be caught by each handler, `finally`
overrides the pending outcome when it does not complete normally, a loop `else` runs iff the loop
was not left by `break`, `match` may match any case or none.

A statement is identified by its START LINE (the generator emits one statement per line).
`Exec ss o tr`: the statement list `ss` can execute with outcome `o`, executing the lines `tr`.

`live ss` is a verified static over-approximation: the lines that can execute and the outcomes
that can occur when `ss` is entered (theorem `PV.C01.C01_live_sound`).  It does not mention pyscn.
Core-only (linked into the driver).
-/
namespace PV.Py
open PV.CFG

inductive Out | normal | ret | brk | cont | exc
  deriving DecidableEq, Repr, Inhabited

def Stmt.line : Stmt → Nat
  | .simple s .. | .ret s .. | .brk s _ | .cont s _ | .raise s _ | .ite s .. | .elifc s .. | .elsec s .. | .loop s ..
  | .try_ s .. | .handler s .. | .with_ s .. | .match_ s .. | .case_ s .. | .def_ s .. | .class_ s .. => s

/-- a `finally` that does not complete normally overrides the pending outcome -/
def merge (pending fin : Out) : Out := if fin = .normal then pending else fin

inductive Exec : List Stmt → Out → List Nat → Prop
  | nil : Exec [] .normal []
  | seqN {x : Stmt} {ss : List Stmt} {o : Out} {t₁ t₂ : List Nat} :
      Exec [x] .normal t₁ → Exec ss o t₂ → Exec (x :: ss) o (t₁ ++ t₂)
  | seqS {x : Stmt} {ss : List Stmt} {o : Out} {t₁ : List Nat} :
      Exec [x] o t₁ → o ≠ .normal → Exec (x :: ss) o t₁
  -- simple statements and terminators
  | simpleOk {s e c h} : Exec [.simple s e c h] .normal [s]
  | simpleExc {s e c h} : Exec [.simple s e c h] .exc [s]
  | ret {s e c h} : Exec [.ret s e c h] .ret [s]
  | retExc {s e c h} : Exec [.ret s e c h] .exc [s]
  | brk {s e} : Exec [.brk s e] .brk [s]
  | cont {s e} : Exec [.cont s e] .cont [s]
  | raise {s e} : Exec [.raise s e] .exc [s]
  | defOk {s e b} : Exec [.def_ s e b] .normal [s]
  | defExc {s e b} : Exec [.def_ s e b] .exc [s]
  -- if / elif / else
  | iteExc {s e thn orelse} : Exec [.ite s e thn orelse] .exc [s]
  | iteThen {s e thn orelse o t} : Exec thn o t → Exec [.ite s e thn orelse] o (s :: t)
  | iteElse {s e thn orelse o t} : Exec orelse o t → Exec [.ite s e thn orelse] o (s :: t)
  | elifExc {s e thn orelse} : Exec [.elifc s e thn orelse] .exc [s]
  | elifThen {s e thn orelse o t} : Exec thn o t → Exec [.elifc s e thn orelse] o (s :: t)
  | elifElse {s e thn orelse o t} : Exec orelse o t → Exec [.elifc s e thn orelse] o (s :: t)
  | elsec {s e body o t} : Exec body o t → Exec [.elsec s e body] o t
  -- loops (for / while, with optional else)
  | loopExc {s e body orelse} : Exec [.loop s e body orelse] .exc [s]
  | loopDone {s e body orelse o t} : Exec orelse o t → Exec [.loop s e body orelse] o (s :: t)
  | loopIter {s e body orelse o₁ t₁ o t₂} : Exec body o₁ t₁ → (o₁ = .normal ∨ o₁ = .cont) →
      Exec [.loop s e body orelse] o t₂ → Exec [.loop s e body orelse] o (s :: t₁ ++ t₂)
  | loopBrk {s e body orelse t₁} : Exec body .brk t₁ → Exec [.loop s e body orelse] .normal (s :: t₁)
  | loopStop {s e body orelse o₁ t₁} : Exec body o₁ t₁ → (o₁ = .ret ∨ o₁ = .exc) → Exec [.loop s e body orelse] o₁ (s :: t₁)
  -- try / except / else / finally
  | tryN {s e body hs orelse fin tb o₁ t₁} : Exec body .normal tb → Exec orelse o₁ t₁ → fin = [] →
      Exec [.try_ s e body hs orelse fin] o₁ (tb ++ t₁)
  | tryNF {s e body hs orelse fin tb o₁ t₁ of tf} : Exec body .normal tb → Exec orelse o₁ t₁ → Exec fin of tf →
      Exec [.try_ s e body hs orelse fin] (merge o₁ of) (tb ++ t₁ ++ tf)
  | tryH {s e body hs orelse fin tb h o₁ t₁} : Exec body .exc tb → h ∈ hs → Exec [h] o₁ t₁ → fin = [] →
      Exec [.try_ s e body hs orelse fin] o₁ (tb ++ t₁)
  | tryHF {s e body hs orelse fin tb h o₁ t₁ of tf} : Exec body .exc tb → h ∈ hs → Exec [h] o₁ t₁ → Exec fin of tf →
      Exec [.try_ s e body hs orelse fin] (merge o₁ of) (tb ++ t₁ ++ tf)
  | tryP {s e body hs orelse fin ob tb} : Exec body ob tb → ob ≠ .normal → fin = [] →
      Exec [.try_ s e body hs orelse fin] ob tb
  | tryPF {s e body hs orelse fin ob tb of tf} : Exec body ob tb → ob ≠ .normal → Exec fin of tf →
      Exec [.try_ s e body hs orelse fin] (merge ob of) (tb ++ tf)
  | handler {s e body o t} : Exec body o t → Exec [.handler s e body] o (s :: t)
  -- with
  | withExc {s e body} : Exec [.with_ s e body] .exc [s]
  | withBody {s e body o t} : Exec body o t → Exec [.with_ s e body] o (s :: t)
  | withSwallow {s e body t} : Exec body .exc t → Exec [.with_ s e body] .normal (s :: t)
  | withExitRaise {s e body o t} : Exec body o t → Exec [.with_ s e body] .exc (s :: t)
  -- match
  | matchExc {s e cases} : Exec [.match_ s e cases] .exc [s]
  | matchNone {s e cases} : Exec [.match_ s e cases] .normal (s :: cases.map Stmt.line)
  | matchHit {s e cases pre c post o t} : cases = pre ++ c :: post → Exec [c] o t →
      Exec [.match_ s e cases] o (s :: pre.map Stmt.line ++ t)
  | case_ {s e body o t} : Exec body o t → Exec [.case_ s e body] o (s :: t)
  -- class: the body runs as part of the class statement
  | classExc {s e body} : Exec [.class_ s e body] .exc [s]
  | classBody {s e body o t} : Exec body o t → Exec [.class_ s e body] o (s :: t)

/-- a set of outcomes -/
structure Outs where
  normal : Bool := false
  ret : Bool := false
  brk : Bool := false
  cont : Bool := false
  exc : Bool := false
  deriving Repr, DecidableEq, Inhabited

def Outs.has (a : Outs) : Out → Bool
  | .normal => a.normal | .ret => a.ret | .brk => a.brk | .cont => a.cont | .exc => a.exc
def Outs.union (a b : Outs) : Outs :=
  { normal := a.normal || b.normal, ret := a.ret || b.ret, brk := a.brk || b.brk, cont := a.cont || b.cont, exc := a.exc || b.exc }
def Outs.nonNormal (a : Outs) : Outs := { a with normal := false }
def Outs.any (a : Outs) : Bool := a.normal || a.ret || a.brk || a.cont || a.exc
/-- outcomes after a `finally` with outcomes `f`, entered with pending outcomes `p` -/
def Outs.afterFinally (p f : Outs) : Outs := if f.normal then f.nonNormal.union p else f.nonNormal

structure R where
  lines : List Nat := []
  outs : Outs := {}
  deriving Repr, Inhabited

mutual
  /-- lines that can execute and outcomes that can occur when the list is entered -/
  def live : List Stmt → R
    | [] => { lines := [], outs := { normal := true } }
    | x :: xs =>
      let a := liveS x
      if a.outs.normal then
        let b := live xs
        { lines := a.lines ++ b.lines, outs := a.outs.nonNormal.union b.outs }
      else a
  termination_by l => 2 * sizeL l
  decreasing_by
    all_goals (try simp_wf)
    all_goals (try simp only [Stmt.size, sizeL])
    all_goals omega

  def liveS : Stmt → R
    | .simple s _ _ _ => { lines := [s], outs := { normal := true, exc := true } }
    | .def_ s _ _ => { lines := [s], outs := { normal := true, exc := true } }
    | .ret s _ _ _ => { lines := [s], outs := { ret := true, exc := true } }
    | .brk s _ => { lines := [s], outs := { brk := true } }
    | .cont s _ => { lines := [s], outs := { cont := true } }
    | .raise s _ => { lines := [s], outs := { exc := true } }
    | .ite s _ thn orelse | .elifc s _ thn orelse =>
      let a := live thn
      let b := live orelse
      { lines := s :: a.lines ++ b.lines, outs := ({ exc := true } : Outs).union (a.outs.union b.outs) }
    | .elsec _ _ body => live body
    | .loop s _ body orelse =>
      let a := live body
      let b := live orelse
      { lines := s :: a.lines ++ b.lines,
        outs := { exc := true, ret := a.outs.ret || b.outs.ret, normal := a.outs.brk || b.outs.normal, brk := b.outs.brk, cont := b.outs.cont } }
    | .try_ _ _ body hs orelse fin =>
      let b := live body
      let h := if b.outs.exc then liveAlts hs else {}
      let el := if b.outs.normal then live orelse else {}
      -- pending outcomes when the finally (if any) is entered
      let p : Outs := (b.outs.nonNormal.union h.outs).union el.outs
      if fin.isEmpty then { lines := b.lines ++ h.lines ++ el.lines, outs := p }
      else
        let f := live fin
        { lines := b.lines ++ h.lines ++ el.lines ++ f.lines, outs := p.afterFinally f.outs }
    | .handler s _ body => let a := live body; { lines := s :: a.lines, outs := a.outs }
    | .with_ s _ body =>
      let a := live body
      { lines := s :: a.lines, outs := { exc := true, normal := a.outs.normal || a.outs.exc, ret := a.outs.ret, brk := a.outs.brk, cont := a.outs.cont } }
    | .match_ s _ cases =>
      let a := liveAlts cases
      { lines := s :: cases.map Stmt.line ++ a.lines, outs := ({ exc := true, normal := true } : Outs).union a.outs }
    | .case_ s _ body => let a := live body; { lines := s :: a.lines, outs := a.outs }
    | .class_ s _ body => let a := live body; { lines := s :: a.lines, outs := ({ exc := true } : Outs).union a.outs }
  termination_by x => 2 * x.size + 1
  decreasing_by
    all_goals (try simp_wf)
    all_goals (try simp only [Stmt.size, sizeL])
    all_goals omega

  /-- alternatives (handlers of a try, cases of a match): any one of them may run -/
  def liveAlts : List Stmt → R
    | [] => {}
    | x :: xs =>
      let a := liveS x
      let b := liveAlts xs
      { lines := a.lines ++ b.lines, outs := a.outs.union b.outs }
  termination_by l => 2 * sizeL l
  decreasing_by
    all_goals (try simp_wf)
    all_goals (try simp only [Stmt.size, sizeL])
    all_goals omega
end

end PV.Py
