/-!
Model of the per-file loops of the analysis services (C06), core-only: each file is analysed on its own; a file that cannot be
analysed contributes an error and nothing else (`continue`), every other file contributes exactly what it contributes alone.
-/
namespace PV.Isolation

structure Acc (F R E : Type) where
  results : List (F × R)
  errors : List (F × E)
  processed : Nat

/-- one iteration of `for _, filePath := range req.Paths { … if len(fileErrors) > 0 { errors = append(…); continue } … }` -/
def step {F R E : Type} (a : F → Except E R) (acc : Acc F R E) (f : F) : Acc F R E :=
  match a f with
  | .ok r => { acc with results := acc.results ++ [(f, r)], processed := acc.processed + 1 }
  | .error e => { acc with errors := acc.errors ++ [(f, e)] }

def analyzeAll {F R E : Type} (a : F → Except E R) (fs : List F) : Acc F R E := fs.foldl (step a) ⟨[], [], 0⟩

/-- `main`: any returned error ↦ exit status 1, otherwise 0 -/
def exitCode {E : Type} (err : Option E) : Nat := if err.isSome then 1 else 0

end PV.Isolation
