/-!
Executable mirror of the union-find that pyscn uses to compute connected components
(`internal/analyzer/connected_grouping.go` lines 55-105, `internal/analyzer/lcom.go` lines 130-200):

```go
find  = func(x) { if parent[x] != x { parent[x] = find(parent[x]) }; return parent[x] }
union = func(a, b) { ra := find(a); rb := find(b); if ra == rb { return }
          if rank[ra] < rank[rb] { parent[ra] = rb }
          else if rank[ra] > rank[rb] { parent[rb] = ra }
          else { parent[rb] = ra; rank[ra]++ } }
for each vertex f: parent[f] = f; rank[f] = 0
for each edge (a,b) in input order: union(a, b)
for each vertex f in order: r := find(f); comp[r] = append(comp[r], f)
```

Vertices are `0 … n-1`.  The Go maps `parent` / `rank` are total functions `Nat → Nat` here, updated
pointwise (`upd`); `find` is the recursive, path-compressing `find` of the Go code with the recursion
depth bounded by a fuel argument, which every caller sets to `n` (`PV/Proofs/UFCorrect.lean` proves that
under the union-find invariant fuel `n` is never exhausted: any fuel `≥ n` gives the same result).

Core-only (linked into the driver).  Correctness: `PV/Proofs/UFCorrect.lean`.
-/
namespace PV.UF

/-- the two Go maps -/
structure State where
  parent : Nat → Nat
  rank : Nat → Nat

/-- `m[x] = v` -/
def upd (f : Nat → Nat) (x v : Nat) : Nat → Nat := fun y => if y = x then v else f y

/-- `parent[f] = f; rank[f] = 0` for every vertex -/
def init : State :=
  { parent := fun x => x
    rank := fun _ => 0 }

/-- `find` with path compression: returns the state after the compression and the root.
`fuel` bounds the recursion depth. -/
def find : Nat → State → Nat → State × Nat
  | 0, s, x => (s, x)
  | fuel + 1, s, x =>
    if s.parent x = x then (s, x)
    else
      let res := find fuel s (s.parent x)             -- find(parent[x])
      ({ parent := upd res.1.parent x res.2           -- parent[x] = …
         rank := res.1.rank }, res.2)                 -- return parent[x]

/-- `union` by rank; on a tie `parent[rb] = ra; rank[ra]++` -/
def union (n : Nat) (s : State) (a b : Nat) : State :=
  let fa := find n s a
  let fb := find n fa.1 b
  let s2 := fb.1
  let ra := fa.2
  let rb := fb.2
  if ra = rb then s2
  else if s2.rank ra < s2.rank rb then
    { parent := upd s2.parent ra rb
      rank := s2.rank }
  else if s2.rank ra > s2.rank rb then
    { parent := upd s2.parent rb ra
      rank := s2.rank }
  else
    { parent := upd s2.parent rb ra
      rank := upd s2.rank ra (s2.rank ra + 1) }

/-- one input edge; edges with an endpoint outside `0 … n-1` are skipped -/
def step (n : Nat) (s : State) (e : Nat × Nat) : State :=
  if e.1 < n ∧ e.2 < n then union n s e.1 e.2 else s

/-- initialise, then `union` over the edges in input order -/
def run (n : Nat) (edges : List (Nat × Nat)) : State :=
  edges.foldl (step n) init

/-- root of `x` without compression (follow parent links, at most `fuel` of them) -/
def rootOfAux (p : Nat → Nat) : Nat → Nat → Nat
  | 0, x => x
  | fuel + 1, x => if p x = x then x else rootOfAux p fuel (p x)

def rootOf (n : Nat) (s : State) (x : Nat) : Nat := rootOfAux s.parent n x

def sameSet (n : Nat) (s : State) (u v : Nat) : Bool := rootOf n s u == rootOf n s v

/-- the final pass `for f in vertices { r := find(f); … }`: the compressing `find` is threaded through
the vertices in order; yields `(vertex, root)` pairs -/
def labelPass (n : Nat) : State → List Nat → List (Nat × Nat)
  | _, [] => []
  | s, v :: vs =>
    let res := find n s v
    (v, res.2) :: labelPass n res.1 vs

/-- `comp[r] = append(comp[r], v)` on an insertion-ordered association list -/
def addTo (r v : Nat) : List (Nat × List Nat) → List (Nat × List Nat)
  | [] => [(r, [v])]
  | (r', ms) :: rest => if r' = r then (r', ms ++ [v]) :: rest else (r', ms) :: addTo r v rest

def group (labelled : List (Nat × Nat)) : List (Nat × List Nat) :=
  labelled.foldl (fun acc vr => addTo vr.2 vr.1 acc) []

/-- connected components: vertices `0 … n-1` grouped by the root found in the final `find` pass.
Members of a class are in increasing order, classes are ordered by their smallest member. -/
def components (n : Nat) (edges : List (Nat × Nat)) : List (List Nat) :=
  (group (labelPass n (run n edges) (List.range n))).map (·.2)

end PV.UF
