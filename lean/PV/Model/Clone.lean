import PV.Model.Arith
import PV.Generated.CloneBands
import PV.Generated.CloneSignificant
import PV.Generated.CloneOverlap
import PV.Generated.CloneInclude
import PV.Generated.CloneBatchSize
import PV.Generated.LSHAuto
/-!
Model of pyscn's clone-pair pipeline (C08, C09), core-only.

* the per-pair decisions (`classifyCloneType`, `isSignificantClone`, `isOverlappingLocation`,
  `shouldIncludeFragment`, `calculateBatchSize`, `ShouldUseLSH`) are the functions TRANSLATED from
  /repo on every run (PV.Generated.*);
* the loops around them are written by hand and pinned by the regenerated fact tables
  `CloneLoopFacts`, `LSHFacts`, `MinHashFacts`, `CloneServiceFacts`;
* the measurement of a pair of fragments (size / line pre-filters, Jaccard pre-filter, classifier gate,
  APTED distance and similarity) is a PARAMETER `cmp i j : Option (sim × dist)`: the theorems hold for
  every such function (with symmetry / identity hypotheses where stated), the correspondence run feeds
  the table measured on the real code.

Fragments are addressed by index (`fr : Nat → Frag`, `n` of them), as in the Go loops.
-/
namespace PV.Clone
open PV PV.Generated

structure Frag where
  file : Nat
  s : Nat
  e : Nat
  size : Nat
  lines : Nat
deriving DecidableEq, Repr, Inhabited

structure Cfg (F : Type) where
  t1 : F
  t2 : F
  t3 : F
  t4 : F
  simThr : F        -- SimilarityThreshold
  maxDist : F       -- MaxEditDistance
  minNodes : Nat
  minLines : Nat
  minSim : F        -- request filter
  maxSim : F
  enabled : List Int
  maxPairs : Nat

structure Pair (F : Type) where
  i : Nat           -- Fragment1
  j : Nat           -- Fragment2
  sim : F
  dist : F
  ty : Int

abbrev Cmp (F : Type) := Nat → Nat → Option (F × F)

section
variable {F : Type} [Arith F]

def overlap (a b : Frag) : Bool :=
  CloneOverlap.isOverlappingLocation F a.file a.s a.e b.file b.s b.e

def included (c : Cfg F) (a : Frag) : Bool :=
  CloneInclude.shouldIncludeFragment F a.size a.lines c.minNodes c.minLines

def classify (c : Cfg F) (sim dist : F) : Int :=
  CloneBands.classifyCloneType F sim dist c.t1 c.t2 c.t3 c.t4

def significant (c : Cfg F) (a b : Frag) (sim dist : F) : Bool :=
  CloneSignificant.isSignificantClone F sim dist c.simThr c.t4 c.maxDist a.size b.size c.minNodes

/-- the body of the pair loops (`tryCreateClonePair` without the running minimum; the standard loop inlines the same steps) -/
def mkPair (c : Cfg F) (fr : Nat → Frag) (cmp : Cmp F) (i j : Nat) : Option (Pair F) :=
  if overlap (F := F) (fr i) (fr j) then none else
  match cmp i j with
  | none => none
  | some (sim, dist) =>
    let ty := classify c sim dist
    if ty = 0 then none else
    if significant c (fr i) (fr j) sim dist then some ⟨i, j, sim, dist, ty⟩ else none

/-- `for i := 0; i < n; i++ { for j := i + 1; j < n; j++ {` -/
def stdPairs (n : Nat) : List (Nat × Nat) :=
  (List.range n).flatMap fun i => (List.range' (i + 1) (n - (i + 1))).map fun j => (i, j)

def standard (c : Cfg F) (fr : Nat → Frag) (cmp : Cmp F) (n : Nat) : List (Pair F) :=
  (stdPairs n).filterMap fun ij => mkPair c fr cmp ij.1 ij.2

/-- `limitAndSortClonePairs`: one sorted arrangement (Go's sort is unstable: any arrangement of ties may come out) cut at the limit -/
def sortDesc (l : List (Pair F)) : List (Pair F) := l.mergeSort fun p q => decide (q.sim ≤ p.sim)

def sortTrunc (maxPairs : Nat) (l : List (Pair F)) : List (Pair F) := (sortDesc l).take maxPairs

/-- `filterClonePairs` of the service -/
def svcKeep (c : Cfg F) (p : Pair F) : Bool :=
  !(decide (p.sim < c.minSim) || decide (p.sim > c.maxSim)) && c.enabled.contains p.ty

def report (c : Cfg F) (fr : Nat → Frag) (cmp : Cmp F) (n : Nat) : List (Pair F) :=
  (sortTrunc c.maxPairs (standard c fr cmp n)).filter (svcKeep c)

/-- the unordered pair {u, v} is among `l` with these values -/
def ReportedIn (l : List (Pair F)) (u v : Nat) (s d : F) (t : Int) : Prop :=
  ∃ p ∈ l, ((p.i = u ∧ p.j = v) ∨ (p.i = v ∧ p.j = u)) ∧ p.sim = s ∧ p.dist = d ∧ p.ty = t

/-! ### batching (`detectClonePairsWithBatchingContext`) -/

/-- the (i, j) the two inner loops visit, in visiting order -/
def batchPairs (n bs : Nat) : List (Nat × Nat) :=
  (List.range ((n + bs - 1) / bs)).flatMap fun k =>
    let b := k * bs
    let e := min (b + bs) n
    (List.range' b (e - b)).flatMap fun i =>
      ((List.range' (i + 1) (e - (i + 1))).map fun j => (i, j)) ++ ((List.range b).map fun j => (i, j))

/-- `addPairWithLimit` -/
def addPairWithLimit (maxPairs : Nat) (top : List (Pair F)) (p : Pair F) : List (Pair F) :=
  if top.length < maxPairs then sortDesc (top ++ [p])
  else match top.getLast? with
    | some w => if p.sim > w.sim then sortDesc (top.dropLast ++ [p]) else top
    | none => top

structure BState (F : Type) where
  top : List (Pair F)
  minSim : F

def batchStep (c : Cfg F) (fr : Nat → Frag) (cmp : Cmp F) (maxPairs : Nat) (st : BState F) (ij : Nat × Nat) : BState F :=
  match mkPair c fr cmp ij.1 ij.2 with
  | none => st
  | some p =>
    if p.sim ≥ st.minSim then
      let top' := addPairWithLimit maxPairs st.top p
      let m' := if top'.length ≥ maxPairs then (match top'.getLast? with | some w => w.sim | none => st.minSim) else st.minSim
      ⟨top', m'⟩
    else st

def batched (c : Cfg F) (fr : Nat → Frag) (cmp : Cmp F) (n : Nat) (maxPairs0 bs0 : Int) : List (Pair F) :=
  let maxPairs := if maxPairs0 ≤ 0 then 10000 else maxPairs0.toNat
  let bs := if bs0 ≤ 0 then 100 else bs0.toNat
  ((batchPairs n bs).foldl (batchStep c fr cmp maxPairs) ⟨[], c.t4⟩).top

/-- `detectClonePairsWithContext`: choice of the path, then the final sort/limit -/
def detectAuto (c : Cfg F) (fr : Nat → Frag) (cmp : Cmp F) (n : Nat) (batchThreshold largeProject batchSmall batchLarge : Int) : List (Pair F) :=
  if n ≤ 1 then [] else
  let estimated : Int := ((n : Int) * ((n : Int) - 1)) / 2
  let needsBatching := decide ((n : Int) > batchThreshold) || decide (estimated > (c.maxPairs : Int))
  let l := if needsBatching then
      batched c fr cmp n c.maxPairs (CloneBatchSize.calculateBatchSize F n batchThreshold largeProject batchSmall batchLarge)
    else standard c fr cmp n
  sortTrunc c.maxPairs l

/-! ### MinHash + LSH banding (`minhash.go`, `lsh_index.go`, stage 3 of `DetectClonesWithLSH`) -/

/-- running minimum of `h` over the features, as the loop computes it -/
def minOver (h : Nat → Nat) (top : Nat) (xs : List Nat) : Nat :=
  xs.foldl (fun m x => if h x < m then h x else m) top

def signature (hs : List (Nat → Nat)) (top : Nat) (feats : List Nat) : List Nat :=
  if feats.isEmpty then hs.map (fun _ => 0) else hs.map (fun h => minOver h top feats)

/-- rows per band: default 4, and (since the repair of F18) never more than the signature has hashes -/
def effRows (rows : Int) (total : Nat) : Nat :=
  let r := if rows ≤ 0 then 4 else rows.toNat
  if 0 < total ∧ total < r then total else r
def effBands (bands rows : Int) (total : Nat) : Nat :=
  let b := if bands ≤ 0 then 32 else bands.toNat
  min b (total / effRows rows total)

/-- band keys: (band number, hash of that band's slice of the signature) -/
def bandKeys (kh : List Nat → Nat) (bands rows : Int) (sig : List Nat) : List (Nat × Nat) :=
  (List.range (effBands bands rows sig.length)).map fun band =>
    (band, kh ((sig.drop (band * effRows rows sig.length)).take (effRows rows sig.length)))

/-- j is returned by `FindCandidates(sig i)` iff the two signatures share a band key -/
def isCand (kh : List Nat → Nat) (bands rows : Int) (sigs : Nat → List Nat) (i j : Nat) : Bool :=
  (bandKeys kh bands rows (sigs i)).any fun k => (bandKeys kh bands rows (sigs j)).contains k

def agree : List Nat → List Nat → Nat
  | a :: as, b :: bs => (if a = b then 1 else 0) + agree as bs
  | _, _ => 0

/-- `EstimateJaccardSimilarity` -/
def estimate (s1 s2 : List Nat) : F :=
  let n := min s1.length s2.length
  if n = 0 then Arith.lit 0 1 else Arith.div (Arith.ofInt (agree s1 s2 : Nat)) (Arith.ofInt (n : Nat))

def clampThr (t : F) : F :=
  if t < (Arith.lit 0 1 : F) then Arith.lit 0 1 else if t > (Arith.lit 1 1 : F) then Arith.lit 1 1 else t

/-- the unordered pairs stage 3 hands to the verification step, oriented (smaller index, larger index) -/
def lshCandPairs (cand : Nat → Nat → Bool) (est : Nat → Nat → F) (thr : F) (n : Nat) : List (Nat × Nat) :=
  (stdPairs n).filter fun ij => (cand ij.1 ij.2 || cand ij.2 ij.1) && !(decide (est ij.1 ij.2 < clampThr thr))

def lshDetect (c : Cfg F) (fr : Nat → Frag) (cmp : Cmp F) (n : Nat) (cand : Nat → Nat → Bool) (est : Nat → Nat → F) (thr : F) : List (Pair F) :=
  (lshCandPairs cand est thr n).filterMap fun ij => mkPair c fr cmp ij.1 ij.2

end

/-! ### the concrete hash functions (driver only; the theorems are generic in the family) -/

/-- `func(x uint64) uint64 { return (ai * x) ^ bi + ai + bi }` — Go gives `^` and `+` the same precedence, left to right -/
def hashFam (a b x : UInt64) : UInt64 := (((a * x) ^^^ b) + a) + b

/-- FNV-1a, 64 bit, over bytes -/
def fnv64 (bytes : List UInt8) : UInt64 :=
  bytes.foldl (fun h c => (h ^^^ c.toUInt64) * 1099511628211) 14695981039346656037

def be8 (v : UInt64) : List UInt8 :=
  [(v >>> 56).toUInt8, (v >>> 48).toUInt8, (v >>> 40).toUInt8, (v >>> 32).toUInt8, (v >>> 24).toUInt8, (v >>> 16).toUInt8, (v >>> 8).toUInt8, v.toUInt8]

/-- key hash of a band slice: FNV-1a over the big-endian bytes of its values -/
def bandHash (part : List Nat) : Nat :=
  (fnv64 (part.flatMap fun v => be8 v.toUInt64)).toNat

end PV.Clone
