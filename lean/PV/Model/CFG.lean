/-!
Executable mirror of pyscn's CFG engine for ONE definition (function body, class body or module):
`internal/analyzer/cfg_builder.go` (Build, buildFunction, buildClass, processStatement and every
process* method), `reachability.go` (DFS from entry; the all-paths-return pass is a no-op on
builder output and is not mirrored), `dead_code.go` (findings: first statement's start line … last
statement's end line of every unreachable block with statements; severity) and `complexity.go`
(distinct blocks with a conditional out-edge + exception edges + 1 over blocks reached by Walk).

Input = the statement skeleton AS THE PARSER DELIVERS IT (the harness dumps it from the real
parser.Node tree), with source line spans; so parser defects are outside this model (they are
checked by the parser-glue tie) and builder quirks are inside it (e.g. a converted `elif` carries no location).
Core-only (linked into the driver).
-/
namespace PV.CFG

inductive Ty | other | ret | raise | brk | cont
  deriving DecidableEq, Repr, Inhabited

inductive ETy | normal | condT | condF | exc | loop | brk | cont | ret
  deriving DecidableEq, Repr, Inhabited

/-- statement skeleton as delivered by the parser (line spans `s e`) -/
inductive Stmt where
  | simple (s e : Nat) (comp : List Bool) (hasComp : Bool)     -- hasComp: value is a comprehension; comp: per `for` clause "has a filter"
  | ret (s e : Nat) (comp : List Bool) (hasComp : Bool)
  | brk (s e : Nat)
  | cont (s e : Nat)
  | raise (s e : Nat)
  | ite (s e : Nat) (thn : List Stmt) (orelse : List Stmt)      -- orelse: [] | [elifc …] | [elsec …] (or plain statements)
  | elifc (s e : Nat) (thn : List Stmt) (orelse : List Stmt)
  | elsec (s e : Nat) (body : List Stmt)
  | loop (s e : Nat) (body : List Stmt) (orelse : List Stmt)    -- for / while / async for
  | try_ (s e : Nat) (body : List Stmt) (handlers : List Stmt) (orelse : List Stmt) (fin : List Stmt)
  | handler (s e : Nat) (body : List Stmt)
  | with_ (s e : Nat) (body : List Stmt)
  | match_ (s e : Nat) (cases : List Stmt)
  | case_ (s e : Nat) (body : List Stmt)
  | def_ (s e : Nat) (body : List Stmt)                          -- nested def: separate CFG, here only a statement
  | class_ (s e : Nat) (body : List Stmt)
  deriving Repr, Inhabited

mutual
  def Stmt.size : Stmt → Nat
    | .simple .. | .ret .. | .brk .. | .cont .. | .raise .. => 1
    | .ite _ _ a b | .elifc _ _ a b | .loop _ _ a b => 2 + sizeL a + sizeL b
    | .elsec _ _ a | .handler _ _ a | .with_ _ _ a | .match_ _ _ a | .case_ _ _ a | .def_ _ _ a | .class_ _ _ a => 2 + sizeL a
    | .try_ _ _ a b c d => 2 + sizeL a + sizeL b + sizeL c + sizeL d
  def sizeL : List Stmt → Nat
    | [] => 0
    | x :: xs => 1 + x.size + sizeL xs
end

structure SRec where   -- a statement stored in a block
  blk : Nat
  s : Nat
  e : Nat
  ty : Ty
  deriving Repr

structure Exc where    -- exceptionContext
  fin : Option Nat
  handlers : List Nat
  processingFinally : Bool
  deriving Repr

structure St where
  next : Nat                       -- number of blocks created so far (ids 0 … next-1; 0 = ENTRY, 1 = EXIT)
  cur : Nat
  stmts : List SRec                -- in insertion order (reversed: newest first)
  edges : List (Nat × Nat × ETy)   -- newest first
  unreach : List Nat               -- blocks labelled "unreachable"
  loops : List (Nat × Nat × Nat)   -- (header, exit, depth of the exception stack at loop entry), innermost first
  excs : List Exc                  -- innermost first
  deriving Repr

def exitB : Nat := 1

def St.newBlock (st : St) : Nat × St := (st.next, { st with next := st.next + 1 })
def St.newUnreach (st : St) : Nat × St := (st.next, { st with next := st.next + 1, unreach := st.next :: st.unreach })
def St.edge (st : St) (a b : Nat) (t : ETy) : St := { st with edges := (a, b, t) :: st.edges }
def St.add (st : St) (b s e : Nat) (ty : Ty) : St := { st with stmts := { blk := b, s := s, e := e, ty := ty } :: st.stmts }
def St.hasSucc (st : St) (a b : Nat) : Bool := st.edges.any (fun x => x.1 == a && x.2.1 == b)
/-- `if !hasSuccessor(cur, Exit) { Connect(cur, to, ty) }` -/
def St.edgeUnlessExit (st : St) (a b : Nat) (t : ETy) : St := if st.hasSucc a exitB then st else st.edge a b t
/-- last statement stored in a block (`blockTerminates`) -/
def St.lastTy (st : St) (b : Nat) : Option Ty := (st.stmts.find? (fun r => r.blk == b)).map (·.ty)
def St.blockTerminates (st : St) (b : Nat) : Bool :=
  match st.lastTy b with
  | some .ret | some .raise | some .brk | some .cont => true
  | _ => false

/-- processComprehension -/
def procComp (st : St) (s e : Nat) (comp : List Bool) : St :=
  let (initB, st) := st.newBlock
  let st := st.edge st.cur initB .normal
  let st := st.add initB s e .other
  let (exitBk, st) := st.newBlock
  let rec go (cs : List Bool) (st : St) (cp : Nat) : St × Nat :=
    match cs with
    | [] => (st, cp)
    | hasTest :: rest =>
      let (hdr, st) := st.newBlock
      let st := st.edge cp hdr .normal
      let st := st.add hdr s e .other          -- iterator expression
      let (body, st) := st.newBlock
      let st := st.edge hdr body .condT
      let st :=
        if hasTest then
          let (flt, st) := st.newBlock
          let st := st.edge body flt .normal
          let st := st.add flt s e .other
          let (app, st) := st.newBlock
          let st := st.edge flt app .condT
          let st := st.edge flt hdr .condF
          let st := st.add app s e .other
          st.edge app hdr .loop
        else
          let st := st.add body s e .other
          let (app, st) := st.newBlock
          let st := st.edge body app .normal
          st.edge app hdr .loop
      go rest st hdr
  let (st, cp) := go comp st initB
  let st := if cp != initB then st.edge cp exitBk .condF else st.edge initB exitBk .normal
  { st with cur := exitBk }

/-- innermost finally for `return`: skips a finally block only when it IS the current block -/
def targetFinallyRet (st : St) : Option Nat :=
  (st.excs.findSome? (fun c => match c.fin with
    | some f => if st.cur != f then some f else none
    | none => none))

/-- innermost finally for `raise`: skips contexts whose finally body is being processed -/
def targetFinally (st : St) : Option Nat :=
  (st.excs.findSome? (fun c => if c.processingFinally then none else c.fin))

/-- innermost finally for break / continue: only `try` statements opened INSIDE the loop (exception-stack depth `d` at loop entry) -/
def targetFinallyLoop (st : St) (d : Nat) : Option Nat :=
  ((st.excs.take (st.excs.length - d)).findSome? (fun c => if c.processingFinally then none else c.fin))

/-- first exception context that is not processing its finally (fallback for `raise`) -/
def fallbackExc (st : St) : Option Exc := st.excs.find? (fun c => !c.processingFinally)

def procRet (st : St) (s e : Nat) (comp : List Bool) (hasComp : Bool) : St :=
  let st := if hasComp then procComp st s e comp else st
  let st := st.add st.cur s e .ret
  let st := match targetFinallyRet st with
    | some f => st.edge st.cur f .ret
    | none => st.edge st.cur exitB .ret
  let (u, st) := st.newUnreach
  { st with cur := u }

def procBrk (st : St) (s e : Nat) : St :=
  let st := st.add st.cur s e .brk
  match st.loops with
  | [] => st
  | (_, ex, d) :: _ =>
    let st := match targetFinallyLoop st d with
      | some f => st.edge st.cur f .brk
      | none => st.edge st.cur ex .brk
    let (u, st) := st.newUnreach
    { st with cur := u }

def procCont (st : St) (s e : Nat) : St :=
  let st := st.add st.cur s e .cont
  match st.loops with
  | [] => st
  | (hdr, _, d) :: _ =>
    let st := match targetFinallyLoop st d with
      | some f => st.edge st.cur f .cont
      | none => st.edge st.cur hdr .cont
    let (u, st) := st.newUnreach
    { st with cur := u }

def procRaise (st : St) (s e : Nat) : St :=
  let st := st.add st.cur s e .raise
  let st := match targetFinally st with
    | some f => st.edge st.cur f .exc
    | none =>
      match fallbackExc st with
      | some c => if c.handlers.length > 0 then c.handlers.foldl (fun st h => st.edge st.cur h .exc) st else st.edge st.cur exitB .exc
      | none => st.edge st.cur exitB .exc
  let (u, st) := st.newUnreach
  { st with cur := u }

/-- the propagation edges added after a `finally` body (cfg_builder.go:1041-1113); `st.excs` still has the current context on top -/
def finallyPropagation (st : St) (fin : Nat) : St :=
  let outer := st.excs.drop 1
  let nextOuter : Option Nat := outer.findSome? (fun c => c.fin)
  let conn (st : St) (b : Nat) (t : ETy) : St := if st.hasSucc fin b then st else st.edge fin b t
  let st := match nextOuter with
    | some o => conn st o .ret
    | none => conn st exitB .ret
  let st := match st.loops with
    | [] => st
    | (hdr, ex, d) :: _ =>
      -- only finally blocks of try statements inside the same loop intercept break/continue
      let nextLoop : Option Nat := (outer.take (st.excs.length - 1 - d)).findSome? (fun c => c.fin)
      let st := match nextLoop with
        | some o => conn st o .brk
        | none => conn st ex .brk
      match nextLoop with
        | some o => conn st o .cont
        | none => conn st hdr .cont
  match nextOuter with
  | some o => conn st o .exc
  | none =>
    match outer with
    | c :: _ => c.handlers.foldl (fun st h => conn st h .exc) st
    | [] => conn st exitB .exc

mutual
  /-- processStatement -/
  def procStmt (st : St) : Stmt → St
    | .simple s e comp hasComp =>
      if hasComp then let st := procComp st s e comp; st.add st.cur s e .other
      else st.add st.cur s e .other
    | .ret s e comp hasComp => procRet st s e comp hasComp
    | .brk s e => procBrk st s e
    | .cont s e => procCont st s e
    | .raise s e => procRaise st s e
    | .def_ s e _ => st.add st.cur s e .other          -- buildNestedFunction: separate builder; here only AddStatement
    | .class_ s e body => procClass st s e body
    | .ite s e thn orelse => procIf st s e thn orelse
    | .elifc _ _ thn orelse =>                          -- "unexpected elif_clause as standalone statement": converted, processed as an if
      procIf st 0 0 thn orelse
    | .elsec _ _ body => procList st body               -- standalone else_clause (loop else): its Body is processed
    | .loop s e body orelse => procLoop st s e body orelse
    | .try_ s e body handlers orelse fin => procTry st s e body handlers orelse fin
    | .handler s e _ => st.add st.cur s e .other        -- never a standalone statement; default branch
    | .with_ s e body => procWith st s e body
    | .match_ s e cases => procMatch st s e cases
    | .case_ s e _ => st.add st.cur s e .other
  termination_by x => x.size
  decreasing_by
    all_goals (try simp_wf)
    all_goals (try simp only [Stmt.size, sizeL])
    all_goals omega

  def procList (st : St) : List Stmt → St
    | [] => st
    | x :: xs => procList (procStmt st x) xs
  termination_by l => sizeL l
  decreasing_by
    all_goals (try simp_wf)
    all_goals (try simp only [Stmt.size, sizeL])
    all_goals omega

  /-- statements of an else branch: else_clause nodes are unwrapped, anything else is processed directly -/
  def procElse (st : St) : List Stmt → St
    | [] => st
    | .elsec _ _ body :: xs => procElse (procList st body) xs
    | x :: xs => procElse (procStmt st x) xs
  termination_by l => sizeL l
  decreasing_by
    all_goals (try simp_wf)
    all_goals (try simp only [Stmt.size, sizeL])
    all_goals omega

  /-- buildClass (for a nested class: runs in the same builder) -/
  def procClass (st : St) (s e : Nat) (body : List Stmt) : St :=
    let (b, st) := st.newBlock
    let st := st.edge st.cur b .normal
    let st := { st with cur := b }
    let st := st.add b s e .other
    procList st body          -- a method `def` only adds a statement, exactly like procStmt (.def_ …)
  termination_by 1 + sizeL body
  decreasing_by
    all_goals (try simp_wf)
    all_goals (try simp only [Stmt.size, sizeL])
    all_goals omega

  /-- processIfStatement -/
  def procIf (st : St) (s e : Nat) (thn orelse : List Stmt) : St :=
    let cond := st.cur
    let st := st.add cond s e .other
    let (thenB, st) := st.newBlock
    let (merge, st) := st.newBlock
    let st := st.edge cond thenB .condT
    let st := procList { st with cur := thenB } thn
    let thenEnd := st.cur
    match orelse with
    | [] =>
      let st := st.edge cond merge .condF
      let st := st.edgeUnlessExit thenEnd merge .normal
      { st with cur := merge }
    | [.elifc _ _ thn' orelse'] => procIfElifTail st cond thenEnd merge 0 0 thn' orelse'
    | [.ite s' e' thn' orelse'] => procIfElifTail st cond thenEnd merge s' e' thn' orelse'
    | o :: os =>
      let (elseB, st) := st.newBlock
      let st := st.edge cond elseB .condF
      let st := procElse { st with cur := elseB } (o :: os)
      let elseEnd := st.cur
      if st.blockTerminates thenEnd && st.blockTerminates elseEnd then
        let (u, st) := st.newUnreach
        { st with cur := u }
      else
        let st := st.edgeUnlessExit thenEnd merge .normal
        let st := st.edgeUnlessExit st.cur merge .normal
        { st with cur := merge }
  termination_by 1 + sizeL thn + sizeL orelse
  decreasing_by
    all_goals (try simp_wf)
    all_goals (try simp only [Stmt.size, sizeL])
    all_goals omega

  /-- the elif branch of processIfStatement (lines 518-549) -/
  def procIfElifTail (st : St) (cond thenEnd merge : Nat) (s' e' : Nat) (thn' orelse' : List Stmt) : St :=
    let (elifB, st) := st.newBlock
    let st := st.edge cond elifB .condF
    let st := procIfElif { st with cur := elifB } s' e' thn' orelse' merge
    if st.unreach.contains st.cur then
      if st.blockTerminates thenEnd then st
      else
        let st := { st with cur := merge }
        let st := st.edgeUnlessExit thenEnd merge .normal
        { st with cur := merge }
    else
      let st := st.edgeUnlessExit thenEnd merge .normal
      { st with cur := merge }
  termination_by 2 + sizeL thn' + sizeL orelse'
  decreasing_by
    all_goals (try simp_wf)
    all_goals (try simp only [Stmt.size, sizeL])
    all_goals omega

  /-- processIfStatementElif -/
  def procIfElif (st : St) (s e : Nat) (thn orelse : List Stmt) (finalMerge : Nat) : St :=
    let cond := st.cur
    let st := st.add cond s e .other
    let (thenB, st) := st.newBlock
    let st := st.edge cond thenB .condT
    let st := procList { st with cur := thenB } thn
    let thenEnd := st.cur
    let finish (st : St) : St :=
      let st := st.edgeUnlessExit thenEnd finalMerge .normal
      { st with cur := finalMerge }
    match orelse with
    | [] => finish (st.edge cond finalMerge .condF)
    | [.elifc _ _ thn' orelse'] =>
      let (elifB, st) := st.newBlock
      let st := st.edge cond elifB .condF
      finish (procIfElif { st with cur := elifB } 0 0 thn' orelse' finalMerge)
    | [.ite s' e' thn' orelse'] =>
      let (elifB, st) := st.newBlock
      let st := st.edge cond elifB .condF
      finish (procIfElif { st with cur := elifB } s' e' thn' orelse' finalMerge)
    | o :: os =>
      let (elseB, st) := st.newBlock
      let st := st.edge cond elseB .condF
      let st := procElse { st with cur := elseB } (o :: os)
      let elseEnd := st.cur
      if st.blockTerminates thenEnd && st.blockTerminates elseEnd then
        let (u, st) := st.newUnreach
        { st with cur := u }
      else
        finish (st.edgeUnlessExit st.cur finalMerge .normal)
  termination_by 1 + sizeL thn + sizeL orelse
  decreasing_by
    all_goals (try simp_wf)
    all_goals (try simp only [Stmt.size, sizeL])
    all_goals omega

  /-- processForStatement / processWhileStatement -/
  def procLoop (st : St) (s e : Nat) (body orelse : List Stmt) : St :=
    let (hdr, st) := st.newBlock
    let st := st.edge st.cur hdr .normal
    let st := st.add hdr s e .other
    let (bodyB, st) := st.newBlock
    let (exitBk, st) := st.newBlock
    let hasElse := !orelse.isEmpty
    let (elseB, st) := if hasElse then st.newBlock else (0, st)
    let savedLoops := st.loops
    let st := { st with loops := (hdr, exitBk, st.excs.length) :: st.loops }
    let st := st.edge hdr bodyB .condT
    let st := if hasElse then st.edge hdr elseB .condF else st.edge hdr exitBk .condF
    let st := procList { st with cur := bodyB } body
    let st := st.edgeUnlessExit st.cur hdr .loop
    -- the loop context is popped when the body is finished: a break / continue in the else clause belongs to the enclosing loop (repair bc75039)
    let st := { st with loops := savedLoops }
    let st :=
      if hasElse then
        let st := procList { st with cur := elseB } orelse    -- the items are else_clause nodes: procStmt processes their Body
        st.edgeUnlessExit st.cur exitBk .normal
      else st
    { st with cur := exitBk, loops := savedLoops }
  termination_by 1 + sizeL body + sizeL orelse
  decreasing_by
    all_goals (try simp_wf)
    all_goals (try simp only [Stmt.size, sizeL])
    all_goals omega

  /-- processTryStatement -/
  def procTry (st : St) (_s _e : Nat) (body handlers orelse fin : List Stmt) : St :=
    let (tryB, st) := st.newBlock
    let st := st.edge st.cur tryB .normal
    let (exitBk, st) := st.newBlock
    let hasFin := !fin.isEmpty
    let hasElse := !orelse.isEmpty
    let (finB, st) := if hasFin then st.newBlock else (0, st)
    let (elseB, st) := if hasElse then st.newBlock else (0, st)
    let hbs : List Nat := (List.range handlers.length).map (fun k => st.next + k)
    let st := { st with next := st.next + handlers.length }
    let savedExcs := st.excs
    let ctx : Exc := { fin := if hasFin then some finB else none, handlers := hbs, processingFinally := false }
    let st := { st with excs := ctx :: st.excs }
    let st := procList { st with cur := tryB } body
    let tryEnd := st.cur
    let nextAfterTry := if hasElse then elseB else if hasFin then finB else exitBk
    let st := st.edgeUnlessExit tryEnd nextAfterTry .normal
    let st := hbs.foldl (fun st h => st.edge tryB h .exc) st
    let afterHandler := if hasFin then finB else exitBk
    let st := procHandlers st handlers hbs afterHandler
    let st :=
      if hasElse then
        let st := procList { st with cur := elseB } orelse
        st.edgeUnlessExit st.cur afterHandler .normal
      else st
    let st :=
      if hasFin then
        let st := { st with cur := finB, excs := { ctx with processingFinally := true } :: savedExcs }
        let st := procList st fin
        let st := { st with excs := ctx :: savedExcs }
        let st := st.edgeUnlessExit st.cur exitBk .normal
        finallyPropagation st finB
      else st
    { st with cur := exitBk, excs := savedExcs }
  termination_by 1 + sizeL body + sizeL handlers + sizeL orelse + sizeL fin
  decreasing_by
    all_goals (try simp_wf)
    all_goals (try simp only [Stmt.size, sizeL])
    all_goals omega

  def procHandlers (st : St) : List Stmt → List Nat → Nat → St
    | .handler s e body :: hs, hb :: hbs, after =>
      let st := { st with cur := hb }
      let st := st.add hb s e .other
      let st := procList st body
      let st := st.edgeUnlessExit st.cur after .normal
      procHandlers st hs hbs after
    | x :: hs, hb :: hbs, after =>      -- not produced by the parser
      let st := { st with cur := hb }
      let st := procStmt st x
      let st := st.edgeUnlessExit st.cur after .normal
      procHandlers st hs hbs after
    | _, _, _ => st
  termination_by hs _ _ => sizeL hs
  decreasing_by
    all_goals (try simp_wf)
    all_goals (try simp only [Stmt.size, sizeL])
    all_goals omega

  /-- processWithStatement -/
  def procWith (st : St) (s e : Nat) (body : List Stmt) : St :=
    let (setup, st) := st.newBlock
    let st := st.edge st.cur setup .normal
    let st := st.add setup s e .other
    let (bodyB, st) := st.newBlock
    let (tear, st) := st.newBlock
    let (exitBk, st) := st.newBlock
    let st := st.edge setup bodyB .normal
    let st := procList { st with cur := bodyB } body
    let st := st.edgeUnlessExit st.cur tear .normal
    let st := st.edge setup tear .exc
    let st := st.edge tear exitBk .normal
    { st with cur := exitBk }
  termination_by 1 + sizeL body
  decreasing_by
    all_goals (try simp_wf)
    all_goals (try simp only [Stmt.size, sizeL])
    all_goals omega

  /-- processMatchStatement -/
  def procMatch (st : St) (s e : Nat) (cases : List Stmt) : St :=
    let (mb, st) := st.newBlock
    let st := st.edge st.cur mb .normal
    let st := st.add mb s e .other
    let (merge, st) := st.newBlock
    let st :=
      if !cases.isEmpty then
        let st := procCases st cases mb merge
        st.edge mb merge .condF
      else st.edge mb merge .normal
    { st with cur := merge }
  termination_by 1 + sizeL cases
  decreasing_by
    all_goals (try simp_wf)
    all_goals (try simp only [Stmt.size, sizeL])
    all_goals omega

  def procCases (st : St) : List Stmt → Nat → Nat → St
    | .case_ s e body :: cs, mb, merge =>
      let (cb, st) := st.newBlock
      let st := st.edge mb cb .condT
      let st := { st with cur := cb }
      let st := st.add cb s e .other
      let st := procList st body
      let st := st.edgeUnlessExit st.cur merge .normal
      procCases st cs mb merge
    | x :: cs, mb, merge =>               -- not produced by the parser
      let (cb, st) := st.newBlock
      let st := st.edge mb cb .condT
      let st := { st with cur := cb }
      let st := procStmt st x
      let st := st.edgeUnlessExit st.cur merge .normal
      procCases st cs mb merge
    | [], _, _ => st
  termination_by cs _ _ => sizeL cs
  decreasing_by
    all_goals (try simp_wf)
    all_goals (try simp only [Stmt.size, sizeL])
    all_goals omega
end

inductive Kind | func | cls | module
  deriving DecidableEq, Repr

def initSt : St := { next := 2, cur := 0, stmts := [], edges := [], unreach := [], loops := [], excs := [] }

/-- Build: CFG of one definition -/
def build (k : Kind) (s e : Nat) (body : List Stmt) : St :=
  let st := initSt
  let st :=
    match k with
    | .module => procList st body
    | .func =>
      let (b, st) := st.newBlock
      let st := st.edge st.cur b .normal
      procList { st with cur := b } body
    | .cls =>
      let (b, st) := st.newBlock
      let st := st.edge st.cur b .normal
      let st := { st with cur := b }
      let st := st.add b s e .other
      procList st body
  if st.cur != exitB && !st.hasSucc st.cur exitB then st.edge st.cur exitB .normal else st

/-- blocks reachable from ENTRY (DFS with fuel = number of blocks) -/
def reachFrom (edges : List (Nat × Nat × ETy)) : Nat → List Nat → List Nat → List Nat
  | 0, _, seen => seen
  | fuel + 1, frontier, seen =>
    let next := (edges.filterMap (fun x => if frontier.contains x.1 && !seen.contains x.2.1 then some x.2.1 else none)).eraseDups
    if next.isEmpty then seen else reachFrom edges fuel next (seen ++ next)

def reachable (st : St) : List Nat := reachFrom st.edges (st.next + 1) [0] [0]

structure Finding where
  s : Nat
  e : Nat
  critical : Bool
  deriving Repr

structure BInfo where
  start : Nat := 0      -- start line of the first statement
  stop : Nat := 0       -- end line of the last statement
  hasTerm : Bool := false
  nonEmpty : Bool := false
  deriving Repr, Inhabited

/-- per-block summary, one pass over the statements in insertion order -/
def blockInfo (st : St) : Array BInfo :=
  st.stmts.reverse.foldl (fun (a : Array BInfo) r =>
    let i := a.getD r.blk {}
    let i := if i.nonEmpty then { i with stop := r.e, hasTerm := i.hasTerm || r.ty != .other }
             else { start := r.s, stop := r.e, hasTerm := r.ty != .other, nonEmpty := true }
    a.setIfInBounds r.blk i) (Array.replicate st.next {})

/-- determineDeadCodeReason: critical iff some terminator-holding block "precedes" the dead block
(primary: any other block ending ≤ 5 lines before; secondary: a predecessor edge from a terminator-holding block that is
sequentially before within 10 lines, or joined by a normal/return/break/continue edge) -/
def isCritical (st : St) (info : Array BInfo) (b : Nat) : Bool :=
  let bs := (info.getD b {}).start
  let primary := (List.range st.next).any (fun o =>
    let i := info.getD o {}
    o != b && i.hasTerm && decide (i.stop < bs) && decide (bs - i.stop ≤ 5))
  let secondary := st.edges.any (fun x =>
    let i := info.getD x.1 {}
    x.2.1 == b && i.hasTerm &&
      ((decide (i.stop < bs) && decide (bs - i.stop ≤ 10)) ||
       x.2.2 == .normal || x.2.2 == .ret || x.2.2 == .brk || x.2.2 == .cont))
  primary || secondary

def findings (st : St) : List Finding :=
  let r := reachable st
  let info := blockInfo st
  ((List.range st.next).filter (fun b => !r.contains b && (info.getD b {}).nonEmpty)).map
    (fun b => { s := (info.getD b {}).start, e := (info.getD b {}).stop, critical := isCritical st info b })

/-- complexity.go: over reachable blocks, distinct blocks with a cond edge + number of exception edges + 1 -/
def complexity (st : St) : Nat :=
  let r := reachable st
  let condBlocks := ((st.edges.filter (fun x => r.contains x.1 && (x.2.2 == .condT || x.2.2 == .condF))).map (·.1)).eraseDups
  let excEdges := (st.edges.filter (fun x => r.contains x.1 && x.2.2 == .exc)).length
  condBlocks.length + excEdges + 1

def liveLines (st : St) : List Nat :=
  let r := reachable st
  (st.stmts.filter (fun x => r.contains x.blk)).map (·.s)
def deadLines (st : St) : List Nat :=
  let r := reachable st
  (st.stmts.filter (fun x => !r.contains x.blk)).map (·.s)

end PV.CFG
