/-!
Model of the summary loops of the report sections (C16), core-only: one pass over the (already filtered) item list that counts,
sums, tracks maximum (starting at 0) and minimum (starting at the first item) and counts per class (risk level, severity, type,
distribution bucket) — the shape of `generateSummary` in complexity/dead-code/CBO/LCOM services and `createStatistics` of the
clone service.
-/
namespace PV.Agg

structure Agg where
  total : Nat
  sum : Int
  max : Int
  min : Int
  classes : List (String × Nat)
deriving Repr

/-- `m[k]++` on an association list -/
def bump : List (String × Nat) → String → List (String × Nat)
  | [], k => [(k, 1)]
  | (k', n) :: r, k => if k' = k then (k', n + 1) :: r else (k', n) :: bump r k

def step (a : Agg) (x : Int × String) : Agg :=
  { total := a.total + 1, sum := a.sum + x.1,
    max := if x.1 > a.max then x.1 else a.max,
    min := if x.1 < a.min then x.1 else a.min,
    classes := bump a.classes x.2 }

def aggregate : List (Int × String) → Agg
  | [] => ⟨0, 0, 0, 0, []⟩
  | x :: xs => (x :: xs).foldl step ⟨0, 0, 0, x.1, []⟩

def countOf (cs : List (String × Nat)) (k : String) : Nat :=
  match cs.find? (fun c => c.1 = k) with
  | some c => c.2
  | none => 0

/-- the filters of the services: keep what reaches the minimum (complexity, CBO, LCOM4, similarity, severity level) -/
def keepMin (minv : Int) (items : List (Int × String)) : List (Int × String) := items.filter fun x => decide (minv ≤ x.1)

end PV.Agg
