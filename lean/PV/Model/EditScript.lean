import PV.Model.TED
/-!
Edit operations and edit scripts on ordered labelled forests, defined DIRECTLY (not through the
forest-distance recursion `PV.TED.ted`).

Conventions.  A forest is a `List Tree` in NORMAL left-to-right order (head = left-most tree), and the
children list of `Tree.node a cs` is in normal order as well.  `PV.TED.ted` keeps its two TOP-LEVEL
forests reversed (right-most tree first) and children lists in normal order; hence the distance of
the normal-order forests `F`, `G` is `ted c F.reverse G.reverse` (`tedN` below).  For a single tree
`[t].reverse = [t]`, so `dist c t₁ t₂ = tedN c [t₁] [t₂]` by `rfl`.

One edit operation (`Step c F G k`: forest `F` becomes forest `G` at cost `k`):
* relabel a node `a ↦ b`                                            (cost `c.ren a b`);
* delete a node: its children are spliced into its parent's child list at its position — for a
  root of the forest, into the forest                                (cost `c.del a`);
* insert a node (inverse of delete): a new node labelled `b` adopts a consecutive (possibly empty)
  run of children of some node — or of trees of the top-level forest — and takes their place
                                                                      (cost `c.ins b`);
applied at any position of any sibling list (`ctx`: arbitrary siblings to the left and to the right)
and at any depth (`down`: below a node whose label is untouched).

`Script c F G k`: a finite sequence of operations leading from `F` to `G` with total cost `k`.
Core-only.
-/
namespace PV.TED

/-- one edit operation on a forest (normal left-to-right order), with its cost -/
inductive Step (c : Cost) : List Tree → List Tree → Nat → Prop where
  /-- relabel the node `a ↦ b`, children untouched -/
  | ren (a b : Nat) (cs : List Tree) : Step c [.node a cs] [.node b cs] (c.ren a b)
  /-- delete the node `a`: its children take its place -/
  | del (a : Nat) (cs : List Tree) : Step c [.node a cs] cs (c.del a)
  /-- insert a node `b` that adopts the consecutive run `cs` and takes its place -/
  | ins (b : Nat) (cs : List Tree) : Step c cs [.node b cs] (c.ins b)
  /-- the operation happens between siblings `L` (to the left) and `R` (to the right) -/
  | ctx (L R : List Tree) {F G : List Tree} {k : Nat} :
      Step c F G k → Step c (L ++ F ++ R) (L ++ G ++ R) k
  /-- the operation happens in the child forest of a node -/
  | down (a : Nat) {F G : List Tree} {k : Nat} :
      Step c F G k → Step c [.node a F] [.node a G] k

/-- an edit script: finitely many operations, costs added -/
inductive Script (c : Cost) : List Tree → List Tree → Nat → Prop where
  | nil (F : List Tree) : Script c F F 0
  | cons {F G H : List Tree} {k m : Nat} : Step c F G k → Script c G H m → Script c F H (k + m)

/-- `ted` on forests in normal order -/
def tedN (c : Cost) (F G : List Tree) : Nat := ted c F.reverse G.reverse

theorem dist_eq_tedN (c : Cost) (t₁ t₂ : Tree) : dist c t₁ t₂ = tedN c [t₁] [t₂] := rfl

/-- the cost model is a (quasi-)metric on labels extended by the "empty label": relabelling a node to
itself is free and the three triangle inequalities relabel∘relabel, relabel∘delete, insert∘relabel
hold.  (No symmetry, no positivity needed.) -/
structure Metric (c : Cost) : Prop where
  ren_self : ∀ a, c.ren a a = 0
  ren_tri : ∀ a b d, c.ren a d ≤ c.ren a b + c.ren b d
  del_tri : ∀ a b, c.del a ≤ c.ren a b + c.del b
  ins_tri : ∀ a b, c.ins b ≤ c.ins a + c.ren a b

end PV.TED
