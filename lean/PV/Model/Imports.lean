/-!
Specification of Python's import resolution restricted to a project (C12), core-only, and the model of
pyscn's dependency graph bookkeeping (`AddDependency`, degrees, instability, distance, depth).

The resolver is a SPEC (what Python does), not a transliteration of `module_analyzer.go`, whose heuristics are
compared with it by the check.  It is validated against CPython on every run (real imports executed under an
`__import__` recorder).
-/
namespace PV.Imports

abbrev Mod := List String      -- dotted name, split

structure Layout where
  mods : List Mod                       -- project modules (a package is listed under its package name)
  pkgs : List Mod                       -- the ones that are packages (`__init__.py`)
  exports : List (Mod × String × Mod)   -- (package, name, source module): `__init__` re-exports `name` from `source`

inductive Imp where
  | plain (m : Mod)                                   -- `import a.b.c [as x]`
  | from_ (level : Nat) (m : Mod) (names : List String)   -- `from [.]*m import n1, n2`
deriving Repr

structure Stmt where
  imp : Imp
  typeChecking : Bool         -- guarded by `if TYPE_CHECKING:` (never executed at run time)

/-- the package relative imports of module `A` start from: `A` itself if it is a package, else its parent -/
def pkgOf (L : Layout) (A : Mod) : Mod := if L.pkgs.contains A then A else A.dropLast

/-- the module a `from` statement names: `level` dots from `A`'s package (Python: `importlib._bootstrap._resolve_name`) -/
def base (L : Layout) (A : Mod) (level : Nat) (m : Mod) : Option Mod :=
  if level = 0 then some m
  else
    let p := pkgOf L A
    if p.isEmpty || level > p.length then none        -- no parent package / beyond the top-level package: ImportError
    else some (p.take (p.length - (level - 1)) ++ m)

def lookupExport (L : Layout) (b : Mod) (n : String) : Option Mod :=
  (L.exports.find? fun e => e.1 == b && e.2.1 == n).map fun e => e.2.2

/-- the module one imported name finally binds to -/
def bindTarget (L : Layout) (b : Mod) (n : String) : Mod :=
  if L.mods.contains (b ++ [n]) then b ++ [n]          -- a submodule
  else match lookupExport L b n with
    | some src => src                                  -- re-exported by the package's `__init__`
    | none => b                                        -- an attribute of the module itself

/-- all proper, non-empty prefixes and the name itself: the modules CPython imports on the way to `m` -/
def chain (m : Mod) : List Mod := (List.range m.length).map fun k => m.take (k + 1)

/-- REQUIRED targets of one statement: what each imported name resolves to -/
def required (L : Layout) (A : Mod) (s : Stmt) : List Mod :=
  if s.typeChecking then [] else
  match s.imp with
  | .plain m => [m]
  | .from_ level m names =>
    match base L A level m with
    | none => []
    | some b => if names.isEmpty then [b] else names.map (bindTarget L b)

/-- ALLOWED targets: the required ones plus everything CPython imports on the way (parent packages, the named module itself) -/
def allowed (L : Layout) (A : Mod) (s : Stmt) : List Mod :=
  if s.typeChecking then [] else
  match s.imp with
  | .plain m => chain m
  | .from_ level m names =>
    match base L A level m with
    | none => []
    | some b => chain b ++ (names.map (bindTarget L b)).flatMap chain

/-- keep project modules other than the importer, once each -/
def clean (L : Layout) (A : Mod) (ts : List Mod) : List Mod :=
  (ts.filter fun t => L.mods.contains t && t != A).eraseDups

def requiredEdges (L : Layout) (A : Mod) (ss : List Stmt) : List Mod := clean L A (ss.flatMap (required L A))
def allowedEdges (L : Layout) (A : Mod) (ss : List Stmt) : List Mod := clean L A (ss.flatMap (allowed L A))

/-! ### the dependency graph's bookkeeping (`dependency_graph.go:176-213`) -/

structure Graph where
  nodes : List Nat
  edges : List (Nat × Nat)          -- in insertion order
  outDeg : Nat → Nat
  inDeg : Nat → Nat

def Graph.empty (nodes : List Nat) : Graph := { nodes := nodes, edges := [], outDeg := fun _ => 0, inDeg := fun _ => 0 }

/-- `AddDependency`: both endpoints must exist, no self edge, no duplicate -/
def Graph.add (g : Graph) (e : Nat × Nat) : Graph :=
  if !(g.nodes.contains e.1 && g.nodes.contains e.2) then g
  else if e.1 == e.2 then g
  else if g.edges.contains e then g
  else { g with edges := g.edges ++ [e],
                outDeg := fun n => if n = e.1 then g.outDeg n + 1 else g.outDeg n,
                inDeg := fun n => if n = e.2 then g.inDeg n + 1 else g.inDeg n }

def Graph.build (nodes : List Nat) (ops : List (Nat × Nat)) : Graph := ops.foldl Graph.add (Graph.empty nodes)

/-- longest simple path (in edges) from `cur`, the way `calculateDepthFromModule` explores: DFS that never re-enters a module on
the current path; meeting one counts the closing edge -/
def depthFrom (adj : Nat → List Nat) : Nat → List Nat → Nat → Nat → Nat
  | 0, _, _, d => d
  | fuel + 1, visited, cur, d =>
    if visited.contains cur then d
    else (adj cur).foldl (fun best nxt => max best (depthFrom adj fuel (cur :: visited) nxt (d + 1))) d

def maxDepth (nodes : List Nat) (adj : Nat → List Nat) : Nat :=
  nodes.foldl (fun best m => max best (depthFrom adj (nodes.length + 1) [] m 0)) 0

end PV.Imports
