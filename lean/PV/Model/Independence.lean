/-!
Model of how the analyses are combined (C20), core-only: `createAnalysisTasks` builds one task per analysis, each a function of the
file list and the configuration only; the enabled ones run (concurrently) and each result lands in its own task's slot; per-file
analyses map an analysis of ONE file over the list.
-/
namespace PV.Independence

/-- the enabled tasks, run on the same input, keyed by their name -/
def execute {I R : Type} (enabled : String → Bool) (tasks : List (String × (I → R))) (inp : I) : List (String × R) :=
  (tasks.filter fun t => enabled t.1).map fun t => (t.1, t.2 inp)

def section_ {R : Type} (results : List (String × R)) (name : String) : Option R :=
  (results.find? fun r => r.1 == name).map (·.2)

/-- a per-file analysis over a list of files -/
def perFile {F R : Type} (a : F → R) (fs : List F) : List (F × R) := fs.map fun f => (f, a f)

def resultOf {F R : Type} [BEq F] (rs : List (F × R)) (f : F) : Option R := (rs.find? fun r => r.1 == f).map (·.2)

end PV.Independence
