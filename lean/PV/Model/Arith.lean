/-
  Abstract carrier for Go's `float64`.

  `Arith F`      : the operations the translated Go code uses (data only).
  `MonoArith F`  : the order laws the theorems rely on.  Correctly rounded IEEE-754
                   arithmetic satisfies them on finite non-NaN values; that Go's
                   `float64` is an instance is an ASSUMPTION (DESIGN.md §6.4).
                   `Rat` is PROVED to be an instance (PV/Proofs/RatArith.lean), so the
                   laws are consistent.
  Core-only: the driver links this module into a native executable.
-/
namespace PV

class Arith (F : Type) where
  lit   : Int → Nat → F      -- the constant num/den of the Go source (den > 0)
  ofInt : Int → F            -- float64(i)
  add : F → F → F
  sub : F → F → F
  mul : F → F → F
  div : F → F → F
  neg : F → F
  le : F → F → Prop
  lt : F → F → Prop
  decLe : ∀ a b, Decidable (le a b)
  decLt : ∀ a b, Decidable (lt a b)
  round : F → F              -- math.Round  (half away from zero)
  ceil  : F → F              -- math.Ceil
  floor : F → F              -- math.Floor
  trunc : F → Int            -- int(x)      (toward zero)
  log10 : F → F
  log2  : F → F
  fmin  : F → F → F          -- math.Min
  fmax  : F → F → F          -- math.Max
  abs   : F → F

namespace Arith
variable {F : Type} [Arith F]
instance : Add F := ⟨Arith.add⟩
instance : Sub F := ⟨Arith.sub⟩
instance : Mul F := ⟨Arith.mul⟩
instance : Div F := ⟨Arith.div⟩
instance : Neg F := ⟨Arith.neg⟩
instance : LE F := ⟨Arith.le⟩
instance : LT F := ⟨Arith.lt⟩
instance (a b : F) : Decidable (a ≤ b) := Arith.decLe a b
instance (a b : F) : Decidable (a < b) := Arith.decLt a b
end Arith

/-- An integer is "small" when float64 represents it exactly. -/
def SmallInt (n : Int) : Prop := n.natAbs ≤ 2 ^ 53

class MonoArith (F : Type) extends Arith F where
  le_refl  : ∀ a : F, le a a
  le_trans : ∀ a b c : F, le a b → le b c → le a c
  le_total : ∀ a b : F, le a b ∨ le b a
  le_antisymm : ∀ a b : F, le a b → le b a → a = b
  lt_iff_not_le : ∀ a b : F, lt a b ↔ ¬ le b a
  /-- conversion of a constant is monotone (correct rounding) -/
  lit_mono   : ∀ (n : Int) (d : Nat) (n' : Int) (d' : Nat), 0 < d → 0 < d' → n * d' ≤ n' * d → le (lit n d) (lit n' d')
  /-- a positive constant that is not absurdly small does not round to zero -/
  lit_pos    : ∀ (n : Int) (d : Nat), 0 < d → (d : Int) ≤ n * 2 ^ 100 → lt (lit 0 1) (lit n d)
  ofInt_lit  : ∀ n : Int, ofInt n = lit n 1
  add_mono_l : ∀ a b c : F, le a b → le (add a c) (add b c)
  add_mono_r : ∀ a b c : F, le a b → le (add c a) (add c b)
  sub_mono_l : ∀ a b c : F, le a b → le (sub a c) (sub b c)
  sub_mono_r : ∀ a b c : F, le a b → le (sub c b) (sub c a)
  mul_mono_l : ∀ a b c : F, le (lit 0 1) c → le a b → le (mul a c) (mul b c)
  mul_mono_r : ∀ a b c : F, le (lit 0 1) c → le a b → le (mul c a) (mul c b)
  div_mono_l : ∀ a b c : F, lt (lit 0 1) c → le a b → le (div a c) (div b c)
  div_self   : ∀ c : F, lt (lit 0 1) c → div c c = lit 1 1
  mul_one_lit : ∀ a : F, mul a (lit 1 1) = a
  one_mul_lit : ∀ a : F, mul (lit 1 1) a = a
  sub_zero_lit : ∀ a : F, sub a (lit 0 1) = a
  mul_nonneg : ∀ a b : F, le (lit 0 1) a → le (lit 0 1) b → le (lit 0 1) (mul a b)
  div_nonneg : ∀ a b : F, le (lit 0 1) a → lt (lit 0 1) b → le (lit 0 1) (div a b)
  add_nonneg : ∀ a b : F, le (lit 0 1) a → le (lit 0 1) b → le (lit 0 1) (add a b)
  add_pos_l  : ∀ a b : F, lt (lit 0 1) a → le (lit 0 1) b → lt (lit 0 1) (add a b)
  sub_nonneg : ∀ a b : F, le b a → le (lit 0 1) (sub a b)
  round_mono : ∀ a b : F, le a b → le (round a) (round b)
  round_lit  : ∀ n : Int, SmallInt n → round (lit n 1) = lit n 1
  trunc_mono : ∀ a b : F, le a b → trunc a ≤ trunc b
  trunc_lit  : ∀ n : Int, SmallInt n → trunc (lit n 1) = n
  fmin_le_l  : ∀ a b : F, le (fmin a b) a
  fmin_le_r  : ∀ a b : F, le (fmin a b) b
  le_fmin    : ∀ a b c : F, le c a → le c b → le c (fmin a b)
  le_fmax_l  : ∀ a b : F, le a (fmax a b)
  le_fmax_r  : ∀ a b : F, le b (fmax a b)
  fmax_le    : ∀ a b c : F, le a c → le b c → le (fmax a b) c
  log10_nonneg : ∀ a : F, le (lit 1 1) a → le (lit 0 1) (log10 a)
  log2_nonneg  : ∀ a : F, le (lit 1 1) a → le (lit 0 1) (log2 a)

end PV
