import PV.Model.CFG
/-!
Specification for C03: the McCabe decision count of a definition body, on the parser's skeleton.
Each `if` / `elif` test, each `for` / `while` loop, each `except` handler and each `for` / `if` clause of a
statement-level comprehension counts one; `else`, `break`, `continue`, `return` count nothing; a decision
point on a line that pyscn itself reports dead (parameter `dead`) is not counted.  Nested `def`s are
separate definitions.  Core-only (linked into the driver).
-/
namespace PV.Dec
open PV.CFG

def one (dead : Nat → Bool) (line : Nat) : Nat := if dead line then 0 else 1

/-- clauses of a statement-level comprehension: one per `for`, one more per filter -/
def compClauses (comp : List Bool) : Nat := comp.length + (comp.filter id).length

mutual
  def decisions (dead : Nat → Bool) : List Stmt → Nat
    | [] => 0
    | x :: xs => decS dead x + decisions dead xs
  termination_by l => 2 * sizeL l
  decreasing_by
    all_goals (try simp_wf)
    all_goals (try simp only [Stmt.size, sizeL])
    all_goals omega
  def decS (dead : Nat → Bool) : Stmt → Nat
    | .simple s _ comp hasComp | .ret s _ comp hasComp => if hasComp && !dead s then compClauses comp else 0
    | .brk .. | .cont .. | .raise .. | .def_ .. => 0
    | .ite s _ a b | .elifc s _ a b | .loop s _ a b => one dead s + decisions dead a + decisions dead b
    | .elsec _ _ a | .with_ _ _ a | .match_ _ _ a | .case_ _ _ a | .class_ _ _ a => decisions dead a
    | .handler s _ a => one dead s + decisions dead a
    | .try_ _ _ a hs c d => decisions dead a + decisions dead hs + decisions dead c + decisions dead d
  termination_by x => 2 * x.size + 1
  decreasing_by
    all_goals (try simp_wf)
    all_goals (try simp only [Stmt.size, sizeL])
    all_goals omega
end

def mccabe (dead : Nat → Bool) (body : List Stmt) : Nat := 1 + decisions dead body

end PV.Dec
