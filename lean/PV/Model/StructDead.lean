import PV.Model.PySem
/-!
Specification for C02: the statements the property calls structurally unreachable —
those that FOLLOW, in the same block, a return / raise / break / continue, or an if/elif/else all of
whose branches END with one (literal reading: the last statement of every branch is such a terminator
and a final `else` is present).  Computed on the parser's statement skeleton; nested function bodies are
separate definitions and are not entered.
Core-only (linked into the driver).
-/
namespace PV.SD
open PV.CFG

def isTerm : Stmt → Bool
  | .ret .. | .brk .. | .cont .. | .raise .. => true
  | _ => false

/-- the block ends with a terminator -/
def endsTerm (l : List Stmt) : Bool := match l.getLast? with
  | some x => isTerm x
  | none => false

/-- the else-part is present, exhaustive, and every branch of it ends with a terminator -/
def elseEnds : List Stmt → Bool
  | [.elifc _ _ thn orelse] => endsTerm thn && elseEnds orelse
  | [.elsec _ _ body] => endsTerm body
  | _ => false
termination_by l => sizeL l
decreasing_by
  all_goals (try simp_wf)
  all_goals (try simp only [Stmt.size, sizeL])
  all_goals omega

/-- after this statement nothing in the same block can run -/
def stops : Stmt → Bool
  | .ite _ _ thn orelse => endsTerm thn && elseEnds orelse
  | x => isTerm x

def _root_.PV.CFG.Stmt.span : Stmt → Nat × Nat
  | .simple s e .. | .ret s e .. | .brk s e | .cont s e | .raise s e | .ite s e .. | .elifc s e .. | .elsec s e .. | .loop s e ..
  | .try_ s e .. | .handler s e .. | .with_ s e .. | .match_ s e .. | .case_ s e .. | .def_ s e .. | .class_ s e .. => (s, e)

mutual
  /-- the lines that must be covered for a dead statement: the start line of every statement in it (a `try` has no
  header statement of its own; an `else` clause neither; the body of a nested `def` belongs to that definition) -/
  def linesOf : Stmt → List Nat
    | .try_ _ _ a hs c d => linesOfL a ++ linesOfL hs ++ linesOfL c ++ linesOfL d
    | .elsec _ _ a => linesOfL a
    | .ite s _ a b | .elifc s _ a b | .loop s _ a b => s :: linesOfL a ++ linesOfL b
    | .handler s _ a | .with_ s _ a | .match_ s _ a | .case_ s _ a | .class_ s _ a => s :: linesOfL a
    | .def_ s _ _ => [s]
    | .simple s .. | .ret s .. | .brk s _ | .cont s _ | .raise s _ => [s]
  termination_by x => 2 * x.size
  decreasing_by
    all_goals (try simp_wf)
    all_goals (try simp only [Stmt.size, sizeL])
    all_goals omega
  def linesOfL : List Stmt → List Nat
    | [] => []
    | x :: xs => linesOf x ++ linesOfL xs
  termination_by l => 2 * sizeL l
  decreasing_by
    all_goals (try simp_wf)
    all_goals (try simp only [Stmt.size, sizeL])
    all_goals omega
end

/-- lines to be covered for the statements of ONE block that follow a stopping statement -/
def deadInBlock : List Stmt → List Nat
  | [] => []
  | x :: xs => if stops x then linesOfL xs else deadInBlock xs

mutual
  /-- all structurally dead statements of a definition body (every nested block, nested defs excluded) -/
  def structDead : List Stmt → List Nat
    | l => deadInBlock l ++ subDead l
  termination_by l => 2 * sizeL l + 1
  decreasing_by
    all_goals (try simp_wf)
    all_goals (try simp only [Stmt.size, sizeL])
    all_goals omega
  def subDead : List Stmt → List Nat
    | [] => []
    | x :: xs => inStmt x ++ subDead xs
  termination_by l => 2 * sizeL l
  decreasing_by
    all_goals (try simp_wf)
    all_goals (try simp only [Stmt.size, sizeL])
    all_goals omega
  def inStmt : Stmt → List Nat
    | .ite _ _ a b | .elifc _ _ a b | .loop _ _ a b => structDead a ++ structDead b
    | .elsec _ _ a | .handler _ _ a | .with_ _ _ a | .case_ _ _ a | .class_ _ _ a => structDead a
    | .match_ _ _ cs => subDead cs
    | .try_ _ _ a hs c d => structDead a ++ subDead hs ++ structDead c ++ structDead d
    | .def_ .. => []
    | _ => []
  termination_by x => 2 * x.size
  decreasing_by
    all_goals (try simp_wf)
    all_goals (try simp only [Stmt.size, sizeL])
    all_goals omega
end

end PV.SD
