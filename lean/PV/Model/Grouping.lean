import PV.Model.SCC
/-!
Specification-level executable models and checkers for C10 (clone grouping).

Vertices are fragments `0 … n-1` (numbered in location order); a pair is `(u, v, sim)` with the
similarity as a natural number on a fixed grid (the generator uses dyadic grids, so `sim ≥ θ` is the
same comparison in Go's float64 and here).

* connected mode and k-core mode have a UNIQUE correct output, so they get a model
  (`connectedGroups`, `kcoreGroups`) that the implementation's output must equal;
* complete-linkage and star mode admit many correct outputs, so they get a CHECKER
  (`checkComplete`, `checkStar`) that is proved sound and run on the implementation's output;
* `checkCommon` is the part of the contract shared by all modes.
Core-only (linked into the driver).
-/
namespace PV.Grouping
open PV.SCC

structure Pair where
  u : Nat
  v : Nat
  sim : Nat
  deriving Repr

/-- `u` and `v` are joined by some pair at or above the threshold -/
def linked (θ : Nat) (ps : List Pair) (u v : Nat) : Bool :=
  ps.any (fun p => ((p.u == u && p.v == v) || (p.u == v && p.v == u)) && decide (θ ≤ p.sim))

/-- the symmetric digraph of links at or above θ, restricted to a vertex set `keep` -/
def linkGraph (n θ : Nat) (ps : List Pair) (keep : Nat → Bool) : G :=
  { n := n,
    edges := (ps.filter (fun p => decide (θ ≤ p.sim) && keep p.u && keep p.v)).flatMap (fun p => [(p.u, p.v), (p.v, p.u)]) }

/-- connected mode: the connected components with ≥ 2 members of the threshold graph -/
def connectedGroups (n θ : Nat) (ps : List Pair) : Option (List (List Nat)) :=
  cycles (linkGraph n θ ps (fun _ => true))

/-- degree of `u` inside the vertex set `R` -/
def degIn (θ : Nat) (ps : List Pair) (R : List Nat) (u : Nat) : Nat := (R.filter (fun v => v != u && linked θ ps u v)).length

/-- one peeling round: drop every vertex whose degree inside `R` is below `k` -/
def peelStep (θ k : Nat) (ps : List Pair) (R : List Nat) : List Nat := R.filter (fun u => decide (k ≤ degIn θ ps R u))

/-- peel until stable; `none` if the fuel runs out (never observed: fuel = n + 1) -/
def peel (θ k : Nat) (ps : List Pair) : Nat → List Nat → Option (List Nat)
  | 0, R => if peelStep θ k ps R == R then some R else none
  | f + 1, R => if peelStep θ k ps R == R then some R else peel θ k ps f (peelStep θ k ps R)

/-- vertices that occur in some pair (the implementation only knows those) -/
def occurs (ps : List Pair) (u : Nat) : Bool := ps.any (fun p => p.u == u || p.v == u)

/-- `NewKCoreGrouping` raises k below 2 to 2 (k_core_grouping.go:15-20) -/
def effK (k : Nat) : Nat := if k < 2 then 2 else k

/-- k-core mode: components with ≥ 2 members of the k-core of the threshold graph -/
def kcoreGroups (n θ k : Nat) (ps : List Pair) : Option (List (List Nat)) :=
  match peel θ k ps (n + 1) ((List.range n).filter (occurs ps)) with
  | none => none
  | some R => cycles (linkGraph n θ ps (fun u => R.contains u))

/-- shared contract: ≥ 2 members, no repeated member, groups pairwise disjoint -/
def checkCommon (gs : List (List Nat)) : Bool :=
  gs.all (fun g => decide (2 ≤ g.length)) && decide (gs.flatten).Nodup

/-- complete linkage: every two different members are linked at or above θ -/
def checkComplete (θ : Nat) (ps : List Pair) (gs : List (List Nat)) : Bool :=
  gs.all (fun g => g.all (fun u => g.all (fun v => u == v || linked θ ps u v)))

/-- star: some member (the medoid) is linked at or above θ with every other member -/
def checkStar (θ : Nat) (ps : List Pair) (gs : List (List Nat)) : Bool :=
  gs.all (fun g => g.any (fun m => g.all (fun u => u == m || linked θ ps u m)))

/-- k-core contract as a checker (used on the implementation's own output as well) -/
def checkKCore (θ k : Nat) (ps : List Pair) (gs : List (List Nat)) : Bool :=
  gs.all (fun g => g.all (fun u => decide (k ≤ degIn θ ps g u)))

/-- the members of a group form ONE component of the link graph restricted to the group: every member is reached from the first one
through pairs at or above θ between members ("all members are linked by reported pairs at or above the grouping threshold") -/
def groupLinked (n θ : Nat) (ps : List Pair) (g : List Nat) : Bool :=
  match g with
  | [] => false
  | h :: _ =>
    match reachSet (linkGraph n θ ps (fun u => g.contains u)) h with
    | some S => g.all (fun v => S.contains v)
    | none => false

/-- contract of every mode, used as the whole contract of the centroid mode -/
def checkLinked (n θ : Nat) (ps : List Pair) (gs : List (List Nat)) : Bool := gs.all (groupLinked n θ ps)

end PV.Grouping
