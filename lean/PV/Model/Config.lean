/-!
Specification of configuration precedence and discovery (C17), core-only.
-/
namespace PV.Config

/-- where a value can come from; `some v` = given / present, whatever `v` is (also the default, 0 or false) -/
structure Source (V : Type) where
  flag : Option V
  file : Option V
  default : V

/-- explicit flag over configuration file over default -/
def effective {V : Type} (s : Source V) : V :=
  match s.flag with
  | some v => v
  | none => match s.file with
    | some v => v
    | none => s.default

/-- the merge the property warns against: a value equal to the default is taken for "not given" -/
def mergeSentinel {V : Type} [DecidableEq V] (s : Source V) : V :=
  let f := s.flag.getD s.default
  if f ≠ s.default then f else s.file.getD s.default

/-- one directory on the way from the analysed path up to the root: the configuration each kind of file would give -/
structure Dir (C : Type) where
  pyscn : Option C          -- `.pyscn.toml`
  pyproject : Option C      -- `pyproject.toml` with a `[tool.pyscn]` table

def findPyscn {C : Type} : List (Dir C) → Option C
  | [] => none
  | d :: rest => match d.pyscn with
    | some c => some c
    | none => findPyscn rest

def findPyproject {C : Type} : List (Dir C) → Option C
  | [] => none
  | d :: rest => match d.pyproject with
    | some c => some c
    | none => findPyproject rest

/-- `ResolveConfigPath` + `FindConfigFileFromPath`: explicit `--config`, else the nearest `.pyscn.toml` at or above the analysed path,
else the nearest `pyproject.toml` with a `[tool.pyscn]` table (`dirs` = the analysed directory first, then its ancestors) -/
def discover {C : Type} (explicit : Option C) (dirs : List (Dir C)) : Option C :=
  match explicit with
  | some c => some c
  | none => match findPyscn dirs with
    | some c => some c
    | none => findPyproject dirs

end PV.Config
