import PV.Model.Arith
/-!
Executable instance of `Arith` at Lean's `Float` (C doubles; `+ - * / round ceil floor` are the
same IEEE-754 operations Go uses). `math.Log10` / `math.Log2` are EXTERNAL functions of the Go
runtime: their values at the arguments a case uses are supplied by the harness and enter the
model as parameters (recorded in the trusted base), they are not re-implemented.
Used only by the driver (correspondence), never by a theorem.
-/
namespace PV

@[reducible] def floatArith (l10 l2 : Float) : Arith Float where
  lit n d := Float.ofInt n / Float.ofNat d
  ofInt n := Float.ofInt n
  add a b := a + b
  sub a b := a - b
  mul a b := a * b
  div a b := a / b
  neg a := -a
  le a b := a ≤ b
  lt a b := a < b
  decLe a b := inferInstanceAs (Decidable (a ≤ b))
  decLt a b := inferInstanceAs (Decidable (a < b))
  round := Float.round
  ceil := Float.ceil
  floor := Float.floor
  trunc x := (Float.toInt64 x).toInt
  log10 _ := l10
  log2 _ := l2
  fmin a b := if a < b then a else b
  fmax a b := if a < b then b else a
  abs := Float.abs

/-- parse 16 hex digits into a Float (bit pattern) -/
def floatOfHex (s : String) : Float :=
  let u : UInt64 := s.foldl (fun acc c =>
    let d : UInt64 :=
      if '0' ≤ c ∧ c ≤ '9' then (c.toNat - '0'.toNat).toUInt64
      else if 'a' ≤ c ∧ c ≤ 'f' then (c.toNat - 'a'.toNat + 10).toUInt64
      else 0
    acc * 16 + d) 0
  Float.ofBits u

end PV
