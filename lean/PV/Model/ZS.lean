import PV.Model.TED
/-!
Lean mirror of the Zhang–Shasha dynamic programme as pyscn runs it (it calls it APTED):
`internal/analyzer/apted.go` (`apted` 153-175, `computeForestDistance` 261-328) and
`internal/analyzer/apted_tree.go` (post-order ids 258-282, left-most leaves 284-310, key roots 312-343).

* node ids are 0-based post-order positions (`PostOrderID`);
* `lml x` is the post-order id of the left-most leaf below `x` (`LeftMostLeaf`);
* key roots are the positions `k` such that no later position has the same left-most leaf
  (the root, and every node that has a left sibling), visited in ASCENDING order (`sort.Ints`);
* `fd` / `td` are indexed exactly as in apted.go: the cell for nodes `x`, `y` is `[x+1][y+1]`, row
  `lml i` / column `lml j` of `fd` is the empty forest, and the answer is `td[size₁][size₂]`.

Tables are functions `Nat → Nat → Nat` with point updates (`setAt`); a fresh Go table is all zeros.
Costs are natural numbers (see `PV.Model.TED`).  Core-only.
-/
namespace PV.ZS
open PV.TED

/-! ## post-order numbering (apted_tree.go:258-310) -/

mutual
  /-- post-order listing of a tree whose first node gets id `off`: `(label, LeftMostLeaf)` per id.
  The left-most leaf of a node is the first id handed out below it, i.e. `off`
  (a leaf gets its own id; an inner node inherits it from `Children[0]`). -/
  def postT (off : Nat) : Tree → List (Nat × Nat)
    | .node a cs => postL off cs ++ [(a, off)]
  def postL (off : Nat) : List Tree → List (Nat × Nat)
    | [] => []
    | t :: ts => postT off t ++ postL (off + t.size) ts
end

/-- the arrays the Go code reads: `len(nodes)`, `nodes[x].Label`, `nodes[x].LeftMostLeaf` -/
structure Post where
  n : Nat
  lab : Nat → Nat
  lml : Nat → Nat

def mkPost (t : Tree) : Post :=
  let a := (postT 0 t).toArray
  { n := a.size
    lab := fun x => (a[x]?.getD (0, 0)).1
    lml := fun x => (a[x]?.getD (0, 0)).2 }

/-! ## key roots (apted_tree.go:312-343, sorted ascending by apted.go:49-50) -/

/-- `k` is a key root iff no later node has the same left-most leaf (it is the highest node of its
left-most path: the root, or a node with a left sibling) -/
def isKey (p : Post) (k : Nat) : Bool :=
  (List.range' (k + 1) (p.n - (k + 1))).all (fun k' => p.lml k' != p.lml k)

def keyroots (p : Post) : List Nat := (List.range p.n).filter (isKey p)

mutual
  /-- the same key roots read off the tree: a node is a key root iff `key`, i.e. it is the root or it
  has a left sibling (`computeKeyRootsRecursive` marks the first node it meets on each left-most
  path, and `Children[0]` shares its parent's path); emitted in ascending post-order id.
  `PV.ZSProof.keyrootsT_eq` proves `keyrootsT t = keyroots (mkPost t)`. -/
  def krT (off : Nat) (key : Bool) : Tree → List Nat
    | .node _ cs => krL off false cs ++ (if key then [off + sizeL cs] else [])
  def krL (off : Nat) (key : Bool) : List Tree → List Nat
    | [] => []
    | t :: ts => krT off key t ++ krL (off + t.size) true ts
end

def keyrootsT (t : Tree) : List Nat := krT 0 true t

/-! ## tables -/

abbrev Table := Nat → Nat → Nat

def zeros : Table := fun _ _ => 0

def setAt (f : Table) (a b v : Nat) : Table := fun x y => if x = a ∧ y = b then v else f x y

/-- `for k := lo; k < lo + n; k++ { s = f k s }` -/
def forRange {σ : Type} (f : Nat → σ → σ) (lo : Nat) : Nat → σ → σ
  | 0, s => s
  | n + 1, s => f (lo + n) (forRange f lo n s)

/-! ## computeForestDistance (apted.go:261-328) -/

/-- body of the double loop for nodes `x`, `y` (apted.go:302-325); state is `(fd, td)` -/
def cell (c : Cost) (p₁ p₂ : Post) (li lj x y : Nat) (st : Table × Table) : Table × Table :=
  let fd := st.1
  let td := st.2
  let deleteCost := fd x (y + 1) + c.del (p₁.lab x)
  let insertCost := fd (x + 1) y + c.ins (p₂.lab y)
  if p₁.lml x = li ∧ p₂.lml y = lj then
    let renameCost := fd x y + c.ren (p₁.lab x) (p₂.lab y)
    let v := min deleteCost (min insertCost renameCost)
    (setAt fd (x + 1) (y + 1) v, setAt td (x + 1) (y + 1) v)
  else
    let subtreeCost := fd (p₁.lml x) (p₂.lml y) + td (x + 1) (y + 1)
    let v := min deleteCost (min insertCost subtreeCost)
    (setAt fd (x + 1) (y + 1) v, td)

/-- first base-case loop (apted.go:278-284) -/
def initCol (c : Cost) (p₁ : Post) (li lj i : Nat) (fd : Table) : Table :=
  forRange (fun x fd => setAt fd (x + 1) lj (fd x lj + c.del (p₁.lab x))) li (i + 1 - li) fd

/-- second base-case loop (apted.go:286-292) -/
def initRow (c : Cost) (p₂ : Post) (li lj j : Nat) (fd : Table) : Table :=
  forRange (fun y fd => setAt fd li (y + 1) (fd li y + c.ins (p₂.lab y))) lj (j + 1 - lj) fd

/-- the main double loop (apted.go:295-327) -/
def mainLoop (c : Cost) (p₁ p₂ : Post) (li lj i j : Nat) (st : Table × Table) : Table × Table :=
  forRange (fun x st => forRange (fun y st => cell c p₁ p₂ li lj x y st) lj (j + 1 - lj) st) li (i + 1 - li) st

/-- `computeForestDistance(nodes1, nodes2, i, j, td)`: returns the updated `td` -/
def computeForestDistance (c : Cost) (p₁ p₂ : Post) (i j : Nat) (td : Table) : Table :=
  if i ≥ p₁.n ∨ j ≥ p₂.n then td
  else
    let li := p₁.lml i
    let lj := p₂.lml j
    let fd := initRow c p₂ li lj j (initCol c p₁ li lj i zeros)
    (mainLoop c p₁ p₂ li lj i j (fd, td)).2

/-! ## apted (apted.go:153-175) -/

/-- the loop over all pairs of key roots, threading `td` (a fresh `td` is all zeros) -/
def aptedTable (c : Cost) (p₁ p₂ : Post) (keyRoots₁ keyRoots₂ : List Nat) : Table :=
  keyRoots₁.foldl (fun td i =>
    keyRoots₂.foldl (fun td j => computeForestDistance c p₁ p₂ i j td) td) zeros

/-- `apted(tree1, tree2, keyRoots1, keyRoots2)`: `td[size1][size2]` -/
def apted (c : Cost) (p₁ p₂ : Post) (keyRoots₁ keyRoots₂ : List Nat) : Nat :=
  aptedTable c p₁ p₂ keyRoots₁ keyRoots₂ p₁.n p₂.n

/-- the distance the Go code returns for two non-nil trees of at most 500 nodes
(`ComputeDistance`, apted.go:45-54): prepare both trees, sort the key roots, run `apted` -/
def zsDist (c : Cost) (t₁ t₂ : Tree) : Nat :=
  apted c (mkPost t₁) (mkPost t₂) (keyrootsT t₁) (keyrootsT t₂)

end PV.ZS
