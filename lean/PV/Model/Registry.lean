/-!
Model for C04: how definitions are registered under dotted qualified names
(cfg_builder.go: scope stack, getFullScopeName, functionCFGs keyed by name, BuildAll).
Core-only (linked into the driver).
-/
namespace PV.Reg

/-- definition tree of a module: functions and classes with their nested definitions (through any statement) -/
inductive Def where
  | fn (name : String) (s e : Nat) (kids : List Def)
  | cls (name : String) (s e : Nat) (kids : List Def)
  deriving Repr, Inhabited

structure Row where
  name : String
  s : Nat
  e : Nat
  deriving Repr, DecidableEq

def dotted (scope : List String) (name : String) : String := ".".intercalate (scope ++ [name])

mutual
  /-- every FUNCTION definition with its dotted qualified name, in source order (what must be reported) -/
  def allFuncs (scope : List String) : List Def → List Row
    | [] => []
    | d :: ds => funcsOf scope d ++ allFuncs scope ds
  def funcsOf (scope : List String) : Def → List Row
    | .fn n s e kids => { name := dotted scope n, s := s, e := e } :: allFuncs (scope ++ [n]) kids
    | .cls n _ _ kids => allFuncs (scope ++ [n]) kids
end

/-- the registry is a map keyed by name: a later registration under the same name replaces the earlier one -/
def register (reg : List Row) (r : Row) : List Row := reg.filter (fun x => x.name != r.name) ++ [r]

def registry (rows : List Row) : List Row := rows.foldl register []

end PV.Reg
