/-!
Specification-level model for C13: CBO = number of DISTINCT coupled classes among the class's mentions
(base classes, annotation names, instantiations), with excluded names (built-ins by default, the class itself) filtered out.
Names are natural numbers.  Core-only (linked into the driver).
-/
namespace PV.CBO

def insertNew (acc : List Nat) (a : Nat) : List Nat := if acc.contains a then acc else acc ++ [a]

/-- distinct coupled classes, in order of first mention -/
def deps (excluded : Nat → Bool) (mentions : List Nat) : List Nat :=
  (mentions.filter (fun n => !excluded n)).foldl insertNew []

def cbo (excluded : Nat → Bool) (mentions : List Nat) : Nat := (deps excluded mentions).length

end PV.CBO
