import PV.Model.Grouping
import PV.Model.UF
/-!
Executable MIRRORS of the grouping algorithms of pyscn (`internal/analyzer/*_grouping.go`) for C10.

Vertices are fragments (natural numbers, numbered in location order, so `fragmentLess` is `<`), pairs are
`PV.Grouping.Pair`, the threshold test `p.Similarity >= threshold` is `θ ≤ p.sim`.

Go map iteration orders are PARAMETERS of the mirrors (the initial work queue and the neighbour order of the k-core
peeling); everything the Go code orders by an explicit `sort` or by a slice is mirrored in that order.
Core-only (linked into the driver).
-/
namespace PV.GroupingAlgo
open PV.Grouping PV.SCC

/-! ## shared: fragments in order of first appearance, similarity caches -/

/-- `addNode` / the `seen` map: append a fragment the first time it is met -/
def addNode (acc : List Nat) (u : Nat) : List Nat := if acc.contains u then acc else acc ++ [u]

/-- the unique fragments in order of first appearance (`collectFragments`, the `nodes` / `fragments` slices) -/
def nodesOf (ps : List Pair) : List Nat := ps.foldl (fun acc p => addNode (addNode acc p.u) p.v) []

/-- `pairKey` is symmetric: the canonical key of an unordered pair -/
def sameKey (p : Pair) (a b : Nat) : Bool := (p.u == a && p.v == b) || (p.u == b && p.v == a)

/-- `simMap` / `sims` (star, complete linkage, k-core): the HIGHEST similarity of the duplicates of a pair -/
def simMax (ps : List Pair) (a b : Nat) : Option Nat :=
  ps.foldl (fun acc p => if sameKey p a b then (match acc with
    | none => some p.sim
    | some old => if p.sim > old then some p.sim else some old) else acc) none

/-- `similarityIndex` (centroid): the LAST duplicate of a pair overwrites the earlier ones -/
def simLast (ps : List Pair) (a b : Nat) : Option Nat :=
  ps.foldl (fun acc p => if sameKey p a b then some p.sim else acc) none

/-- `similarity(sims, a, b)` for `a ≠ b`: the cached value, 0 if the pair is absent -/
def simOr0 (ps : List Pair) (a b : Nat) : Nat := (simMax ps a b).getD 0

/-- `sort.Slice(…, fragmentLess)` on fragments without repetition: insertion sort by location number (structural, so
that examples can be checked by kernel evaluation; the result of sorting distinct keys does not depend on the algorithm) -/
def insertNat (a : Nat) : List Nat → List Nat
  | [] => [a]
  | b :: l => if a ≤ b then a :: b :: l else b :: insertNat a l

def sortNat : List Nat → List Nat
  | [] => []
  | a :: l => insertNat a (sortNat l)

/-! ## k-core (`k_core_grouping.go`) -/

/-- keys of the map `adj[v]`: `adj[f1][f2]` is set by every pair `{f1,f2}` at or above the threshold (a pair of a
fragment with itself makes a self-loop, as in the Go code). The ORDER of this list is one fixed enumeration;
the loop below takes the enumeration actually used as a parameter. -/
def adjOf (θ : Nat) (ps : List Pair) (v : Nat) : List Nat := (nodesOf ps).filter (fun u => linked θ ps v u)

/-- the mutable state of the peeling loop apart from `removed`: the work queue `q`, the set `inQueue`, the map `degree` -/
structure KState where
  queue : List Nat
  inQueue : List Nat
  degree : Nat → Nat

/-- `degree[u]--` -/
def decr (deg : Nat → Nat) (u : Nat) : Nat → Nat := fun x => if x = u then deg u - 1 else deg x

/-- body of `for u := range adj[v]` (k_core_grouping.go:92-102): skip removed neighbours; decrement; push once -/
def relax (k : Nat) (removed : List Nat) (s : KState) (u : Nat) : KState :=
  if removed.contains u then s
  else
    let deg' := decr s.degree u
    if decide (deg' u < k) && !s.inQueue.contains u then
      { queue := s.queue ++ [u], inQueue := u :: s.inQueue, degree := deg' }
    else
      { queue := s.queue, inQueue := s.inQueue, degree := deg' }

/-- `for q.Len() > 0 { … }` (k_core_grouping.go:83-105): pop the front; skip if removed; mark removed; relax the
neighbours in the order `nbrs v`. Returns the final `removed` set; `none` if the fuel runs out (proved impossible). -/
def kcoreLoop (k : Nat) (nbrs : Nat → List Nat) : Nat → KState → List Nat → Option (List Nat)
  | _, ⟨[], _, _⟩, removed => some removed
  | 0, ⟨_ :: _, _, _⟩, _ => none
  | f + 1, ⟨v :: q, inQ, deg⟩, removed =>
    if removed.contains v then kcoreLoop k nbrs f ⟨q, inQ, deg⟩ removed
    else kcoreLoop k nbrs f ((nbrs v).foldl (relax k (v :: removed)) ⟨q, inQ, deg⟩) (v :: removed)

/-- the vertices whose initial degree `len(adj[n])` is below `k`, in ONE enumeration (the Go code ranges over a map) -/
def lowDegree (θ k : Nat) (ps : List Pair) : List Nat := (nodesOf ps).filter (fun v => decide ((adjOf θ ps v).length < k))

/-- the peeling phase with the two map orders as parameters: `q0` is the order in which the low-degree vertices were
queued, `nbrs v` the order in which `adj[v]` is ranged over. Fuel: the number of fragments. -/
def kcoreRemovedWith (θ k : Nat) (ps : List Pair) (q0 : List Nat) (nbrs : Nat → List Nat) : Option (List Nat) :=
  kcoreLoop k nbrs (nodesOf ps).length ⟨q0, q0, fun v => (adjOf θ ps v).length⟩ []

/-- "remaining": a known fragment that was not removed (`!removed[start] && adj[start] != nil`) -/
def remaining (ps : List Pair) (removed : List Nat) (u : Nat) : Bool := (nodesOf ps).contains u && !removed.contains u

/-- the k-core mode with explicit map orders; the second phase (components of the remaining subgraph with ≥ 2 members,
members sorted, k_core_grouping.go:107-147) is taken from the component function of the specification -/
def kcoreGroupsWith (n θ k : Nat) (ps : List Pair) (q0 : List Nat) (nbrs : Nat → List Nat) : Option (List (List Nat)) :=
  match kcoreRemovedWith θ k ps q0 nbrs with
  | none => none
  | some removed => cycles (linkGraph n θ ps (remaining ps removed))

/-- the mirror with one fixed order (first appearance) and the clamp of `NewKCoreGrouping` -/
def kcoreGroupsAlgo (n θ k : Nat) (ps : List Pair) : Option (List (List Nat)) :=
  kcoreGroupsWith n θ (effK k) ps (lowDegree θ (effK k) ps) (adjOf θ ps)

/-! ## star / medoid (`star_medoid_grouping.go`)

Similarities are natural numbers on a fixed grid, so sums are exact; the averages `sum / (len-1)` compared inside one
`findMedoid` call share their divisor, hence `avg > bestAvg` is `sum > bestSum` and `almostEqual(avg, bestAvg)` is
`sum = bestSum` (this presumes a grid coarser than the `1e-9` tolerance; the contract theorem does NOT depend on it,
it holds for every medoid selection that returns a member). -/

/-- `sum` of `findMedoid`: similarities of `cand` to the other members (0 for an absent pair) -/
def sumSim (ps : List Pair) (members : List Nat) (cand : Nat) : Nat :=
  ((members.filter (fun o => o != cand)).map (fun o => simOr0 ps cand o)).sum

/-- one candidate of `findMedoid`; `none` is `best == nil, bestAvg = -1` -/
def medoidStep (ps : List Pair) (members : List Nat) (acc : Option (Nat × Nat)) (cand : Nat) : Option (Nat × Nat) :=
  let s := sumSim ps members cand
  match acc with
  | none => some (cand, s)
  | some (b, bs) => if decide (s > bs) || (s == bs && decide (cand < b)) then some (cand, s) else some (b, bs)

/-- `findMedoid` (star_medoid_grouping.go:203-231): maximal average similarity, ties to the smaller location -/
def findMedoid (ps : List Pair) (members : List Nat) : Option Nat :=
  match members with
  | [] => none
  | [x] => some x
  | _ => (members.foldl (medoidStep ps members) none).map (·.1)

/-- `ufUnion`: the union by rank of `PV.UF`, plus the flag "the two roots differed" -/
def unionB (fuel : Nat) (s : PV.UF.State) (a b : Nat) : PV.UF.State × Bool :=
  let fa := PV.UF.find fuel s a
  let fb := PV.UF.find fuel fa.1 b
  (PV.UF.union fuel s a b, fa.2 != fb.2)

/-- the `find` pass of `buildClusters`, keeping the compressed state -/
def labelPassS (fuel : Nat) : PV.UF.State → List Nat → PV.UF.State × List (Nat × Nat)
  | s, [] => (s, [])
  | s, v :: vs =>
    let res := PV.UF.find fuel s v
    let rest := labelPassS fuel res.1 vs
    (rest.1, (v, res.2) :: rest.2)

/-- `buildClusters`: fragments grouped by root, roots in order of first appearance -/
def buildClusters (fuel : Nat) (s : PV.UF.State) (fragments : List Nat) : PV.UF.State × List (List Nat) :=
  let r := labelPassS fuel s fragments
  (r.1, (PV.UF.group r.2).map (·.2))

/-- the inner loop over the medoids for one fragment `f`: the most similar medoid, ties to the smaller location;
`none` is `bestMedoid == nil, bestSim = -1` -/
def bestMedoid (ps : List Pair) (medoids : List (Option Nat)) (f : Nat) : Option (Nat × Nat) :=
  medoids.foldl (fun acc m =>
    match m with
    | none => acc
    | some m =>
      if m == f then acc
      else
        let sim := simOr0 ps f m
        match acc with
        | none => some (m, sim)
        | some (b, bs) => if decide (sim > bs) || (sim == bs && decide (m < b)) then some (m, sim) else some (b, bs)) none

/-- body of `for _, f := range fragments` in step (b): anchored medoids are skipped after the first iteration; a fragment
joins its best medoid when the best similarity is positive -/
def assignStep (ps : List Pair) (fuel iter : Nat) (medoids : List (Option Nat)) (acc : PV.UF.State × Bool) (f : Nat) :
    PV.UF.State × Bool :=
  if decide (iter > 0) && medoids.contains (some f) then acc
  else
    match bestMedoid ps medoids f with
    | some (b, bs) =>
      if bs > 0 then
        let r := unionB fuel acc.1 f b
        (r.1, acc.2 || r.2)
      else acc
    | none => acc

/-- the improvement loop (`maxIterations`, `noChangeLimit = 3`); `left` counts the iterations that remain -/
def starLoop (ps : List Pair) (fuel : Nat) (medoid : List Nat → Option Nat) (fragments : List Nat) :
    Nat → Nat → PV.UF.State → List (List Nat) → Nat → List (List Nat)
  | 0, _, _, clusters, _ => clusters
  | left + 1, iter, s, clusters, streak =>
    let medoids := clusters.map medoid
    let r := fragments.foldl (assignStep ps fuel iter medoids) (s, false)
    let streak' := if r.2 then 0 else streak + 1
    let b := buildClusters fuel r.1 fragments
    if streak' ≥ 3 then b.2 else starLoop ps fuel medoid fragments left (iter + 1) b.1 b.2 streak'

/-- steps 4–5: drop the members below the threshold relative to the cluster's medoid, keep groups of ≥ 2, sort the members.
A `nil` medoid (impossible for a cluster of two or more) compares every member's similarity 0 with the threshold. -/
def starFinal (θ : Nat) (ps : List Pair) (medoid : List Nat → Option Nat) (clusters : List (List Nat)) : List (List Nat) :=
  clusters.filterMap (fun members =>
    if members.length < 2 then none
    else
      let filtered := match medoid members with
        | none => members.filter (fun _ => decide (θ ≤ 0))
        | some m => members.filter (fun f => f == m || decide (θ ≤ simOr0 ps f m))
      if filtered.length < 2 then none else some (sortNat filtered))

/-- the star/medoid mode with the medoid selection as a parameter. `fuel` bounds the depth of `find` (callers pass the
number of fragments). The final order of the groups (by the floating-point average similarity) is not modelled; the
groups are listed in cluster order. -/
def starGroupsWith (fuel θ : Nat) (ps : List Pair) (medoid : List Nat → Option Nat) : List (List Nat) :=
  let fragments := nodesOf ps
  if fragments.isEmpty then []
  else
    let b0 := buildClusters fuel PV.UF.init fragments
    starFinal θ ps medoid (starLoop ps fuel medoid fragments 10 0 b0.1 b0.2 0)

/-- the star/medoid mirror -/
def starGroupsAlgo (n θ : Nat) (ps : List Pair) : List (List Nat) := starGroupsWith n θ ps (findMedoid ps)

/-! ## complete linkage (`complete_linkage_grouping.go`) -/

/-- `clusterSim`: the minimum similarity across two clusters, capped by 1.0 (`one` on the grid); 0 as soon as one cross
pair is below the threshold, 0 for an empty product -/
def clusterSim (θ one : Nat) (ps : List Pair) (a b : List Nat) : Nat :=
  let ss := a.flatMap (fun x => b.map (fun y => simOr0 ps x y))
  if ss.any (fun s => decide (s < θ)) then 0
  else if ss.isEmpty then 0
  else ss.foldl min one

/-- the index pairs `i < j` in the order of the two nested loops -/
def indexPairs (m : Nat) : List (Nat × Nat) :=
  (List.range m).flatMap (fun i => ((List.range m).filter (fun j => decide (i < j))).map (fun j => (i, j)))

/-- "find best pair": the first pair (in loop order) with the highest score among those at or above the threshold;
`none` is `bestI = bestJ = -1, bestScore = -1` -/
def bestPair (θ one : Nat) (ps : List Pair) (clusters : List (List Nat)) : Option (Nat × Nat × Nat) :=
  (indexPairs clusters.length).foldl (fun acc ij =>
    let s := clusterSim θ one ps (clusters.getD ij.1 []) (clusters.getD ij.2 [])
    if θ ≤ s then
      match acc with
      | none => some (ij.1, ij.2, s)
      | some (_, _, bs) => if s > bs then some (ij.1, ij.2, s) else acc
    else acc) none

/-- `clusters[i] = append(clusters[i], clusters[j]...)`, then remove index `j` (for `i < j`) -/
def mergeAt : List (List Nat) → Nat → Nat → List (List Nat)
  | c :: cs, 0, j + 1 => (c ++ cs.getD j []) :: cs.eraseIdx j
  | c :: cs, i + 1, j + 1 => c :: mergeAt cs i j
  | cs, _, _ => cs

/-- the merge loop; every merge removes one cluster, so `fuel` = number of fragments is never exhausted -/
def mergeLoop (θ one : Nat) (ps : List Pair) : Nat → List (List Nat) → List (List Nat)
  | 0, clusters => clusters
  | f + 1, clusters =>
    match bestPair θ one ps clusters with
    | none => clusters
    | some (i, j, _) => mergeLoop θ one ps f (mergeAt clusters i j)

/-- the final verification `for i … for j > i …: similarity(cl[i], cl[j]) < threshold ⇒ reject` -/
def allPairsOK (θ : Nat) (ps : List Pair) : List Nat → Bool
  | [] => true
  | x :: rest => rest.all (fun y => decide (θ ≤ simOr0 ps x y)) && allPairsOK θ ps rest

/-- the complete-linkage mirror; `one` is the grid value of similarity 1.0. The final order of the groups (by the
floating-point average similarity) is not modelled; the groups are listed in cluster order. -/
def completeGroupsAlgo (θ one : Nat) (ps : List Pair) : List (List Nat) :=
  let fragments := nodesOf ps
  if fragments.length < 2 then []
  else
    (mergeLoop θ one ps fragments.length (fragments.map (fun f => [f]))).filterMap (fun cl =>
      if cl.length < 2 then none
      else if allPairsOK θ ps cl then some (sortNat cl) else none)

/-! ## centroid (`centroid_grouping.go`, reported pairs only) -/

/-- `similarityIndex[key]` exists and is at or above the threshold -/
def centroidLink (θ : Nat) (ps : List Pair) (a b : Nat) : Bool :=
  match simLast ps a b with
  | some s => decide (θ ≤ s)
  | none => false

/-- the BFS growth of one group. The map `unclassified` is represented by the list of its members in order of first
appearance (the Go code only ever ranges over `fragments` and tests membership, and takes the first member as seed).
`none` if the fuel runs out (proved impossible). -/
def centroidBFS (θ : Nat) (ps : List Pair) : Nat → List Nat → List Nat → List Nat → Option (List Nat × List Nat)
  | _, [], group, uncl => some (group, uncl)
  | 0, _ :: _, _, _ => none
  | f + 1, cur :: queue, group, uncl =>
    if group.length ≥ 50 then some (group, uncl)          -- maxGroupSize
    else
      let toAdd := uncl.filter (fun c => centroidLink θ ps cur c)
      centroidBFS θ ps f (queue ++ toAdd) (group ++ toAdd) (uncl.filter (fun c => !centroidLink θ ps cur c))

/-- `for len(unclassified) > 0`: seed = first unclassified fragment; keep groups of ≥ 2 (members in order of addition) -/
def centroidLoop (θ : Nat) (ps : List Pair) : Nat → List Nat → List (List Nat) → Option (List (List Nat))
  | _, [], groups => some groups
  | 0, _ :: _, _ => none
  | f + 1, seed :: rest, groups =>
    match centroidBFS θ ps (rest.length + 1) [seed] [seed] rest with
    | none => none
    | some (group, uncl) => centroidLoop θ ps f uncl (if group.length ≥ 2 then groups ++ [group] else groups)

/-- the centroid mirror. The final order of the groups (by a similarity recomputed from the syntax trees) is not modelled;
the groups are listed in order of creation. -/
def centroidGroupsAlgo (θ : Nat) (ps : List Pair) : Option (List (List Nat)) :=
  centroidLoop θ ps (nodesOf ps).length (nodesOf ps) []

end PV.GroupingAlgo
