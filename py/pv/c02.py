"""C02 — dead-code completeness for structurally unreachable statements (DESIGN.md §4 C02)."""
import json
import os
import random
import shutil
import tempfile

from . import common as C
from . import cfgeng, pygen
from .c01 import enum_lists, assign_ids

PID = "C02"

TERMS = {
    "return": "return 1", "raise": "raise ValueError(1)", "break": "break", "continue": "continue",
    "ifelse": "if a:\n{I}    return 1\n{I}else:\n{I}    raise ValueError(2)",
    "ifelifelse": "if a:\n{I}    return 1\n{I}elif b:\n{I}    return 2\n{I}elif c:\n{I}    raise KeyError(3)\n{I}else:\n{I}    return 4",
    # comment lines at CLAUSE indentation between the clauses (they are children of the if statement in the concrete syntax tree), blank lines, a
    # trailing comment on a clause line and a comment-only line inside a body
    "ifelifelse_comments": "if a:  # first\n{I}    return 1\n{I}# between if and elif\n{I}elif b:\n{I}    # inside\n{I}    return 2\n\n{I}# between two elifs\n{I}elif c:\n{I}    raise KeyError(3)\n{I}# before else\n{I}else:\n{I}    return 4",
    "ifelse_comment": "if a:\n{I}    return 1\n{I}# before else\n{I}else:\n{I}    raise ValueError(2)",
}
# enclosing construct: (template with {T} = terminator line(s) and {M} = marker statement, both at indent {I}), needs_loop
ENCL = {
    "plain": "{I}{T}\n{I}{M}\n",
    "if": "{I}if a:\n{I}    {T}\n{I}    {M}\n",
    "else": "{I}if a:\n{I}    pass\n{I}else:\n{I}    {T}\n{I}    {M}\n",
    "elif": "{I}if a:\n{I}    pass\n{I}elif b:\n{I}    {T}\n{I}    {M}\n",
    "for": "{I}for k in a:\n{I}    {T}\n{I}    {M}\n",
    "while": "{I}while a:\n{I}    {T}\n{I}    {M}\n",
    "loopelse": "{I}for k in a:\n{I}    pass\n{I}else:\n{I}    {T}\n{I}    {M}\n",
    "try": "{I}try:\n{I}    {T}\n{I}    {M}\n{I}except Exception:\n{I}    pass\n",
    "except": "{I}try:\n{I}    pass\n{I}except Exception:\n{I}    {T}\n{I}    {M}\n",
    "tryelse": "{I}try:\n{I}    pass\n{I}except Exception:\n{I}    pass\n{I}else:\n{I}    {T}\n{I}    {M}\n",
    "finally": "{I}try:\n{I}    pass\n{I}finally:\n{I}    {T}\n{I}    {M}\n",
    "tryfinally": "{I}try:\n{I}    {T}\n{I}    {M}\n{I}finally:\n{I}    pass\n",
    "exceptfinally": "{I}try:\n{I}    pass\n{I}except Exception:\n{I}    {T}\n{I}    {M}\n{I}finally:\n{I}    pass\n",
    "with": "{I}with a as fh:\n{I}    {T}\n{I}    {M}\n",
    "match": "{I}match a:\n{I}    case 1:\n{I}        {T}\n{I}        {M}\n{I}    case _:\n{I}        pass\n",
    "classbody": "{I}class Local:\n{I}    x = 1\n{I}    {T}\n{I}    {M}\n",
}
LOOPY = {"for", "while"}
# definition kinds: (prefix lines, indent of the body, qualified name expected in the report)
DEFS = {
    "top": ("def target(a, b, c):\n", 1, "target"),
    "async": ("async def target(a, b, c):\n", 1, "target"),
    "method": ("class Host:\n    def target(self, a, b, c):\n", 2, "Host.target"),
    "nested_in_func": ("def outer(a, b, c):\n    def target(a, b, c):\n", 2, "outer.target"),
    "nested_in_method": ("class Host:\n    def outer(self, a, b, c):\n        def target(a, b, c):\n", 3, "Host.outer.target"),
    "method_of_nested_class": ("def outer(a, b, c):\n    class Inner:\n        def target(self, a, b, c):\n", 3, "outer.Inner.target"),
    "staticmethod": ("class Host:\n    @staticmethod\n    def target(a, b, c):\n", 2, "Host.target"),
    "conditional_def": ("import sys\nif sys.argv:\n    def target(a, b, c):\n", 2, "target"),
}
DUP_DEFS = {
    # the same qualified name twice (finding F3): the FIRST definition holds the dead code
    "redefinition": ("def target(a, b, c):\n{BODY}\n\ndef target(a, b, c):\n    return a\n", 1, "target"),
    "property_setter": ("class Host:\n    @property\n    def target(self):\n{BODY}\n\n    @target.setter\n    def target(self, v):\n        self._v = v\n", 2, "Host.target"),
}


# the same qualified name twice, the dead code in the LAST definition (the one Python keeps, the one the name-keyed registry keeps too: F3 does not
# excuse these) and in a function nested in it
LAST_DEFS = {
    "redefinition_last": ("def target(a, b, c):\n    return a\n\ndef target(a, b, c):\n{BODY}\n", 1, "target"),
    "property_setter_last": ("class Host:\n    @property\n    def target(self):\n        return self._v\n\n    @target.setter\n    def target(self, v):\n{BODY}\n", 2, "Host.target"),
    "overload_impl": ("from typing import overload\n\n@overload\ndef target(a: int) -> int: ...\n@overload\ndef target(a: str) -> str: ...\ndef target(a):\n{BODY}\n", 1, "target"),
    "conditional_else_def": ("import sys\nif sys.argv:\n    def target(a, b, c):\n        return a\nelse:\n    def target(a, b, c):\n{BODY}\n", 2, "target"),
    "nested_in_redefinition": ("def target(a, b, c):\n    return a\n\ndef target(a, b, c):\n    def helper(x):\n{BODY}\n    return helper\n", 2, "target.helper"),
    "third_definition": ("def target(a):\n    return a\n\ndef target(a):\n    return a + 1\n\ndef target(a):\n{BODY}\n", 1, "target"),
}


def cell_source(dk, ek, tk):
    prefix, ind, qn = DEFS[dk]
    I = "    " * ind
    t = TERMS[tk]
    if tk in ("break", "continue") and ek not in LOOPY:
        return None
    inner_I = I + ("    " if ek != "plain" else "")
    if ek in ("match",):
        inner_I = I + "        "
    body = ENCL[ek].replace("{T}", t.replace("{I}", inner_I)).replace("{M}", "marker = 12345").replace("{I}", I)
    src = prefix + I + "a = a or 0\n" + body + I + "return a\n"
    return src, qn


def marker_line(src):
    for i, l in enumerate(src.split("\n")):
        if "marker = 12345" in l:
            return i + 1
    return None


def run(tier, seed, replay=None):
    res = C.Result(PID, tier, seed)
    rng = random.Random(seed * 1000003 + 2)
    ps = C.prove(PID)
    C.proof_coverage(res, ps, "cd /verif/lean && lake build PV.Properties.C02 && #print axioms (audit)")
    res.assumptions += [
        "`structDead` is the literal reading of the property (statements following, in the same block, a return/raise/break/continue or an "
        "if/elif/else whose branches all END with one); proved adequate and proved never to run (C02_stop_sem); the REAL report must cover each",
        "the specification is evaluated on the parser's AST (parser glue is compared with the generator's skeleton under C01)",
    ]
    mult = 1 if ps.ok else (8 if tier == "quick" else 40)
    # ---------------- bulk: generated functions, in-process ----------------------------------------------------------
    funcs = []
    for n in range(1, 4):
        for body in enum_lists(n, False, True, 2):
            f = ["def", 0, "f", json.loads(json.dumps(body))]
            assign_ids(f, [0])
            funcs.append(f)
    nrand = (600 if tier == "quick" else 6000) * mult
    for i in range(nrand):
        g = pygen.Gen(rng, max_depth=rng.choice([2, 3, 4]), max_len=rng.choice([2, 3, 4]), max_nodes=rng.choice([12, 30, 60]))
        funcs.append(g.function("f"))
    plain = [pygen.render_module([f], random.Random(seed * 7919 + i), cosmetics=(i % 2 == 0), prelude=False)[0] for i, f in enumerate(funcs)]
    an = cfgeng.analyse(plain)
    lines, where = [], []
    for si, r in enumerate(an):
        if "error" in r:
            continue
        by_span = {(f["start"], f["end"]): f for f in r["funcs"] if f["name"] != "__main__"}
        for d in cfgeng.all_defs(r["ast"]):
            if d["t"] == "ClassDef":
                continue
            lines.append(cfgeng.body_tokens("f", d["l"][0], d["l"][1], d.get("body") or []).replace("cfg ", "sdead ", 1))
            where.append((si, d, by_span.get((d["l"][0], d["l"][1]))))
    spec = C.driver_batch(lines) if (lines and os.path.exists(C.driver_path())) else None
    if spec is None:
        ps.ok = False
        ps.broken.append("driver missing")
    hist = {"definitions": 0, "struct_dead_statements": 0, "covered": 0, "cells": 0}
    nontrivial, model_diffs = set(), 0
    for si, r in enumerate(an):
        if "error" not in r and r["diffs"]:
            model_diffs += 1
            if model_diffs <= 3:
                res.violation("correspondence (CFG engine): real builder/detector vs Lean mirror differ in %s" % r["diffs"][0][0],
                              {"source": plain[si], "impl": r["diffs"][0][1], "model": r["diffs"][0][2], "correspondence": "PV.CFG.build vs analyzer.CFGBuilder"},
                              found_input=False)
    if spec is not None:
        for (si, d, fn), out in zip(where, spec):
            hist["definitions"] += 1
            spans = [int(x) for x in out.split(",") if x]
            if not spans:
                continue
            nontrivial.add((si, d["l"][0]))
            hist["struct_dead_statements"] += len(spans)
            if fn is None:
                res.violation("C02: definition %s (lines %d-%d) has structurally dead statements but no analysis result at all" % (d.get("name"), d["l"][0], d["l"][1]),
                              {"source": plain[si]})
                continue
            for s in spans:
                ok = any(x["start"] <= s <= x["end"] and x["severity"] in ("warning", "critical") for x in fn["findings"])
                if ok:
                    hist["covered"] += 1
                else:
                    res.violation("C02: the statement at line %d of %s is structurally unreachable but no finding at default severity covers it (findings: %s)"
                                  % (s, fn["name"], [(x["start"], x["end"], x["severity"]) for x in fn["findings"]][:12]), {"source": plain[si], "line": s})
    # ---------------- cell matrix at CLI level: definition kind × enclosing construct × terminator -------------------
    tmp = tempfile.mkdtemp(prefix="pv_c02_")
    try:
        proj = os.path.join(tmp, "proj")
        os.makedirs(proj)
        cells = []
        for dk in DEFS:
            for ek in ENCL:
                for tk in TERMS:
                    cs = cell_source(dk, ek, tk)
                    if cs:
                        cells.append((dk, ek, tk, cs[0], cs[1]))
        for name, (tpl, ind, qn) in DUP_DEFS.items():
            I = "    " * ind
            cells.append((name, "plain", "return", tpl.replace("{BODY}", I + "return 1\n" + I + "marker = 12345"), qn))
        for name, (tpl, ind, qn) in LAST_DEFS.items():
            I = "    " * ind
            cells.append((name, "plain", "return", tpl.replace("{BODY}", I + "return 1\n" + I + "marker = 12345"), qn))
        # a function whose NAME is the key pyscn uses for the module-level pseudo function
        cells.append(("named___main__", "plain", "return", "def __main__(a, b, c):\n    return a\n    marker = 12345\n\nprint(__main__(1, 2, 3))\n", "__main__"))
        # gap variants: more than 5 / more than 10 lines between the terminator and the dead statement
        for gap in (5, 6, 11, 25):
            src = "def target(a, b, c):\n    return a\n" + "".join("    # filler %d\n" % j for j in range(gap)) + "    marker = 12345\n"
            cells.append(("top", "gap%d" % gap, "return", src, "target"))
        for i, (dk, ek, tk, src, qn) in enumerate(cells):
            with open(os.path.join(proj, "cell_%03d.py" % i), "w") as f:
                f.write(src)
        rc, data, err = C.pyscn_json(["proj"], tmp, extra=["--select", "deadcode"])
        if data is None:
            res.violation("analyze produced no report for the cell project: " + err[-300:], {"cells": len(cells)})
        else:
            by_file = {os.path.basename(fl["file_path"]): fl for fl in (data["dead_code"]["files"] or [])}
            for i, (dk, ek, tk, src, qn) in enumerate(cells):
                hist["cells"] += 1
                ml = marker_line(src)
                fl = by_file.get("cell_%03d.py" % i)
                fns = [fn for fn in (fl["functions"] if fl else []) if fn["name"] == qn]
                hit = [x for fn in fns for x in (fn["findings"] or []) if x["location"]["start_line"] <= ml <= x["location"]["end_line"]]
                if hit:
                    continue
                sig = {"kind": "dup-qualname"} if dk in DUP_DEFS else ({"kind": "reserved-name", "name": "__main__"} if dk == "named___main__" else {"kind": "cell", "def": dk, "enclosing": ek, "terminator": tk})
                k = C.classify(PID, sig)
                what = "C02: dead statement (line %d) after `%s` inside `%s` in a %s definition is not reported for function %s (report has functions %s)" % (
                    ml, tk, ek, dk, qn, [fn["name"] for fn in (fl["functions"] if fl else [])])
                if k:
                    res.known_finding(k, "(%s)" % dk)
                else:
                    res.violation(what, {"signature": sig, "source": src, "qualname": qn, "marker_line": ml})
    finally:
        shutil.rmtree(tmp, ignore_errors=True)
    if not ps.ok and not any(fi for _, _, fi in res.violations):
        res.violation("proof obligation or tie broken: " + "; ".join(ps.broken)[:1500],
                      {"broken": ps.broken, "note": "no structurally dead statement missed by the real report was found in %d definitions + %d cells" % (hist["definitions"], hist["cells"])},
                      found_input=False)
    res.coverage.update({
        "evaluations": hist["definitions"] + hist["cells"],
        "distinct_nontrivial": len(nontrivial) + hist["cells"],
        "rule": "in process: all function skeletons with ≤3 nodes + random skeletons (depth ≤4, ≤60 nodes), every def of every generated module; "
                "CLI: the full matrix definition kind (%d) × enclosing construct (%d) × terminator (%d, incl. exhaustive if/else and if/elif/elif/else) "
                "+ duplicate qualified names (dead code in the first / in the last definition, overload stubs, nested in a redefinition) + gaps of 5/6/11/25 lines; non-trivial = definition with ≥1 structurally dead statement" % (len(DEFS), len(ENCL), len(TERMS)),
        "exhaustive": True,
        "exhaustive_note": "the cell matrix is run completely on every run; skeletons complete for ≤3 nodes",
        "samples": [{"cell": list(cells[7][:3]), "source": cells[7][3]}],
        "traces_validated_against_impl": len(funcs) - model_diffs,
        "distribution": hist,
        "whole_graph_comparisons": dict(cfgeng.GRAPH_STATS),
    })
    return res.finish("proof")
