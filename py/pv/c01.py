"""C01 — dead-code soundness (DESIGN.md §4 C01, revised architecture: verified `live` over-approximation)."""
import json
import os
import random
import subprocess
import sys

from . import common as C
from . import cfgeng, pygen

PID = "C01"

AST_KIND = {"s": None, "comp": None, "ret": "Return", "brk": "Break", "cont": "Continue", "raise": "Raise", "if": "If", "for": "For", "while": "While",
            "try": "Try", "with": "With", "match": "Match", "def": "FunctionDef", "class": "ClassDef"}


def enum_lists(n, in_loop, in_func, depth):
    """all statement lists with exactly n nodes (ids are assigned later)"""
    if n == 0:
        yield []
        return
    for k in range(1, n + 1):
        for first in enum_stmt(k, in_loop, in_func, depth):
            for rest in enum_lists(n - k, in_loop, in_func, depth):
                yield [first] + rest


def enum_stmt(n, in_loop, in_func, depth):
    if n == 1:
        yield ["s", 0]
        if in_func:
            yield ["ret", 0]
        yield ["raise", 0]
        if in_loop:
            yield ["brk", 0]
            yield ["cont", 0]
        return
    if depth <= 0:
        return
    m = n - 1
    # if / if-else
    for a in range(1, m + 1):
        for thn in enum_lists(a, in_loop, in_func, depth - 1):
            if a == m:
                yield ["if", 0, thn, None]
            else:
                for els in enum_lists(m - a, in_loop, in_func, depth - 1):
                    yield ["if", 0, thn, ["else", els]]
    # loops (while), with optional else
    for a in range(1, m + 1):
        for body in enum_lists(a, True, in_func, depth - 1):
            if a == m:
                yield ["while", 0, body, None]
            else:
                for els in enum_lists(m - a, in_loop, in_func, depth - 1):
                    yield ["while", 0, body, els]
    # with
    for body in enum_lists(m, in_loop, in_func, depth - 1):
        yield ["with", 0, body]
    # try/finally, try/except(1 handler; the handler node counts as one), try/except/finally
    for a in range(1, m):
        for body in enum_lists(a, in_loop, in_func, depth - 1):
            for fin in enum_lists(m - a, in_loop, in_func, depth - 1):
                yield ["try", 0, body, [], None, fin]
    if m >= 3:
        for a in range(1, m - 1):
            for body in enum_lists(a, in_loop, in_func, depth - 1):
                for hb in enum_lists(m - 1 - a, in_loop, in_func, depth - 1):
                    yield ["try", 0, body, [[0, hb]], None, None]


def directed_jump_skeletons():
    """WHERE a jump sits relative to the loops around it: outer loop (for/while, with/without an else that leaves the function) whose body holds an inner
    construct with a break/continue/return/raise in each of its slots — in particular the `else` of an inner loop (the jump then belongs to the OUTER loop),
    handlers, `finally`, `with` and `match` bodies — followed by a statement after the outer loop; also the same one level deeper."""
    S = lambda: ["s", 0]
    out = []
    for jump in ("brk", "cont", "ret", "raise"):
        J = lambda: [jump, 0]
        inners = {
            "loop_else": lambda k: [k, 0, [S()], [J()]],
            "loop_body_and_else": lambda k: [k, 0, [["if", 0, [["brk", 0]], None]], [J()]],
            "loop_else_if": lambda k: [k, 0, [S()], [["if", 0, [J()], None], S()]],
            "try_handler": lambda k: ["try", 0, [S()], [[0, [J()]]], None, None],
            "try_else": lambda k: ["try", 0, [S()], [[0, [S()]]], [J()], None],
            "try_finally": lambda k: ["try", 0, [S()], [], None, [J()]],
            "try_body_finally": lambda k: ["try", 0, [J()], [], None, [S()]],
            "try_handler_finally": lambda k: ["try", 0, [S()], [[0, [J()]]], None, [S()]],
            "with_body": lambda k: ["with", 0, [J()]],
            "match_case": lambda k: ["match", 0, [[0, [S()]], [0, [J()]]]],
            "if_else": lambda k: ["if", 0, [S()], ["else", [J()]]],
            "elif3": lambda k: ["if", 0, [S()], ["elif", ["if", 0, [S()], ["elif", ["if", 0, [J()], None]]]]],
            "loop_else_in_try_finally": lambda k: ["try", 0, [[k, 0, [S()], [J()]]], [], None, [S()]],
            "try_finally_in_loop_else": lambda k: [k, 0, [S()], [["try", 0, [J()], [], None, [S()]]]],
        }
        for outer in ("for", "while"):
            for oelse in (None, "ret", "raise", "s"):
                for iname, mk in inners.items():
                    for ik in (("for", "while") if "loop" in iname else ("for",)):
                        inner = mk(ik)
                        oe = None if oelse is None else [[oelse, 0]]
                        body = [[outer, 0, [S(), inner], oe], S(), ["ret", 0]]
                        out.append(["def", 0, "f", json.loads(json.dumps(body))])
                        if oelse in (None, "ret"):
                            # one level deeper: the whole thing inside another loop that has its own terminating else
                            deep = [["while", 0, [[outer, 0, [inner], oe], S()], [["ret", 0]]], S()]
                            out.append(["def", 0, "f", json.loads(json.dumps(deep))])
    return out


def assign_ids(node, counter):
    counter[0] += 1
    node[1] = counter[0]
    k = node[0]
    subs = []
    if k == "if":
        subs.append(node[2])
        if node[3]:
            if node[3][0] == "elif":
                assign_ids(node[3][1], counter)
            else:
                subs.append(node[3][1])
    elif k in ("for", "while"):
        subs.append(node[2])
        if node[3]:
            subs.append(node[3])
    elif k == "try":
        subs.append(node[2])
        for h in node[3]:
            counter[0] += 1
            h[0] = counter[0]
            subs.append(h[1])
        if node[4]:
            subs.append(node[4])
        if node[5]:
            subs.append(node[5])
    elif k == "with":
        subs.append(node[2])
    elif k == "match":
        for c in node[2]:
            counter[0] += 1
            c[0] = counter[0]
            subs.append(c[1])
    elif k in ("def", "class"):
        subs.append(node[3])
    for b in subs:
        for s in b:
            assign_ids(s, counter)


def glue_mismatch(fdef, ast_fn, loc):
    """compare the generator's skeleton of one function with the parser's AST (kinds and line spans)"""
    problems = []

    def stmts(gen_list, ast_list, where):
        if len(gen_list) != len(ast_list or []):
            problems.append("%s: %d statements in the source, %d in the AST" % (where, len(gen_list), len(ast_list or [])))
            return
        for g, a in zip(gen_list, ast_list or []):
            node(g, a)

    def node(g, a):
        k, i = g[0], g[1]
        want = AST_KIND[k]
        if want and a["t"] != want and not (k == "def" and a["t"] == "AsyncFunctionDef"):
            problems.append("id %d: source %s, AST %s" % (i, k, a["t"]))
            return
        if tuple(a["l"]) != tuple(loc[i]):
            problems.append("id %d (%s): source lines %s, AST lines %s" % (i, k, loc[i], a["l"]))
        if k == "if":
            stmts(g[2], a.get("body"), "if %d body" % i)
            o = g[3]
            ao = a.get("orelse") or []
            if o is None:
                if ao:
                    problems.append("if %d: AST has an orelse the source lacks" % i)
            elif o[0] == "elif":
                if len(ao) != 1 or ao[0]["t"] != "elif_clause":
                    problems.append("if %d: elif clause missing in the AST" % i)
                else:
                    elif_node(o[1], ao[0])
            else:
                if len(ao) != 1 or ao[0]["t"] != "else_clause":
                    problems.append("if %d: else clause missing in the AST" % i)
                else:
                    stmts(o[1], ao[0].get("body"), "if %d else" % i)
        elif k in ("for", "while"):
            stmts(g[2], a.get("body"), "loop %d body" % i)
            ao = a.get("orelse") or []
            if g[3] is None:
                if ao:
                    problems.append("loop %d: AST has an else the source lacks" % i)
            elif len(ao) != 1 or ao[0]["t"] != "else_clause":
                problems.append("loop %d: else clause missing in the AST" % i)
            else:
                stmts(g[3], ao[0].get("body"), "loop %d else" % i)
        elif k == "try":
            stmts(g[2], a.get("body"), "try %d body" % i)
            hs = a.get("handlers") or []
            if len(hs) != len(g[3]):
                problems.append("try %d: %d handlers in the source, %d in the AST" % (i, len(g[3]), len(hs)))
            else:
                for (hid, hb), ah in zip(g[3], hs):
                    if tuple(ah["l"]) != tuple(loc[hid]):
                        problems.append("handler %d: lines %s vs %s" % (hid, loc[hid], ah["l"]))
                    stmts(hb, ah.get("body"), "handler %d" % hid)
            stmts(g[4] or [], a.get("orelse"), "try %d else" % i)
            stmts(g[5] or [], a.get("finalbody"), "try %d finally" % i)
        elif k == "with":
            stmts(g[2], a.get("body"), "with %d" % i)
        elif k == "match":
            cs = a.get("body") or []
            if len(cs) != len(g[2]):
                problems.append("match %d: %d cases vs %d" % (i, len(g[2]), len(cs)))
            else:
                for (cid, cb), ac in zip(g[2], cs):
                    stmts(cb, ac.get("body"), "case %d" % cid)
        elif k in ("def", "class"):
            stmts(g[3], a.get("body"), "%s %d" % (k, i))

    def elif_node(g, a):
        i = g[1]
        stmts(g[2], a.get("body"), "elif %d body" % i)
        o = g[3]
        ao = a.get("orelse") or []
        if o is None:
            if ao:
                problems.append("elif %d: AST has an orelse the source lacks" % i)
        elif o[0] == "elif":
            if len(ao) != 1 or ao[0]["t"] != "elif_clause":
                problems.append("elif %d: next elif clause missing in the AST" % i)
            else:
                elif_node(o[1], ao[0])
        else:
            if len(ao) != 1 or ao[0]["t"] != "else_clause":
                problems.append("elif %d: else clause missing in the AST" % i)
            else:
                stmts(o[1], ao[0].get("body"), "elif %d else" % i)

    node(fdef, ast_fn)
    return problems


def run_cpython(cases, timeout=600):
    p = subprocess.run([sys.executable, "-c", pygen.RUNNER], input=json.dumps(cases), text=True, capture_output=True, timeout=timeout)
    if p.returncode != 0:
        raise RuntimeError("CPython runner failed: " + p.stderr[-2000:])
    return json.loads(p.stdout)


def own_lines(fdef, loc):
    """start lines of the statements that belong to THIS function (nested defs contribute their header only), by id"""
    out = {}

    def rec(stmts):
        for s in stmts:
            for n in pygen.walk(s):
                if n is not s and s[0] == "def":
                    continue
                out[n[1]] = loc[n[1]][0]
    # walk() descends into nested defs; restrict manually
    def rec2(stmts):
        for s in stmts:
            out[s[1]] = loc[s[1]][0]
            k = s[0]
            if k == "def":
                continue
            if k == "if":
                rec2(s[2])
                o = s[3]
                while o is not None:
                    if o[0] == "elif":
                        out[o[1][1]] = loc[o[1][1]][0]
                        rec2(o[1][2])
                        o = o[1][3]
                    else:
                        rec2(o[1])
                        o = None
            elif k in ("for", "while"):
                rec2(s[2])
                if s[3]:
                    rec2(s[3])
            elif k == "try":
                rec2(s[2])
                for hid, hb in s[3]:
                    out[hid] = loc[hid][0]
                    rec2(hb)
                if s[4]:
                    rec2(s[4])
                if s[5]:
                    rec2(s[5])
            elif k == "with":
                rec2(s[2])
            elif k == "match":
                for cid, cb in s[2]:
                    out[cid] = loc[cid][0]
                    rec2(cb)
            elif k == "class":
                rec2(s[3])
    rec2(fdef[3])
    return out


F17_SRC = "def semi(x):\n    x = x + 1\n    return 1; y = 2\n"


def run(tier, seed, replay=None):
    res = C.Result(PID, tier, seed)
    rng = random.Random(seed * 1000003 + 1)
    ps = C.prove(PID)
    C.proof_coverage(res, ps, "cd /verif/lean && lake build PV.Properties.C01 && #print axioms (audit)")
    res.assumptions += [
        "CPython's semantics of the fragment is modelled by the nondeterministic big-step relation PV.Py.Exec (validated on every run: the lines "
        "CPython executes under scripted conditions/raises must lie in the proved over-approximation `live`)",
        "the quantifier over EXECUTIONS is discharged by the theorem C01_live_sound; the quantifier over PROGRAMS by generation (all skeletons up to a "
        "node bound + random): for each generated function, no line of `live` may lie in a range the real pyscn reports dead",
        "one statement per line (two statements on one line: finding F17, run as a fixed case)",
        "expression-level control flow, generators' suspension, async scheduling are not modelled (they do not create statements in blocks)",
    ]
    mult = 1 if ps.ok else (8 if tier == "quick" else 40)
    funcs = []      # generator skeletons of top-level functions
    nmax = 3 if tier == "quick" else 4
    exhaustive = []
    for n in range(1, nmax + 1):
        for body in enum_lists(n, False, True, 2):
            exhaustive.append(["def", 0, "f", json.loads(json.dumps(body))])
    if tier == "quick" and ps.ok:
        # every skeleton with ≤3 nodes, plus a sample of the 4-node ones
        four = [["def", 0, "f", json.loads(json.dumps(b))] for b in enum_lists(4, False, True, 2)]
        rng.shuffle(four)
        exhaustive += four[:1500]
    exhaustive += directed_jump_skeletons()
    for f in exhaustive:
        assign_ids(f, [0])
    funcs += exhaustive
    nrand = (700 if tier == "quick" else 8000) * mult
    for i in range(nrand):
        g = pygen.Gen(rng, max_depth=rng.choice([2, 3, 4]), max_len=rng.choice([2, 3, 4]), max_nodes=rng.choice([12, 30, 60]),
                      weights={"try": 5, "for": 3, "while": 3})
        funcs.append(g.function("f"))
    if replay:
        rp = json.load(open(replay))["replay"]
        if "skeleton" in rp:
            funcs.insert(0, rp["skeleton"])
    # render
    plain, locs, instr = [], [], []
    for i, f in enumerate(funcs):
        src, loc = pygen.render_module([f], random.Random(seed * 7919 + i), cosmetics=(i % 2 == 0), prelude=False)
        plain.append(src)
        locs.append(loc)
        instr.append({"src": pygen.render_instrumented(f), "entry": f[2], "nscripts": 40 if tier == "quick" else 150, "seed": seed * 31 + i})
    # implementation + builder model
    an = cfgeng.analyse(plain)
    # live (Lean, proved over-approximation) per function CFG
    lines, where = [], []
    for si, r in enumerate(an):
        if "error" in r:
            continue
        defs = {(d["l"][0], d["l"][1]): d for d in cfgeng.all_defs(r["ast"]) if d["t"] != "ClassDef"}
        for f in r["funcs"]:
            if f["name"] == "__main__":
                continue
            d = defs.get((f["start"], f["end"]))
            if d is not None:
                lines.append(cfgeng.body_tokens("f", d["l"][0], d["l"][1], d.get("body") or []).replace("cfg ", "live ", 1))
                where.append((si, f["name"]))
    live_out = C.driver_batch(lines) if (lines and os.path.exists(C.driver_path())) else None
    if live_out is None:
        ps.ok = False
        ps.broken.append("driver missing")
    live = {}
    # how many of the checked function bodies satisfy the hypothesis of the mirror-soundness theorems (C01_mirror_sound_notry / C01_mirror_sound)
    frag = {"functions": 0, "in_S2_fragment_no_try": 0, "in_S3_fragment_with_try": 0}
    if live_out:
        for (si, name), o in zip(where, live_out):
            ls = o.split("|")[0]
            live[(si, name)] = set(int(x) for x in ls.split(",") if x)
            parts = o.split("|")
            if len(parts) >= 4:
                frag["functions"] += 1
                frag["in_S2_fragment_no_try"] += parts[2] == "1"
                frag["in_S3_fragment_with_try"] += parts[3] == "1"
                if len(parts) >= 6:
                    frag["range_theorem_fragment_okRE"] = frag.get("range_theorem_fragment_okRE", 0) + (parts[4] == "1")
                    frag["range_theorem_WFLoc"] = frag.get("range_theorem_WFLoc", 0) + (parts[5] == "1")
                    frag["range_theorem_applies"] = frag.get("range_theorem_applies", 0) + (parts[4] == "1" and parts[5] == "1")
    exec_out = run_cpython(instr)
    nviol_pairs, model_diffs, glue_bad, cpy_not_in_live = 0, 0, 0, 0
    hist = {"functions": 0, "with_findings": 0, "live_lines": 0, "cpython_executed_ids": 0, "constructs": {}}
    nontrivial = set()
    for si, (f, r) in enumerate(zip(funcs, an)):
        info = {"skeleton": f, "source": plain[si]}
        if "error" in r:
            res.violation("generated program rejected by the parser: %s" % r["error"], info)
            continue
        for n in pygen.walk(f):
            hist["constructs"][n[0]] = hist["constructs"].get(n[0], 0) + 1
        # builder model correspondence (shared CFG engine)
        if r["diffs"]:
            model_diffs += 1
            if model_diffs <= 3:
                res.violation("correspondence (CFG engine): real builder/detector `%s` vs Lean mirror `%s` in %s" % (r["diffs"][0][1][:200], r["diffs"][0][2][:200], r["diffs"][0][0]),
                              dict(info, correspondence="PV.CFG.build vs analyzer.CFGBuilder"), found_input=False)
        # parser glue
        top = [d for d in (r["ast"].get("body") or []) if d["t"] in ("FunctionDef", "AsyncFunctionDef") and d.get("name") == f[2]]
        if not top:
            res.violation("function %s missing from the parser's AST" % f[2], info)
            continue
        probs = glue_mismatch(f, top[0], locs[si])
        if probs:
            glue_bad += 1
            if glue_bad <= 3:
                res.violation("parser glue: the AST differs from the source: " + "; ".join(probs[:3]), info)
        for fn in r["funcs"]:
            if fn["name"] == "__main__":
                continue
            hist["functions"] += 1
            if fn["findings"]:
                hist["with_findings"] += 1
                nontrivial.add(si)
            lv = live.get((si, fn["name"]), set())
            hist["live_lines"] += len(lv)
            for x in fn["findings"]:
                bad = [l for l in lv if x["start"] <= l <= x["end"]]
                if bad:
                    nviol_pairs += 1
                    res.violation("C01: pyscn reports lines %d-%d of %s dead (%s) but line %d can execute (it is in the proved over-approximation of "
                                  "the executable lines)" % (x["start"], x["end"], fn["name"], x["severity"], bad[0]), dict(info, finding=x, live_line=bad[0]))
        # CPython: executed ⊆ live, executed ∩ dead = ∅
        ex = exec_out[si]
        if "syntax_error" in ex:
            res.notes.append("CPython rejected an instrumented program: " + ex["syntax_error"])
            continue
        own = own_lines(f, locs[si])
        hist["cpython_executed_ids"] += len(ex["seen"])
        topfn = [fn for fn in r["funcs"] if fn["name"] == f[2]]
        lv = live.get((si, f[2]), set())
        for i in ex["seen"]:
            if i not in own:
                continue
            ln = own[i]
            if live_out and ln not in lv:
                cpy_not_in_live += 1
                res.violation("semantics validation: CPython executes statement %d (line %d) but the Lean over-approximation `live` excludes it" % (i, ln),
                              dict(info, correspondence="PV.Py.Exec/live vs CPython", executed_id=i), found_input=False)
            for fn in topfn:
                for x in fn["findings"]:
                    if x["start"] <= ln <= x["end"]:
                        res.violation("C01: CPython executes line %d of %s, which pyscn reports dead (%d-%d, %s)" % (ln, fn["name"], x["start"], x["end"], x["severity"]),
                                      dict(info, finding=x, executed_line=ln, instrumented=instr[si]["src"]))
    # F17: two statements on one line
    r17 = C.harness_batch("cfg", [{"Src": F17_SRC, "Path": "semi.py", "Graph": False, "AST": False}])[0]
    flagged = [x for fn in r17.get("funcs", []) for x in fn["findings"] if x["start"] <= 3 <= x["end"]]
    if flagged:
        k = C.classify(PID, {"kind": "same-line"})
        if k:
            res.known_finding(k, "(`return 1; y = 2`: line 3 flagged %s although `return 1` on it executes)" % flagged[0]["severity"])
        else:
            res.violation("C01: `return 1; y = 2` on one line: the line is reported dead although `return 1` executes", {"signature": {"kind": "same-line"}, "source": F17_SRC})
    if not ps.ok and not any(fi for _, _, fi in res.violations):
        res.violation("proof obligation or tie broken: " + "; ".join(ps.broken)[:1500],
                      {"broken": ps.broken, "note": "no function on which pyscn flags an executable line was found in %d functions" % len(funcs)}, found_input=False)
    res.coverage.update({
        "evaluations": len(funcs),
        "distinct_nontrivial": len(nontrivial),
        "rule": "all function skeletons with ≤%d nodes over {simple, return, raise, break, continue, if/else, while/else, with, try/finally, try/except} "
                "(+ sampled 4-node ones in quick), the directed jump matrix (break/continue/return/raise in every slot of a construct nested in a loop — inner loop else, handlers, "
                "finally, with, match, 3rd elif — x outer for/while x outer else that leaves or not, also one level deeper), random skeletons to depth 4 / 60 nodes over all constructs incl. elif chains, for, match, nested def/class, "
                "comprehensions; each rendered with/without cosmetic noise; each run under %d scripted CPython executions; non-trivial = function with ≥1 finding" % (nmax, instr[0]["nscripts"]),
        "exhaustive": True,
        "exhaustive_note": "complete for skeletons with ≤%d nodes over the listed constructs (nesting depth ≤2); sampled beyond" % nmax,
        "samples": [{"source": plain[len(exhaustive)], "findings": [fn["findings"] for fn in an[len(exhaustive)].get("funcs", [])]}],
        "traces_validated_against_impl": len(funcs) - model_diffs,
        "cfg_model_diffs": model_diffs, "parser_glue_mismatches": glue_bad, "cpython_outside_live": cpy_not_in_live, "flagged_live_lines": nviol_pairs,
        "distribution": hist,
        "mirror_theorem_fragment": frag,
        "whole_graph_comparisons": dict(cfgeng.GRAPH_STATS),
    })
    return res.finish("proof")
