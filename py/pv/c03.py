"""C03 — cyclomatic complexity = 1 + McCabe decision count; risk level by thresholds (DESIGN.md §4 C03)."""
import json
import os
import random
import shutil
import tempfile

from . import common as C
from . import cfgeng, pygen
from .c01 import assign_ids

PID = "C03"
FRAGMENT = ["s", "ret", "brk", "cont", "if", "for", "while", "try", "comp", "def", "class"]


def func_with_complexity(name, k):
    lines = ["def %s(a):" % name, "    t = 0"]
    for i in range(k - 1):
        lines += ["    if a > %d:" % i, "        t += %d" % (i + 1)]
    lines.append("    return t")
    return "\n".join(lines) + "\n"


def run(tier, seed, replay=None):
    res = C.Result(PID, tier, seed)
    rng = random.Random(seed * 1000003 + 3)
    ps = C.prove(PID)
    C.proof_coverage(res, ps, "cd /verif/lean && lake build PV.Properties.C03 && #print axioms (audit)")
    res.assumptions += [
        "the specification `mccabe` is evaluated on the parser's AST with pyscn's OWN reported dead ranges as the dead-line set (the property says "
        "`code that pyscn itself reports as dead`); the real complexity must equal it on the property's fragment",
        "fragment = if/elif/else, for/while(+else), break/continue/return, try/except/else (no finally), statement-level comprehensions, nested def/class; "
        "raise, with, match and finally are outside the property's list and are not generated here",
    ]
    mult = 1 if ps.ok else (8 if tier == "quick" else 40)
    funcs = []
    nrand = (900 if tier == "quick" else 9000) * mult
    for i in range(nrand):
        g = pygen.Gen(rng, max_depth=rng.choice([1, 2, 3, 4]), max_len=rng.choice([1, 2, 3, 4]), max_nodes=rng.choice([8, 25, 60]), allow=FRAGMENT,
                      weights={"if": 5, "for": 3, "while": 3, "try": 3})
        g.no_finally = True
        funcs.append(g.function("f"))
    if replay:
        rp = json.load(open(replay))["replay"]
        if "skeleton" in rp:
            funcs.insert(0, rp["skeleton"])
    # three renderings per skeleton: plain, cosmetic noise, cosmetic noise + unrelated definitions around it
    srcs, owner = [], []
    for i, f in enumerate(funcs):
        srcs.append(pygen.render_module([f], random.Random(1), cosmetics=False, prelude=False)[0])
        owner.append((i, 0))
        srcs.append(pygen.render_module([f], random.Random(seed * 7919 + i), cosmetics=True, prelude=False)[0])
        owner.append((i, 1))
        g2 = pygen.Gen(random.Random(seed + i), max_depth=2, max_len=3, max_nodes=15, allow=FRAGMENT)
        g2.next_id = 100000
        other1, other2 = g2.function("unrelated_a"), g2.function("unrelated_b")
        srcs.append(pygen.render_module([other1, f, other2], random.Random(seed * 31 + i), cosmetics=True, prelude=True)[0])
        owner.append((i, 2))
    an = cfgeng.analyse(srcs)
    lines, where = [], []
    for si, r in enumerate(an):
        if "error" in r:
            continue
        defs = {(d["l"][0], d["l"][1]): d for d in cfgeng.all_defs(r["ast"]) if d["t"] != "ClassDef"}
        for fn in r["funcs"]:
            if fn["name"] == "__main__":
                continue
            d = defs.get((fn["start"], fn["end"]))
            if d is None:
                continue
            dead = ";".join("%d-%d" % (x["start"], x["end"]) for x in fn["findings"]) or "-"
            lines.append(cfgeng.body_tokens("f", d["l"][0], d["l"][1], d.get("body") or []).replace("cfg ", "mccabe %s " % dead, 1))
            where.append((si, fn))
    spec = C.driver_batch(lines) if (lines and os.path.exists(C.driver_path())) else None
    if spec is None:
        ps.ok = False
        ps.broken.append("driver missing")
    hist = {"functions": 0, "by_complexity": {}, "with_dead_code": 0, "risk_cells": 0}
    nontrivial, model_diffs = set(), 0
    per_skel = {}
    for si, r in enumerate(an):
        if "error" in r:
            res.violation("generated program rejected by the parser: %s" % r["error"], {"source": srcs[si]})
            continue
        if r["diffs"]:
            model_diffs += 1
            if model_diffs <= 3:
                res.violation("correspondence (CFG engine): real builder/complexity vs Lean mirror differ in %s" % r["diffs"][0][0],
                              {"source": srcs[si], "impl": r["diffs"][0][1], "model": r["diffs"][0][2], "correspondence": "PV.CFG.build vs analyzer.CFGBuilder"},
                              found_input=False)
    if spec is not None:
        for (si, fn), out in zip(where, spec):
            hist["functions"] += 1
            want = int(out)
            b = str(min(want, 20))
            hist["by_complexity"][b] = hist["by_complexity"].get(b, 0) + 1
            if fn["findings"]:
                hist["with_dead_code"] += 1
            if want > 1:
                nontrivial.add((si, fn["name"]))
            if fn["complexity"] != want:
                res.violation("C03: %s has complexity %d, 1 + decision count is %d (decisions on lines pyscn reports dead not counted)" % (fn["name"], fn["complexity"], want),
                              {"skeleton": funcs[owner[si][0]], "source": srcs[si], "function": fn["name"], "reported": fn["complexity"], "expected": want})
            i, variant = owner[si]
            if fn["name"] == "f" or fn["name"].startswith("f."):
                per_skel.setdefault((i, fn["name"]), {})[variant] = fn["complexity"]
    for (i, name), vs in per_skel.items():
        if len(set(vs.values())) > 1:
            res.violation("C03 independence: %s of one skeleton gets complexities %s under (plain, cosmetic noise, noise + unrelated definitions)" % (name, vs),
                          {"skeleton": funcs[i], "sources": [srcs[3 * i + k] for k in range(3)]})
    # ---------------- risk level vs configured thresholds, real CLI ---------------------------------------------------------
    tmp = tempfile.mkdtemp(prefix="pv_c03_")
    try:
        pairs = [(9, 19), (1, 2), (3, 4), (5, 12), (2, 30)] + [(lo, lo + rng.randint(1, 9)) for lo in (rng.randint(1, 12) for _ in range(3 if tier == "quick" else 12))]
        for pi, (lo, med) in enumerate(pairs):
            root = os.path.join(tmp, "r%d" % pi)
            proj = os.path.join(root, "proj")
            os.makedirs(proj)
            ks = sorted(set(k for k in (1, lo - 1, lo, lo + 1, med - 1, med, med + 1, med + 5) if k >= 1))
            with open(os.path.join(proj, "m.py"), "w") as f:
                for k in ks:
                    f.write(func_with_complexity("cx_%d" % k, k) + "\n\n")
            with open(os.path.join(root, "cfg.toml"), "w") as f:
                f.write("[complexity]\nlow_threshold = %d\nmedium_threshold = %d\n" % (lo, med))
            rc, data, err = C.pyscn_json(["proj"], root, extra=["--select", "complexity", "--min-complexity", "1", "--config", os.path.join(root, "cfg.toml")])
            if data is None:
                res.violation("analyze produced no report with thresholds (%d,%d): %s" % (lo, med, err[-300:]), {"low": lo, "medium": med})
                continue
            for f in data["complexity"]["Functions"] or []:
                k = f["Metrics"]["Complexity"]
                want = "low" if k <= lo else "medium" if k <= med else "high"
                hist["risk_cells"] += 1
                if f["Name"] == "__main__":
                    continue
                if f["RiskLevel"] != want or ("cx_%d" % k) != f["Name"]:
                    res.violation("C03 risk: %s complexity %d with thresholds low=%d medium=%d is reported `%s`, expected `%s`" % (f["Name"], k, lo, med, f["RiskLevel"], want),
                                  {"low": lo, "medium": med, "function": f["Name"], "complexity": k, "risk": f["RiskLevel"]})
    finally:
        shutil.rmtree(tmp, ignore_errors=True)
    if not ps.ok and not any(fi for _, _, fi in res.violations):
        res.violation("proof obligation or tie broken: " + "; ".join(ps.broken)[:1500],
                      {"broken": ps.broken, "note": "no function whose reported complexity/risk violates C03 was found in %d functions" % hist["functions"]}, found_input=False)
    res.coverage.update({
        "evaluations": hist["functions"] + hist["risk_cells"],
        "distinct_nontrivial": len(nontrivial),
        "rule": "random skeletons over the property's fragment (depth ≤4, ≤60 nodes, elif chains, loops with else, handlers, comprehensions with 1-2 for "
                "clauses and filters, nested defs/classes), each rendered three ways (plain / cosmetic noise / noise + unrelated definitions); risk: "
                "functions of complexity lo-1..med+5 under %d threshold pairs through the real CLI; non-trivial = function with complexity > 1" % len(pairs),
        "samples": [{"source": srcs[1], "reported": [(fn["name"], fn["complexity"]) for fn in an[1].get("funcs", [])]}],
        "traces_validated_against_impl": len(srcs) - model_diffs,
        "distribution": hist,
    })
    return res.finish("proof")
