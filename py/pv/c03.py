"""C03 — cyclomatic complexity = 1 + McCabe decision count; risk level by thresholds (DESIGN.md §4 C03)."""
import json
import os
import random
import shutil
import tempfile

from . import common as C
from . import cfgeng, pygen
from .c01 import assign_ids

PID = "C03"
FRAGMENT = ["s", "ret", "brk", "cont", "if", "for", "while", "try", "comp", "def", "class"]


def func_with_complexity(name, k):
    lines = ["def %s(a):" % name, "    t = 0"]
    for i in range(k - 1):
        lines += ["    if a > %d:" % i, "        t += %d" % (i + 1)]
    lines.append("    return t")
    return "\n".join(lines) + "\n"


def py_mccabe(src):
    """{(name, first line of the def): f(dead ranges) -> McCabe count by the property's definition} computed from CPython's OWN parse of the source — an oracle
    that does not go through pyscn's parser: if / elif tests, for / while loops, except handlers, and the for / if clauses of statement-level comprehensions
    (the value of an assignment, return or expression statement, with or without redundant parentheses); nested defs count for themselves, a nested class body runs inline."""
    import ast
    tree = ast.parse(src)
    out = {}

    def count(fn, dead):
        n = 1

        def isdead(node):
            return any(a <= node.lineno <= b for a, b in dead)

        def comps(v):
            k = 0
            if isinstance(v, (ast.ListComp, ast.SetComp, ast.DictComp, ast.GeneratorExp)):
                for g in v.generators:
                    k += 1 + len(g.ifs)
            return k

        def walk(stmts):
            nonlocal n
            for st in stmts:
                if isinstance(st, (ast.FunctionDef, ast.AsyncFunctionDef)):
                    continue
                if isdead(st):
                    continue
                if isinstance(st, ast.ClassDef):
                    walk(st.body)          # a class body runs inline, as part of the enclosing function (its methods count for themselves)
                    continue
                if isinstance(st, ast.If):
                    n += 1
                    walk(st.body)
                    walk(st.orelse)
                elif isinstance(st, (ast.For, ast.AsyncFor, ast.While)):
                    n += 1
                    walk(st.body)
                    walk(st.orelse)
                elif isinstance(st, (ast.Try, getattr(ast, "TryStar", ast.Try))):
                    walk(st.body)
                    for h in st.handlers:
                        if not isdead(h):
                            n += 1
                            walk(h.body)
                    walk(st.orelse)
                    walk(st.finalbody)
                elif isinstance(st, (ast.With, ast.AsyncWith)):
                    walk(st.body)
                elif isinstance(st, (ast.Assign, ast.AnnAssign, ast.AugAssign, ast.Return, ast.Expr)):
                    if getattr(st, "value", None) is not None:
                        n += comps(st.value)
        walk(fn.body)
        return n
    for node in ast.walk(tree):
        if isinstance(node, (ast.FunctionDef, ast.AsyncFunctionDef)):
            out[(node.name, node.lineno)] = (lambda dead, fn=node: count(fn, dead))
    return out


# comprehension / layout shapes outside the skeleton generator: (tag, source of function `f`, expected complexity)
COMP_SHAPES = [
    ("comp/one_for_one_if", "def f(xs):\n    y = [x for x in xs if x]\n    return y\n", 3),
    ("comp/two_ifs_on_one_for", "def f(xs, p, q):\n    y = [x for x in xs if p if q]\n    return y\n", 4),
    ("comp/three_ifs_on_one_for", "def f(xs, p, q, r):\n    y = [x for x in xs if p if q if r]\n    return y\n", 5),
    ("comp/two_fors_ifs_on_each", "def f(xs, ys):\n    y = {x: z for x in xs if x for z in ys if z}\n    return y\n", 5),
    ("comp/parenthesised_assign", "def f(xs):\n    y = ([x for x in xs if x])\n    return y\n", 3),
    ("comp/parenthesised_return", "def f(xs):\n    return ([x for x in xs if x])\n", 3),
    ("comp/multi_line", "def f(xs):\n    y = [\n        x\n        for x in xs\n        if x\n    ]\n    return y\n", 3),
    ("comp/chained_assign", "def f(xs):\n    a = b = [x for x in xs if x]\n    return a\n", 3),
    ("comp/chained_assign3", "def f(xs):\n    a = b = c = [x for x in xs if x]\n    return a\n", 3),
    ("comp/chained_assign4_nested_for", "def f(xs):\n    a = b = c = d = [y for x in xs for y in x if y]\n    return a\n", 4),
    ("comp/chained_assign_parenthesised", "def f(xs):\n    a = b = ([x for x in xs if x])\n    return a\n", 3),
    ("comp/chained_assign3_double_paren", "def f(xs):\n    a = b = c = (([x for x in xs]))\n    return a\n", 2),
    ("comp/chained_assign3_in_branch", "def f(xs, k):\n    if k:\n        a = b = c = {x for x in xs if x}\n    else:\n        a = 0\n    return a\n", 4),
    ("comp/annotated_assign", "def f(xs):\n    a: list = [x for x in xs if x]\n    return a\n", 3),
    ("comp/augmented_assign", "def f(xs, a):\n    a += [x for x in xs if x]\n    return a\n", 3),
    ("comp/expression_statement", "def f(xs):\n    [print(x) for x in xs if x]\n    return 1\n", 3),
    ("comp/generator_return", "def f(xs):\n    return (x for x in xs if x)\n", 3),
    ("comp/set_return", "def f(xs):\n    return {x for x in xs}\n", 2),
    ("comp/attribute_target", "def f(self, xs):\n    self.items = [x for x in xs if x]\n    return self\n", 3),
    ("comp/tuple_target", "def f(xs):\n    a, b = [x for x in xs][:2]\n    return a\n", 1),
    ("layout/if_parenthesised_test", "def f(a, b):\n    if (a and\n            b):\n        return 1\n    return 2\n", 2),
    ("layout/backslash_continuation", "def f(a, b):\n    if a and \\\n            b:\n        return 1\n    return 2\n", 2),
    ("layout/one_line_if", "def f(a):\n    if a: return 1\n    return 2\n", 2),
    ("layout/one_line_loops", "def f(a):\n    for i in a: a += i\n    while a: a -= 1\n    return a\n", 3),
    ("layout/semicolons", "def f(a):\n    x = 1; y = 2\n    if a: x = 3; y = 4\n    return x + y\n", 2),
    ("layout/decorated_async", "import functools\n\n\n@functools.wraps(print)\nasync def f(a):\n    async for i in a:\n        if i:\n            return i\n    return None\n", 3),
    ("layout/docstring_and_comments", "def f(a):\n    \"\"\"if while for except\"\"\"\n    # if a: pass\n    if a:  # elif\n        return 1\n    return 2\n", 2),
    ("layout/lambda_and_ternary_not_counted", "def f(a):\n    g = lambda v: v if v else 0\n    return g(a) if a else None\n", 1),
    ("layout/except_tuple_and_bare", "def f(a):\n    try:\n        a()\n    except (KeyError, OSError) as e:\n        return 1\n    except:\n        return 2\n    return 3\n", 3),
    ("layout/while_else_for_else", "def f(a):\n    while a:\n        a -= 1\n    else:\n        a = 5\n    for i in range(a):\n        pass\n    else:\n        a = 6\n    return a\n", 3),
    ("layout/elif_chain_5", "def f(a):\n    if a == 1:\n        return 1\n    elif a == 2:\n        return 2\n    elif a == 3:\n        return 3\n    elif a == 4:\n        return 4\n    elif a == 5:\n        return 5\n    else:\n        return 0\n", 6),
    ("nest/inner_def_not_counted_in_outer", "def f(a):\n    def inner(b):\n        if b:\n            return 1\n        return 2\n    if a:\n        return inner\n    return None\n", 2),
    ("nest/def_in_try_finally", "def f(a):\n    try:\n        def inner(b):\n            if b:\n                return 1\n            return 2\n    except KeyError:\n        a = 0\n    if a:\n        return 1\n    return inner\n", 3),
    ("nest/def_in_try_finally_body", "def outer(a):\n    try:\n        def f(b):\n            if b:\n                return 1\n            return 2\n    finally:\n        if a:\n            a = 0\n        for i in range(a):\n            pass\n    while a:\n        a -= 1\n    return f\n", 2),
    ("nest/def_in_loop_in_try_finally", "def outer(a):\n    try:\n        for i in range(a):\n            def f(b):\n                for j in b:\n                    if j:\n                        return j\n                return 0\n            if f(a):\n                break\n    finally:\n        if a:\n            a = 0\n    if a:\n        return 1\n    return 0\n", 3),
    ("nest/method_in_try_finally", "def outer(a):\n    try:\n        class K:\n            def f(self, b):\n                try:\n                    return b()\n                except KeyError:\n                    return 0\n                finally:\n                    b = None\n    finally:\n        if a:\n            a = 0\n        while a:\n            a -= 1\n    return K\n", 2),
    ("nest/def_in_module_try_finally", "import os\ntry:\n    def f(b):\n        if b:\n            return 1\n        return 2\nfinally:\n    if os.sep:\n        X = 0\n    for i in range(3):\n        pass\nif os.sep:\n    Y = 1\n", 2),
    ("nest/def_in_finally_and_handler", "def outer(a):\n    try:\n        a()\n    except KeyError:\n        def g(b):\n            return b\n    finally:\n        def f(b):\n            if b:\n                return 1\n            return 2\n        if a:\n            a = 0\n    if a:\n        return f\n    return None\n", 2),
    ("nest/def_in_with_in_loop", "def outer(a):\n    for i in a:\n        with open(i) as fh:\n            def f(b):\n                while b:\n                    b -= 1\n                    if b == 3:\n                        break\n                return b\n            if fh:\n                continue\n    return f\n", 3),
    ("literal/while_true", "def f(a):\n    while True:\n        a -= 1\n        if a < 0:\n            break\n    return a\n", 3),
    ("literal/while_one", "def f(a):\n    while 1:\n        a -= 1\n        if a < 0:\n            break\n    return a\n", 3),
    ("literal/if_constants", "def f(a):\n    if True:\n        a = 1\n    if 0:\n        a = 2\n    if None:\n        a = 3\n    return a\n", 4),
]


def run(tier, seed, replay=None):
    res = C.Result(PID, tier, seed)
    rng = random.Random(seed * 1000003 + 3)
    ps = C.prove(PID)
    C.proof_coverage(res, ps, "cd /verif/lean && lake build PV.Properties.C03 && #print axioms (audit)")
    res.assumptions += [
        "the specification `mccabe` is evaluated on the parser's AST with pyscn's OWN reported dead ranges as the dead-line set (the property says "
        "`code that pyscn itself reports as dead`); the real complexity must equal it on the property's fragment",
        "fragment = if/elif/else, for/while(+else), break/continue/return, try/except/else (no finally), statement-level comprehensions, nested def/class; "
        "raise, with, match and finally are outside the property's list and are not generated here",
    ]
    mult = 1 if ps.ok else (8 if tier == "quick" else 40)
    funcs = []
    nrand = (900 if tier == "quick" else 9000) * mult
    for i in range(nrand):
        g = pygen.Gen(rng, max_depth=rng.choice([1, 2, 3, 4]), max_len=rng.choice([1, 2, 3, 4]), max_nodes=rng.choice([8, 25, 60]), allow=FRAGMENT,
                      weights={"if": 5, "for": 3, "while": 3, "try": 3})
        g.no_finally = True
        funcs.append(g.function("f"))
    if replay:
        rp = json.load(open(replay))["replay"]
        if "skeleton" in rp:
            funcs.insert(0, rp["skeleton"])
    # three renderings per skeleton: plain, cosmetic noise, cosmetic noise + unrelated definitions around it
    srcs, owner = [], []
    for i, f in enumerate(funcs):
        srcs.append(pygen.render_module([f], random.Random(1), cosmetics=False, prelude=False)[0])
        owner.append((i, 0))
        srcs.append(pygen.render_module([f], random.Random(seed * 7919 + i), cosmetics=True, prelude=False)[0])
        owner.append((i, 1))
        g2 = pygen.Gen(random.Random(seed + i), max_depth=2, max_len=3, max_nodes=15, allow=FRAGMENT)
        g2.next_id = 100000
        other1, other2 = g2.function("unrelated_a"), g2.function("unrelated_b")
        srcs.append(pygen.render_module([other1, f, other2], random.Random(seed * 31 + i), cosmetics=True, prelude=True)[0])
        owner.append((i, 2))
    an = cfgeng.analyse(srcs)
    lines, where = [], []
    for si, r in enumerate(an):
        if "error" in r:
            continue
        defs = {(d["l"][0], d["l"][1]): d for d in cfgeng.all_defs(r["ast"]) if d["t"] != "ClassDef"}
        for fn in r["funcs"]:
            if fn["name"] == "__main__":
                continue
            d = defs.get((fn["start"], fn["end"]))
            if d is None:
                continue
            dead = ";".join("%d-%d" % (x["start"], x["end"]) for x in fn["findings"]) or "-"
            lines.append(cfgeng.body_tokens("f", d["l"][0], d["l"][1], d.get("body") or []).replace("cfg ", "mccabe %s " % dead, 1))
            where.append((si, fn))
    spec = C.driver_batch(lines) if (lines and os.path.exists(C.driver_path())) else None
    if spec is None:
        ps.ok = False
        ps.broken.append("driver missing")
    hist = {"functions": 0, "by_complexity": {}, "with_dead_code": 0, "risk_cells": 0}
    nontrivial, model_diffs = set(), 0
    per_skel = {}
    for si, r in enumerate(an):
        if "error" in r:
            res.violation("generated program rejected by the parser: %s" % r["error"], {"source": srcs[si]})
            continue
        if r["diffs"]:
            model_diffs += 1
            if model_diffs <= 3:
                res.violation("correspondence (CFG engine): real builder/complexity vs Lean mirror differ in %s" % r["diffs"][0][0],
                              {"source": srcs[si], "impl": r["diffs"][0][1], "model": r["diffs"][0][2], "correspondence": "PV.CFG.build vs analyzer.CFGBuilder"},
                              found_input=False)
    if spec is not None:
        for (si, fn), out in zip(where, spec):
            hist["functions"] += 1
            want = int(out)
            b = str(min(want, 20))
            hist["by_complexity"][b] = hist["by_complexity"].get(b, 0) + 1
            if fn["findings"]:
                hist["with_dead_code"] += 1
            if want > 1:
                nontrivial.add((si, fn["name"]))
            if fn["complexity"] != want:
                res.violation("C03: %s has complexity %d, 1 + decision count is %d (decisions on lines pyscn reports dead not counted)" % (fn["name"], fn["complexity"], want),
                              {"skeleton": funcs[owner[si][0]], "source": srcs[si], "function": fn["name"], "reported": fn["complexity"], "expected": want})
            i, variant = owner[si]
            if fn["name"] == "f" or fn["name"].startswith("f."):
                per_skel.setdefault((i, fn["name"]), {})[variant] = fn["complexity"]
    # ---- second oracle: the property's count from CPython's own parse of the same source (does not go through pyscn's parser) ----------------------------
    hist["py_oracle_functions"] = 0
    for si, r in enumerate(an):
        if "error" in r:
            continue
        try:
            ref = py_mccabe(srcs[si])
        except SyntaxError:
            continue
        for fn in r["funcs"]:
            short = fn["name"].split(".")[-1]
            f_ = ref.get((short, fn["start"]))
            if f_ is None or fn["name"] == "__main__":
                continue
            want = f_([(x["start"], x["end"]) for x in fn["findings"]])
            hist["py_oracle_functions"] += 1
            if fn["complexity"] != want:
                res.violation("C03: %s has complexity %d; counted on CPython's parse of the same source (decisions on lines pyscn reports dead excluded) it is %d" % (fn["name"], fn["complexity"], want),
                              {"signature": {"kind": "py-oracle"}, "skeleton": funcs[owner[si][0]], "source": srcs[si], "function": fn["name"], "reported": fn["complexity"], "expected": want})
    # ---- hand-written comprehension / layout / literal shapes ---------------------------------------------------------------------------------------------
    shp = cfgeng.analyse([src for _, src, _ in COMP_SHAPES])
    hist["shape_cases"] = len(COMP_SHAPES)
    for (tag, src, want), r in zip(COMP_SHAPES, shp):
        got = None if "error" in r else next((fn["complexity"] for fn in r["funcs"] if fn["name"] == "f" or fn["name"].endswith(".f")), None)
        ref = py_mccabe(src)
        pyw = next((v([]) for (nm, ln), v in ref.items() if nm == "f"), None)
        if pyw != want:
            res.violation("generator error: shape %s: hand-written expectation %d, CPython-parse oracle %s" % (tag, want, pyw), {"source": src})
            continue
        hist["functions"] += 1
        if want > 1:
            nontrivial.add(("shape", tag))
        if got != want:
            sig = {"kind": "shape", "case": tag}
            k = C.classify(PID, sig)
            msg = "C03 shape %s: f has complexity %s, 1 + decision count is %d" % (tag, got, want)
            if k:
                res.known_finding(k, "(%s)" % msg)
            else:
                res.violation(msg, {"signature": sig, "source": src, "reported": got, "expected": want})
    for (i, name), vs in per_skel.items():
        if len(set(vs.values())) > 1:
            res.violation("C03 independence: %s of one skeleton gets complexities %s under (plain, cosmetic noise, noise + unrelated definitions)" % (name, vs),
                          {"skeleton": funcs[i], "sources": [srcs[3 * i + k] for k in range(3)]})
    # ---------------- risk level vs configured thresholds, real CLI ---------------------------------------------------------
    tmp = tempfile.mkdtemp(prefix="pv_c03_")
    try:
        pairs = [(9, 19), (1, 2), (3, 4), (5, 12), (2, 30)] + [(lo, lo + rng.randint(1, 9)) for lo in (rng.randint(1, 12) for _ in range(3 if tier == "quick" else 12))]
        # pairs on the other side of the DEFAULTS (9 / 19): a low threshold at or above the default medium one, a medium threshold at or below the default
        # low one, one threshold equal to its default and the other not ("every pair of low/medium thresholds")
        pairs += [(19, 20), (20, 21), (25, 40), (30, 31), (18, 19), (9, 50), (19, 45), (1, 9), (4, 8)]
        pairs += [(lo, lo + rng.randint(1, 30)) for lo in (rng.randint(19, 45) for _ in range(2 if tier == "quick" else 10))]
        for pi, (lo, med) in enumerate(pairs):
            root = os.path.join(tmp, "r%d" % pi)
            proj = os.path.join(root, "proj")
            os.makedirs(proj)
            ks = sorted(set(k for k in (1, lo - 1, lo, lo + 1, med - 1, med, med + 1, med + 5) if k >= 1))
            with open(os.path.join(proj, "m.py"), "w") as f:
                for k in ks:
                    f.write(func_with_complexity("cx_%d" % k, k) + "\n\n")
            # the file is named with --config, or DISCOVERED from the target (.pyscn.toml / pyproject.toml in the project)
            how = ("explicit", "pyscn_toml", "pyproject")[pi % 3]
            hist["threshold_file_" + how] = hist.get("threshold_file_" + how, 0) + 1
            body = "low_threshold = %d\nmedium_threshold = %d\nmax_complexity = %d\n" % (lo, med, med + 60)
            if how == "explicit":
                with open(os.path.join(root, "cfg.toml"), "w") as f:
                    f.write("[complexity]\n" + body)
                extra_cfg = ["--config", os.path.join(root, "cfg.toml")]
            elif how == "pyscn_toml":
                with open(os.path.join(proj, ".pyscn.toml"), "w") as f:
                    f.write("[complexity]\n" + body)
                extra_cfg = []
            else:
                with open(os.path.join(proj, "pyproject.toml"), "w") as f:
                    f.write("[project]\nname = \"x\"\n\n[tool.pyscn.complexity]\n" + body)
                extra_cfg = []
            rc, data, err = C.pyscn_json(["proj"], root, extra=["--select", "complexity", "--min-complexity", "1"] + extra_cfg)
            if data is None:
                res.violation("analyze produced no report with thresholds (%d,%d): %s" % (lo, med, err[-300:]), {"low": lo, "medium": med})
                continue
            for f in data["complexity"]["Functions"] or []:
                k = f["Metrics"]["Complexity"]
                want = "low" if k <= lo else "medium" if k <= med else "high"
                hist["risk_cells"] += 1
                if f["Name"] == "__main__":
                    continue
                if f["RiskLevel"] != want or ("cx_%d" % k) != f["Name"]:
                    res.violation("C03 risk: %s complexity %d with thresholds low=%d medium=%d is reported `%s`, expected `%s`" % (f["Name"], k, lo, med, f["RiskLevel"], want),
                                  {"low": lo, "medium": med, "function": f["Name"], "complexity": k, "risk": f["RiskLevel"]})
    finally:
        shutil.rmtree(tmp, ignore_errors=True)
    if not ps.ok and not any(fi for _, _, fi in res.violations):
        res.violation("proof obligation or tie broken: " + "; ".join(ps.broken)[:1500],
                      {"broken": ps.broken, "note": "no function whose reported complexity/risk violates C03 was found in %d functions" % hist["functions"]}, found_input=False)
    res.coverage.update({
        "evaluations": hist["functions"] + hist["risk_cells"],
        "distinct_nontrivial": len(nontrivial),
        "rule": "random skeletons over the property's fragment (depth ≤4, ≤60 nodes, elif chains, loops with else, handlers, comprehensions with 1-2 for "
                "clauses and filters, nested defs/classes), each rendered three ways (plain / cosmetic noise / noise + unrelated definitions); risk: "
                "functions of complexity lo-1..med+5 under %d threshold pairs through the real CLI; non-trivial = function with complexity > 1" % len(pairs),
        "samples": [{"source": srcs[1], "reported": [(fn["name"], fn["complexity"]) for fn in an[1].get("funcs", [])]}],
        "traces_validated_against_impl": len(srcs) - model_diffs,
        "distribution": hist,
        "whole_graph_comparisons": dict(cfgeng.GRAPH_STATS),
    })
    return res.finish("proof")
