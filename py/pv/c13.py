"""C13 — CBO counts each coupled class once (DESIGN.md §4 C13)."""
import json
import os
import random

from . import common as C
from .c14 import POSITIONS as STMT_POSITIONS, TARGET_POSITIONS, ASYNC_ONLY

PID = "C13"
BUILTINS = ["int", "str", "list", "dict", "ValueError", "object"]
# how a class name can be mentioned
MENTION_FORMS = ["base", "attr_hint", "attr_hint_generic", "attr_hint_optional", "attr_hint_union", "param_hint", "param_hint_generic", "return_hint", "instantiate"]
IMPORT_FORMS = ["local", "from_plain", "from_alias"]
# further ways a class can come into the file's namespace ("however the class was imported", "same-file classes wherever the call is written"): a same-file class
# defined BELOW the class that uses it (calls in method bodies are resolved when the method runs: an ordinary forward reference), and relative from-imports with a
# dots-only module part (`from . import X`, `from .. import X`), with a dotted module part (`from .lib0 import X`, `from ..pkg.lib0 import X`), each with / without alias.
# They form a SEPARATE dimension (own matrix over the positions that are not lost for every form already, own random batch) so that no known cell is multiplied.
X_IMPORT_FORMS = ["local_below", "rel_dots", "rel_dots_alias", "rel_up", "rel_up_alias", "rel_mod", "rel_mod_alias", "rel_up_mod", "rel_up_mod_alias"]
X_RANDOM_FORMS = IMPORT_FORMS + X_IMPORT_FORMS
IMPORT_TEMPLATES = {"from_plain": "from lib%(k)d import %(real)s", "from_alias": "from lib%(k)d import %(real)s as %(bound)s",
                    "rel_dots": "from . import %(real)s", "rel_dots_alias": "from . import %(real)s as %(bound)s",
                    "rel_up": "from .. import %(real)s", "rel_up_alias": "from .. import %(real)s as %(bound)s",
                    "rel_mod": "from .lib%(k)d import %(real)s", "rel_mod_alias": "from .lib%(k)d import %(real)s as %(bound)s",
                    "rel_up_mod": "from ..pkg.lib%(k)d import %(real)s", "rel_up_mod_alias": "from ...pkg.lib%(k)d import %(real)s as %(bound)s"}


def is_alias_form(form):
    return form.endswith("_alias")


def is_local_form(form):
    return form in ("local", "local_below")
# positions of an instantiation `{E}` inside a method body (statement templates shared with C14; target positions make no sense for a call)
INST_POSITIONS = [p for p in STMT_POSITIONS if p not in TARGET_POSITIONS + ("await", "yield", "with_item", "with_item_as")] + ["with_item", "with_item_as"]


# class names whose SHAPE could be mistaken for something else (case variants of built-ins, typing-like, prefixes of built-ins, private, lower case)
TRICKY_NAMES = ["Range", "Slice", "Property", "Object", "Type", "Set", "Tuple", "Str", "Int", "Float", "Bytes", "Super", "Listing", "Dictionary", "Printer",
                "Lens", "Opener", "_Private", "__Dunder", "lowercase_cls", "X", "Node2", "HTTPServerError", "Iterable2", "Mapping_"]
# how an instantiation can sit inside another call: {O} = the outer callee (another coupled class, a plain function, a method), {E} = the inner instantiation
NEST_STYLES = {"arg_of_class": "{O}({E})", "kwarg_of_class": "{O}(dep={E})", "second_arg_of_class": "{O}(1, {E})", "arg_of_arg": "{O}(print({E}))",
               "both_args": "{O}({E}, other={E})", "list_arg": "{O}([{E}])"}


# hand-written SHAPES outside the spec generator: (tag, header lines, class body, expected number of distinct coupled classes, expected names or None when the
# tool may name the class in more than one way). `Target`, `Other`, `Box` are classes imported with `from lib0 import ...` unless the header says otherwise.
H = "from typing import List, Dict, Optional, Union, Tuple, Callable\nfrom lib0 import Target, Other, Box\n"
SHAPES = [
    # --- import forms -------------------------------------------------------------------------------------------------------------------------
    ("import/alias_and_plain_use_plain", "from lib0 import Target as Tg, Target\n", "    def m(self):\n        return Target()", 1, ["Target"]),
    ("import/alias_and_plain_use_alias", "from lib0 import Target as Tg, Target\n", "    def m(self):\n        return Tg()", 1, ["Tg"]),
    ("import/alias_and_plain_use_both", "from lib0 import Target as Tg, Target\n", "    def m(self):\n        return Tg(), Target()", 1, None),
    ("import/two_aliases", "from lib0 import Target as T1, Target as T2\n", "    def m(self):\n        return T1(), T2()", 1, None),
    ("import/three_names_one_alias", "from lib0 import Other, Target as Tg, Box\n", "    def m(self):\n        return Other(), Tg(), Box()", 3, ["Box", "Other", "Tg"]),
    ("import/inside_method", "", "    def m(self):\n        from lib0 import Target\n        return Target()", 1, ["Target"]),
    ("import/inside_class", "", "    from lib0 import Target\n\n    def m(self):\n        return Target()", 1, ["Target"]),
    ("import/module_plain/instantiate", "import lib0\n", "    def m(self):\n        return lib0.Target()", 1, None),
    ("import/module_plain/base", "import lib0\n", "BASE=lib0.Target\n    x = 1", 1, None),
    ("import/module_plain/attr_hint", "import lib0\n", "    field: lib0.Target = None", 1, None),
    ("import/module_alias/instantiate", "import lib0 as l0\n", "    def m(self):\n        return l0.Target()", 1, None),
    ("import/module_alias/base", "import lib0 as l0\n", "BASE=l0.Target\n    x = 1", 1, None),
    ("import/module_alias/attr_hint", "import lib0 as l0\n", "    field: l0.Target = None", 1, None),
    ("import/from_pkg_module/instantiate", "from pkg import lib0\n", "    def m(self):\n        return lib0.Target()", 1, None),
    ("import/from_pkg_module/param_hint", "from pkg import lib0\n", "    def m(self, a: lib0.Target):\n        return a", 1, None),
    ("import/dotted_module/instantiate", "import pkg.lib0\n", "    def m(self):\n        return pkg.lib0.Target()", 1, None),
    # --- annotation shapes ---------------------------------------------------------------------------------------------------------------------
    ("hint/user_generic", H, "    field: Box[Target] = None", 2, ["Box", "Target"]),
    ("hint/callable", H, "    field: Callable[[Target], Other] = None", 2, ["Other", "Target"]),
    ("hint/nested_generic", H, "    field: Dict[str, List[Target]] = None", 1, ["Target"]),
    ("hint/tuple_two", H, "    field: Tuple[Target, Other] = None", 2, ["Other", "Target"]),
    ("hint/union_three", H, "    field: Target | Other | None = None", 2, ["Other", "Target"]),
    ("hint/optional_union", H, "    field: Optional[Union[Target, Other]] = None", 2, ["Other", "Target"]),
    ("hint/star_args", H, "    def m(self, *args: Target, **kw: Other):\n        return args", 2, ["Other", "Target"]),
    ("hint/kwonly", H, "    def m(self, *, a: Target):\n        return a", 1, ["Target"]),
    ("hint/posonly", H, "    def m(self, a: Target, /, b=None):\n        return a", 1, ["Target"]),
    ("hint/typed_default_param", H, "    def m(self, a: Target = None):\n        return a", 1, ["Target"]),
    ("hint/init_attr", H, "    def __init__(self):\n        self.x: Target = None", 1, ["Target"]),
    ("hint/local_var", H, "    def m(self):\n        x: Target = None\n        return x", 1, ["Target"]),
    ("hint/async_return", H, "    async def m(self) -> Target:\n        return None", 1, ["Target"]),
    ("hint/static_return", H, "    @staticmethod\n    def m() -> Target:\n        return None", 1, ["Target"]),
    ("hint/classmethod_param", H, "    @classmethod\n    def m(cls, a: List[Target]) -> None:\n        return None", 1, ["Target"]),
    ("hint/property_pair", H, "    @property\n    def v(self) -> int:\n        return 1\n\n    @v.setter\n    def v(self, value: Target) -> None:\n        pass", 1, ["Target"]),
    ("hint/same_name_methods", H, "    def cb(self, a: int) -> int:\n        return a\n\n    def other(self):\n        def cb(a: Target) -> Other:\n            return a\n        return cb", 2, ["Other", "Target"]),
    ("hint/nested_function", H, "    def m(self):\n        def inner(a: Target) -> Other:\n            return a\n        return inner", 2, ["Other", "Target"]),
    # --- instantiation positions not in the statement-position matrix --------------------------------------------------------------------------
    ("inst/typed_default", H, "    def m(self, a: int = Target()):\n        return a", 1, ["Target"]),
    ("inst/untyped_default", H, "    def m(self, a=Target()):\n        return a", 1, ["Target"]),
    ("inst/kwonly_default", H, "    def m(self, *, a=Target(), b: int = Other()):\n        return a", 2, ["Other", "Target"]),
    ("inst/decorator_arg", H + "def deco(x):\n    return lambda f: f\n", "    @deco(Target())\n    def m(self):\n        return 1", 1, ["Target"]),
    ("inst/subscript_target", H, "    def m(self):\n        self.d[Target()] = 1", 1, ["Target"]),
    ("inst/del_subscript", H, "    def m(self):\n        del self.d[Target()]", 1, ["Target"]),
    ("inst/augassign_target_index", H, "    def m(self):\n        self.d[Target()] += 1", 1, ["Target"]),
    ("inst/class_level", H, "    registry = Target()", 1, ["Target"]),
    ("inst/class_level_dict", H, "    registry = {\"a\": Target(), \"b\": [Other()]}", 2, ["Other", "Target"]),
    ("inst/chained_call", H, "    def m(self):\n        return Target().run().go()", 1, ["Target"]),
    ("inst/attr_of_call", H, "    def m(self):\n        return Target().value", 1, ["Target"]),
    ("inst/call_of_subscript_arg", H, "    def m(self):\n        return self.reg[0](Target())", 1, ["Target"]),
    ("inst/starred_arg", H, "    def m(self):\n        return print(*Target(), **Other())", 2, ["Other", "Target"]),
    ("inst/walrus", H, "    def m(self):\n        if (t := Target()):\n            return t\n        return None", 1, ["Target"]),
    ("inst/ternary_all", H, "    def m(self, v):\n        return Target() if Other() else Box()", 3, ["Box", "Other", "Target"]),
    ("inst/comprehension_cond", H, "    def m(self, v):\n        return [x for x in v if Target()]", 1, ["Target"]),
    ("inst/comprehension_iter", H, "    def m(self):\n        return {x: 1 for x in Target()}", 1, ["Target"]),
    ("inst/genexp_element", H, "    def m(self, v):\n        return list(Target() for _ in v)", 1, ["Target"]),
    ("inst/lambda_default", H, "    def m(self):\n        return lambda a=Target(): a", 1, ["Target"]),
    ("inst/return_tuple", H, "    def m(self):\n        return 1, Target()", 1, ["Target"]),
    ("inst/dict_key_value", H, "    def m(self):\n        return {Target(): Other()}", 2, ["Other", "Target"]),
    ("inst/set_literal", H, "    def m(self):\n        return {Target()}", 1, ["Target"]),
    ("inst/slice_bound", H, "    def m(self, v):\n        return v[Target():Other()]", 2, ["Other", "Target"]),
    ("inst/compare_chain", H, "    def m(self, v):\n        return v < Target() <= Other()", 2, ["Other", "Target"]),
    ("inst/boolop", H, "    def m(self, v):\n        return v and Target() or Other()", 2, ["Other", "Target"]),
    ("inst/unary_not", H, "    def m(self):\n        return not Target()", 1, ["Target"]),
    ("inst/assert_msg", H, "    def m(self, v):\n        assert v, Target()", 1, ["Target"]),
    ("inst/raise_from", H, "    def m(self):\n        raise Target() from Other()", 2, ["Other", "Target"]),
    ("inst/match_subject", H, "    def m(self):\n        match Target():\n            case _:\n                return Other()", 2, ["Other", "Target"]),
    ("inst/nested_class_method", H, "    class Inner:\n        def m(self):\n            return Target()", 1, ["Target"]),
    ("inst/nested_function", H, "    def m(self):\n        def inner():\n            return Target()\n        return inner", 1, ["Target"]),
    ("inst/global_and_nonlocal", H, "    def m(self):\n        global G\n        G = Target()", 1, ["Target"]),
    ("inst/try_star", H, "    def m(self):\n        try:\n            pass\n        except* ValueError:\n            self.x = Target()", 1, ["Target"]),
    ("inst/while_else", H, "    def m(self, v):\n        while v:\n            v -= 1\n        else:\n            return Target()", 1, ["Target"]),
    ("inst/elif3", H, "    def m(self, v):\n        if v == 1:\n            pass\n        elif v == 2:\n            pass\n        elif v == 3:\n            return Target()", 1, ["Target"]),
    # --- shapes reported by a fourth-round reviewer of the unchanged tree ------------------------------------------------------------------------------
    ("hint/generic_in_union", H, "    field: Target | List[Other] = None", 2, ["Other", "Target"]),
    ("hint/parenthesised", H, "    field: (Target | Other) = None", 2, ["Other", "Target"]),
    ("hint/parenthesised_single", H, "    field: (Target) = None", 1, ["Target"]),
    ("base/subscripted_and_plain", H + "from typing import Generic, TypeVar\nT = TypeVar(\"T\")\n", "BASE=Generic[T], Target\n    x = 1", 1, ["Target"]),
    ("base/subscripted_project_class", H, "BASE=Box[Other], Target\n    x = 1", 3, ["Box", "Other", "Target"]),
    ("inst/tuple_subscript", H, "    def m(self, v):\n        return v[0, Target()]", 1, ["Target"]),
    ("inst/expression_list_statement", H, "    def m(self):\n        1, Target()", 1, ["Target"]),
    # --- built-ins are not couplings (default options) ---------------------------------------------------------------------------------------------
    ("builtin/base_oserror", "", "BASE=OSError\n    x = 1", 0, []),
    ("builtin/base_exception_pair", "", "BASE=LookupError, KeyError\n    x = 1", 0, []),
    ("builtin/raise_notimplemented", "", "    def m(self):\n        raise NotImplementedError()", 0, []),
    ("builtin/raise_stopiteration", "", "    def m(self):\n        raise StopIteration()", 0, []),
    ("builtin/hint_types", "", "    a: int = 0\n    b: dict = None\n    c: frozenset = None\n    d: bytes = b\"\"\n    e: BaseException = None\n    f: ZeroDivisionError = None", 0, []),
    ("builtin/instantiate_types", "", "    def m(self):\n        return [list(), dict(), set(), tuple(), frozenset(), bytearray(), complex(), object(), memoryview(b\"\"), TimeoutError(), UnicodeDecodeError]", 0, []),
    ("builtin/warning_classes", "", "    def m(self):\n        return DeprecationWarning(), UserWarning(), ResourceWarning()", 0, []),
]


def shape_source(header, body):
    base = ""
    if body.startswith("BASE="):
        first, body = body.split("\n", 1)
        base = "(%s)" % first[5:]
    return header + "\n\nclass Subject%s:\n%s\n" % (base, body)


class ClassSpec:
    """a class built from mention specs; every coupled class has an integer id, a real name and (for from_alias) a bound name"""

    def __init__(self, name):
        self.name = name
        self.mentions = []      # (class id, form, position)
        self.others = {}        # class id -> (import form, real name, bound name)

    def bound(self, cid):
        return self.others[cid][2]


def render(spec, member_order=None, extra_unrelated=0, self_name=None):
    name = self_name or spec.name
    imports, locals_, below = [], [], []
    for cid, (form, real, bound) in sorted(spec.others.items()):
        if form == "local":
            locals_.append("class %s:\n    pass\n" % real)
        elif form == "local_below":
            below.append("class %s:\n    pass\n" % real)
        elif form in IMPORT_TEMPLATES:
            imports.append(IMPORT_TEMPLATES[form] % {"k": cid % 3, "real": real, "bound": bound})
        elif form in ("builtin", "self"):
            pass
    for k in range(extra_unrelated):
        locals_.append("class Unrelated%d:\n    def run(self):\n        return %d\n" % (k, k))
    bases = [spec.bound(c) for c, f, p in spec.mentions if f == "base"]
    members = []
    k = 0
    for cid, form, pos in spec.mentions:
        b = spec.bound(cid)
        k += 1
        if form == "base":
            continue
        if form == "attr_hint":
            members.append("    field%d: %s = None" % (k, b))
        elif form == "attr_hint_generic":
            members.append("    field%d: List[%s] = None" % (k, b))
        elif form == "attr_hint_optional":
            members.append("    field%d: Optional[Dict[str, %s]] = None" % (k, b))
        elif form == "attr_hint_union":
            members.append("    field%d: %s | None = None" % (k, b))
        elif form == "param_hint":
            members.append("    def meth%d(self, arg: %s, v=None):\n        return arg" % (k, b))
        elif form == "param_hint_generic":
            members.append("    def meth%d(self, arg: Dict[str, %s], v=None):\n        return arg" % (k, b))
        elif form == "return_hint":
            members.append("    def meth%d(self, v=None) -> %s:\n        return None" % (k, b))
        elif form == "instantiate":
            I = "        "
            t = STMT_POSITIONS[pos].replace("{E}", "%s()" % b).replace("{A}", "self.slot").replace("{I}", I)
            members.append("    %sdef meth%d(self, v=None):\n%s%s\n        return None" % ("async " if pos in ASYNC_ONLY else "", k, I, t))
        elif form == "instantiate_nested":
            I = "        "
            stmt_pos, style, outer = pos
            e = NEST_STYLES[style].replace("{O}", spec.bound(outer)).replace("{E}", "%s()" % b)
            t = STMT_POSITIONS[stmt_pos].replace("{E}", e).replace("{A}", "self.slot").replace("{I}", I)
            members.append("    def meth%d(self, v=None):\n%s%s\n        return None" % (k, I, t))
    if member_order is not None:
        members = [members[i] for i in member_order]
    body = "\n\n".join(members) if members else "    pass"
    head = "class %s(%s):" % (name, ", ".join(bases)) if bases else "class %s:" % name
    tail = ("\n\n" + "\n".join(below)) if below else ""
    return "from typing import List, Optional, Dict\n" + "\n".join(imports) + "\n\n" + "\n".join(locals_) + "\n" + head + "\n" + body + "\n" + tail


def gen_spec(rng, idx, forms=IMPORT_FORMS, positions=None, prefix="Subject"):
    """`forms` / `positions`: the import forms and instantiation positions to draw from (defaults: the three basic forms, every position)"""
    positions = positions or INST_POSITIONS
    s = ClassSpec("%s%d" % (prefix, idx))
    n_other = rng.randint(0, 9)
    for cid in range(1, n_other + 1):
        form = rng.choice(forms)
        real = "Dep%d_%d" % (idx, cid)
        if rng.random() < 0.25:
            real = rng.choice(TRICKY_NAMES) + ("" if rng.random() < 0.5 else str(cid))
            if any(real == o[1] for o in s.others.values()):
                real = "Dep%d_%d" % (idx, cid)
        s.others[cid] = (form, real, ("Al%d_%d" % (idx, cid)) if is_alias_form(form) else real)
    for b in range(rng.randint(0, 2)):
        cid = 100 + b
        bn = rng.choice(BUILTINS)
        s.others[cid] = ("builtin", bn, bn)
    ids = list(s.others)
    for _ in range(rng.randint(0, 12) if ids else 0):
        cid = rng.choice(ids)
        form = rng.choice(MENTION_FORMS)
        if form == "base" and s.others[cid][0] == "builtin" and s.others[cid][1] in ("int", "str", "list", "dict"):
            form = "attr_hint"
        if s.others[cid][0] == "local_below":
            # a class defined below its user can only be named where the name is looked up at CALL time (a base class or an annotation would be a NameError)
            form = "instantiate"
        pos = rng.choice(positions) if form == "instantiate" else None
        real_ids = [i for i in ids if s.others[i][0] != "builtin"]
        if form == "instantiate" and real_ids and rng.random() < 0.3:
            form = "instantiate_nested"
            pos = (rng.choice(["assign_value", "assign_value", "return", "call_arg", "if_cond", "else_body", "annotated"]), rng.choice(list(NEST_STYLES)), rng.choice(real_ids))
        s.mentions.append((cid, form, pos))
    return s


def expected(spec, include_builtins=False):
    ids = []
    for cid, form, pos in spec.mentions:
        if form == "instantiate_nested" and pos[2] not in ids:
            ids.append(pos[2])
        if spec.others[cid][0] == "builtin" and not include_builtins:
            continue
        if spec.others[cid][0] == "self":
            continue
        if cid not in ids:
            ids.append(cid)
    return ids


def subject(go_result, name):
    for c in go_result.get("classes") or []:
        if c["name"] == name:
            return c
    return None


def run(tier, seed, replay=None):
    res = C.Result(PID, tier, seed)
    rng = random.Random(seed * 1000003 + 13)
    ps = C.prove(PID)
    C.proof_coverage(res, ps, "cd /verif/lean && lake build PV.Properties.C13 && #print axioms (audit)")
    res.assumptions += [
        "mentions are generated in the forms the property lists (bases, attribute/parameter/return annotations incl. List[…], Optional[Dict[str,…]], X | None, "
        "instantiations of same-file classes and of classes imported with `from m import N [as A]`); module-attribute forms (`import m; m.K()`) are ambiguous in "
        "the property; they are run as hand-written shapes (count only) and the tool's behaviour on them is recorded as a known finding",
        "the expected set is known by construction of each generated class; the real CBO must equal the proved set model on it, and the metamorphic laws "
        "(mention again, reorder, rename, add unrelated, add one new) are checked on the real code directly",
    ]
    nrand = (300 if tier == "quick" else 3000) * (1 if ps.ok else 6)
    cases = []   # (tag, spec, source, expected ids)
    # matrix: one instantiation position × import form (the subject has exactly that one coupling)
    for pos in INST_POSITIONS:
        for form in IMPORT_FORMS:
            s = ClassSpec("Subject")
            s.others[1] = (form, "Target", "Tg" if form == "from_alias" else "Target")
            s.mentions.append((1, "instantiate", pos))
            cases.append((("matrix", pos, form), s, render(s), [1]))
    for mform in MENTION_FORMS:
        if mform == "instantiate":
            continue
        for form in IMPORT_FORMS:
            s = ClassSpec("Subject")
            s.others[1] = (form, "Target", "Tg" if form == "from_alias" else "Target")
            s.mentions.append((1, mform, None))
            cases.append((("form", mform, form), s, render(s), [1]))
    # name shapes: a coupled class whose name merely LOOKS like a built-in / typing name is still a class
    for nm in TRICKY_NAMES:
        for form in ("local", "from_plain"):
            for mform, pos in (("base", None), ("attr_hint", None), ("param_hint_generic", None), ("instantiate", "assign_value")):
                s = ClassSpec("Subject")
                s.others[1] = (form, nm, nm)
                s.mentions.append((1, mform, pos))
                cases.append((("name", nm, form + "/" + mform), s, render(s), [1]))
    # the class's own name is not an OTHER class: instantiating / annotating with itself adds nothing
    for mform, pos in (("attr_hint", None), ("param_hint", None), ("return_hint", None), ("attr_hint_generic", None), ("instantiate", "return"), ("instantiate", "assign_value")):
        s = ClassSpec("Subject")
        s.others[1] = ("local", "Helper", "Helper")
        s.others[2] = ("self", "Subject", "Subject")
        s.mentions += [(1, "attr_hint", None), (2, mform, pos)]
        cases.append((("selfref", mform, str(pos)), s, render(s), [1]))
    # nesting: an instantiation written inside the argument list of another instantiation
    for style in NEST_STYLES:
        for stmt_pos in ("assign_value", "return", "call_arg", "annotated", "else_body", "with_item"):
            for form in IMPORT_FORMS:
                s = ClassSpec("Subject")
                s.others[1] = (form, "Inner", "In" if form == "from_alias" else "Inner")
                s.others[2] = ("local", "Outer", "Outer")
                s.mentions.append((1, "instantiate_nested", (stmt_pos, style, 2)))
                cases.append((("nest", style, stmt_pos + "/" + form), s, render(s), [1, 2]))
    for i in range(nrand):
        s = gen_spec(rng, i)
        cases.append((("random", "", ""), s, render(s), expected(s)))
    # ---- further import forms / same-file layouts (a separate dimension: the positions already lost for EVERY basic form are left out, so no known cell is multiplied) ----
    lost_everywhere = set(f["signature"].get("position") for f in C.known_findings()
                          if f.get("property") == PID and f.get("status") == "known" and (f.get("signature") or {}).get("kind") == "position")
    x_positions = [p for p in INST_POSITIONS if p not in lost_everywhere]
    xrng = random.Random(seed * 7368787 + 1313)
    for pos in x_positions:
        for form in X_IMPORT_FORMS:
            s = ClassSpec("Subject")
            s.others[1] = (form, "Target", "Tg" if is_alias_form(form) else "Target")
            s.mentions.append((1, "instantiate", pos))
            cases.append((("matrixx", pos, form), s, render(s), [1]))
        # helpers split around the class that uses them: one defined above, one below, one imported by a dots-only relative import
        s = ClassSpec("Subject")
        s.others[1] = ("local", "Above", "Above")
        s.others[2] = ("local_below", "Below", "Below")
        s.others[3] = ("rel_dots", "Sibling", "Sibling")
        s.mentions += [(2, "instantiate", pos), (1, "instantiate", pos), (3, "instantiate", pos)]
        cases.append((("split", pos, "above+below+rel_dots"), s, render(s), [2, 1, 3]))
    for mform in MENTION_FORMS:
        if mform == "instantiate":
            continue
        for form in X_IMPORT_FORMS:
            if form == "local_below":
                continue    # a base class / annotation naming a class defined further down is a NameError, not a coupling form
            s = ClassSpec("Subject")
            s.others[1] = (form, "Target", "Tg" if is_alias_form(form) else "Target")
            s.mentions.append((1, mform, None))
            cases.append((("formx", mform, form), s, render(s), [1]))
    for style in NEST_STYLES:
        for stmt_pos in ("assign_value", "else_body", "with_item"):
            for form, oform in (("local_below", "local"), ("local", "local_below"), ("local_below", "local_below"), ("rel_dots", "local_below"), ("rel_up_alias", "rel_dots")):
                s = ClassSpec("Subject")
                s.others[1] = (form, "Inner", "In" if is_alias_form(form) else "Inner")
                s.others[2] = (oform, "Outer", "Outer")
                s.mentions.append((1, "instantiate_nested", (stmt_pos, style, 2)))
                cases.append((("nestx", style, stmt_pos + "/" + form + "/" + oform), s, render(s), [1, 2]))
    nrandx = (200 if tier == "quick" else 2000) * (1 if ps.ok else 6)
    for i in range(nrandx):
        s = gen_spec(xrng, i, forms=X_RANDOM_FORMS, positions=x_positions, prefix="SubjectX")
        cases.append((("randomx", "", ""), s, render(s), expected(s)))
    go = C.harness_batch("cbo", [{"Src": src} for _, _, src, _ in cases])
    lines = []
    for tag, s, src, exp in cases:
        ex = ",".join(str(c) for c, (f, _, _) in s.others.items() if f in ("builtin", "self")) or "-"
        ms = ",".join(",".join([str(c)] + ([str(p[2])] if f == "instantiate_nested" else [])) for c, f, p in s.mentions) or "-"
        lines.append("cbo %s %s" % (ex, ms))
    model = C.driver_batch(lines) if os.path.exists(C.driver_path()) else None
    if model is None:
        ps.ok = False
        ps.broken.append("driver missing")
    hist = {"classes": 0, "by_cbo": {}, "matrix_cells": 0, "metamorphic_pairs": 0, "x_positions": len(x_positions), "x_matrix_cells": 0, "x_random_classes": 0,
            "x_by_import_form": {}, "x_classes_with_helper_below": 0, "x_classes_with_helpers_split": 0, "x_metamorphic_pairs": 0, "x_metamorphic_by_law": {}}
    meta_x = 0
    nontrivial, diffs = set(), 0
    meta_src, meta_info = [], []
    for ci, ((tag, s, src, exp), g) in enumerate(zip(cases, go)):
        if "classes" not in g:
            res.violation("generated class rejected: %s" % (g.get("parse_error") or g.get("error")), {"source": src})
            continue
        c = subject(g, s.name)
        hist["classes"] += 1
        if tag[0] in ("matrix", "form", "name", "nest", "selfref"):
            hist["matrix_cells"] += 1
        if tag[0] in ("matrixx", "split", "formx", "nestx"):
            hist["matrix_cells"] += 1
            hist["x_matrix_cells"] += 1
        if tag[0] in ("matrixx", "split", "formx", "nestx", "randomx"):
            used = set(s.others[cid][0] for cid, _, _ in s.mentions) | set(s.others[p[2]][0] for _, f, p in s.mentions if f == "instantiate_nested")
            for f_ in used:
                if f_ not in ("builtin", "self"):
                    hist["x_by_import_form"][f_] = hist["x_by_import_form"].get(f_, 0) + 1
            if "local_below" in used:
                hist["x_classes_with_helper_below"] += 1
                if "local" in used:
                    hist["x_classes_with_helpers_split"] += 1
            if tag[0] == "randomx":
                hist["x_random_classes"] += 1
        if c is None:
            res.violation("C13: class %s missing from the CBO result" % s.name, {"source": src})
            continue
        want = int(model[ci].split("|")[0]) if model else len(exp)
        b = str(min(c["count"], 9))
        hist["by_cbo"][b] = hist["by_cbo"].get(b, 0) + 1
        if want > 0:
            nontrivial.add(ci)
        want_names = sorted(s.bound(i) for i in exp)
        if c["count"] != want or sorted(c["deps"]) != want_names or c["count"] != len(c["deps"]):
            if tag[0] in ("matrix", "matrixx", "split"):
                sig = {"kind": "position", "position": tag[1], "import": tag[2]}
            elif tag[0] in ("form", "formx"):
                sig = {"kind": "mention-form", "form": tag[1], "import": tag[2]}
            elif tag[0] == "selfref":
                sig = {"kind": "self-reference", "form": tag[1]}
            elif tag[0] == "name":
                sig = {"kind": "name-shape", "name": tag[1], "how": tag[2]}
            elif tag[0] in ("nest", "nestx"):
                sig = {"kind": "nested-instantiation", "style": tag[1], "where": tag[2]}
            else:
                missing = [n for n in want_names if n not in c["deps"]]
                extra = [n for n in c["deps"] if n not in want_names]
                sig = {"kind": "random" if tag[0] == "random" else "random-forms-layouts", "missing": len(missing) > 0, "extra": len(extra) > 0}
            k = C.classify(PID, sig)
            if tag[0] == "random":
                # attribute to known matrix cells: every missing class is mentioned ONLY through known-lost (position, import) cells
                known = [(f["signature"].get("position"), f["signature"].get("import")) for f in C.known_findings()
                         if f.get("property") == PID and f.get("status") == "known" and f["signature"].get("kind") == "position"]
                missing_ids = [i for i in exp if s.bound(i) not in c["deps"]]
                extra = [n for n in c["deps"] if n not in want_names]
                explained = bool(missing_ids) and not extra and all(
                    all(f == "instantiate" and (p, s.others[i][0]) in known for (cid, f, p) in s.mentions if cid == i) for i in missing_ids)
                if explained:
                    hist["explained_by_known_cells"] = hist.get("explained_by_known_cells", 0) + 1
                    continue
            if k:
                res.known_finding(k, "(reported %d %s, expected %d %s)" % (c["count"], c["deps"], want, want_names))
            else:
                diffs += 1
                res.violation("C13: %s has CBO %d %s, the distinct coupled classes it mentions are %d %s" % (s.name, c["count"], c["deps"], want, want_names),
                              {"signature": sig, "source": src, "tag": list(tag)})
            continue
        # metamorphic variants on classes that are right to begin with (random ones only, to bound the volume)
        if tag[0] == "random" and s.mentions and len(meta_src) < (400 if tier == "quick" else 4000):
            n = len([m for m in s.mentions if m[1] != "base"])
            order = list(range(n))
            rng.shuffle(order)
            again = ClassSpec(s.name)
            again.others = dict(s.others)
            again.mentions = s.mentions + [rng.choice(s.mentions)]
            plus = ClassSpec(s.name)
            plus.others = dict(s.others)
            plus.others[999] = (rng.choice(IMPORT_FORMS), "Fresh", "Fresh")
            plus.mentions = s.mentions + [(999, rng.choice(["attr_hint", "param_hint", "return_hint", "attr_hint_generic"]), None)]
            for kind, src2, name2, delta in (("reorder", render(s, member_order=order), s.name, 0), ("rename-self", render(s, self_name="Renamed"), "Renamed", 0),
                                             ("unrelated-added", render(s, extra_unrelated=2), s.name, 0), ("mention-again", render(again), s.name, 0),
                                             ("one-new", render(plus), s.name, 1)):
                meta_src.append({"Src": src2})
                meta_info.append((kind, name2, c["count"] + delta, src, src2, None))
        if tag[0] == "randomx" and s.mentions and meta_x < (150 if tier == "quick" else 1500):
            meta_x += 1
            n = len([m for m in s.mentions if m[1] != "base"])
            order = list(range(n))
            xrng.shuffle(order)
            again = ClassSpec(s.name)
            again.others = dict(s.others)
            again.mentions = s.mentions + [xrng.choice(s.mentions)]
            # one new coupled class that is ONLY instantiated, in any import form / layout (appended below the class, `from . import Fresh`, …)
            plus = ClassSpec(s.name)
            plus.others = dict(s.others)
            pform = xrng.choice(X_RANDOM_FORMS)
            plus.others[999] = (pform, "Fresh", "Fr" if is_alias_form(pform) else "Fresh")
            plus.mentions = s.mentions + [(999, "instantiate", xrng.choice(x_positions))]
            # the same class with its same-file helpers moved to the other side of it (only helpers that are named at call time can move below)
            call_only = set(s.others)
            for cid, f, p in s.mentions:
                if f not in ("instantiate", "instantiate_nested"):
                    call_only.discard(cid)
            moved = ClassSpec(s.name)
            moved.mentions = list(s.mentions)
            for cid, (f, real, bound) in s.others.items():
                if f == "local" and cid in call_only:
                    f = "local_below"
                elif f == "local_below":
                    f = "local"
                moved.others[cid] = (f, real, bound)
            # the same class with every import written in another form of the same kind (alias stays alias: the listed names do not change)
            reimp = ClassSpec(s.name)
            reimp.mentions = list(s.mentions)
            for cid, (f, real, bound) in s.others.items():
                if f in IMPORT_TEMPLATES:
                    f = xrng.choice([g for g in IMPORT_TEMPLATES if is_alias_form(g) == is_alias_form(f) and g != f])
                reimp.others[cid] = (f, real, bound)
            same = sorted(c["deps"])
            for kind, src2, name2, delta, names in (("reorder", render(s, member_order=order), s.name, 0, same), ("rename-self", render(s, self_name="Renamed"), "Renamed", 0, same),
                                                    ("unrelated-added", render(s, extra_unrelated=2), s.name, 0, same), ("mention-again", render(again), s.name, 0, same),
                                                    ("one-new-instantiated", render(plus), s.name, 1, sorted(same + [plus.bound(999)])),
                                                    ("helpers-moved", render(moved), s.name, 0, same), ("import-form-changed", render(reimp), s.name, 0, same)):
                meta_src.append({"Src": src2})
                meta_info.append((kind, name2, c["count"] + delta, src, src2, names))
                hist["x_metamorphic_pairs"] += 1
                hist["x_metamorphic_by_law"][kind] = hist["x_metamorphic_by_law"].get(kind, 0) + 1
    if meta_src:
        mg = C.harness_batch("cbo", meta_src)
        for g, (kind, name2, want, src, src2, names) in zip(mg, meta_info):
            hist["metamorphic_pairs"] += 1
            c = subject(g, name2) if "classes" in g else None
            if c is None or c["count"] != want or (names is not None and sorted(c["deps"]) != names):
                res.violation("C13 (%s): CBO becomes %s%s, expected %d%s" % (kind, None if c is None else c["count"], "" if c is None or names is None else " %s" % sorted(c["deps"]),
                                                                             want, "" if names is None else " %s" % names),
                              {"signature": {"kind": "metamorphic", "law": kind}, "before": src, "after": src2})
    # ---- hand-written shapes (import forms, annotation shapes, positions outside the statement matrix, built-ins) ----------------------------------------
    shp = C.harness_batch("cbo", [{"Src": shape_source(h, b)} for _, h, b, _, _ in SHAPES])
    hist["shape_cases"] = len(SHAPES)
    for (tag, h, b, want, names), g in zip(SHAPES, shp):
        src = shape_source(h, b)
        try:
            compile(src, "shape", "exec")
        except SyntaxError as e:
            res.violation("generator error: shape %s is not valid Python: %s" % (tag, e), {"source": src})
            continue
        c = subject(g, "Subject") if "classes" in g else None
        hist["classes"] += 1
        hist["matrix_cells"] += 1
        if c is None:
            res.violation("C13: class Subject missing from the CBO result of shape %s: %s" % (tag, g), {"source": src})
            continue
        if want > 0:
            nontrivial.add("shape:" + tag)
        if c["count"] != want or c["count"] != len(c["deps"]) or (names is not None and sorted(c["deps"]) != names):
            sig = {"kind": "shape", "case": tag}
            k = C.classify(PID, sig)
            if k:
                res.known_finding(k, "(reported %d %s, expected %d %s)" % (c["count"], c["deps"], want, names))
            else:
                diffs += 1
                res.violation("C13 shape %s: Subject has CBO %d %s, the distinct coupled classes it mentions are %d %s" % (tag, c["count"], c["deps"], want, names if names is not None else "(one name per class)"),
                              {"signature": sig, "source": src})
    # ---- several files through the real CLI: a class's CBO is a function of ITS file (names imported elsewhere are not imported here) -----------------------
    import shutil
    import tempfile
    tmpd = tempfile.mkdtemp(prefix="pv_c13_")
    try:
        proj = os.path.join(tmpd, "proj")
        os.makedirs(proj)
        files = {"a_first.py": "from lib0 import Motor, Widget as W, Gear\n\n\nclass User:\n    def m(self):\n        return Motor(), W(), Gear()\n",
                 "b_later.py": "def Motor():\n    return 1\n\n\nW = print\n\n\nclass Panel:\n    def m(self, Gear):\n        return Motor(), W(), Gear()\n",
                 "c_last.py": "from lib0 import Gear\n\n\nclass Dashboard:\n    def m(self):\n        return Gear(), Motor(), W()\n\n\ndef Motor():\n    return 2\n\n\ndef W():\n    return 3\n"}
        want_cli = {"User": 3, "Panel": 0, "Dashboard": 1}
        good = [(tag, sp, src) for (tag, sp, src, exp), g in zip(cases, go) if tag[0] == "random" and "classes" in g and subject(g, sp.name) and subject(g, sp.name)["count"] == len(exp)][:40]
        for i, (tag, sp, src) in enumerate(good):
            files["gen_%02d.py" % i] = src
            want_cli[sp.name] = None
        single = {}
        for (tag, sp, src), g in zip([(t, s_, sr) for t, s_, sr, _ in cases], go):
            if "classes" in g and subject(g, sp.name):
                single[sp.name] = subject(g, sp.name)
        for fn, text in files.items():
            with open(os.path.join(proj, fn), "w") as f:
                f.write(text)
        with open(os.path.join(tmpd, "cfg.toml"), "w") as f:
            f.write("[cbo]\nshow_zeros = true\n")
        rc, data, err = C.pyscn_json(["proj"], tmpd, extra=["--select", "cbo", "--config", os.path.join(tmpd, "cfg.toml")])
        hist["cli_classes"] = 0
        if data is None or not data.get("cbo"):
            res.violation("analyze --select cbo produced no cbo section on the multi-file project: %s" % err[-300:], {"files": files})
        else:
            got = {}
            for c in data["cbo"]["Classes"] or []:
                got.setdefault(c["Name"], []).append((c["Metrics"]["CouplingCount"], sorted(c["Metrics"]["DependentClasses"] or [])))
            for name, want in want_cli.items():
                hist["cli_classes"] += 1
                if want is None:
                    want, wnames = single[name]["count"], sorted(single[name]["deps"])
                else:
                    wnames = None
                g = got.get(name)
                if not g or len(g) != 1 or g[0][0] != want or (wnames is not None and g[0][1] != wnames):
                    res.violation("C13 (several files, real CLI): class %s is reported with %s; analysed alone its CBO is %d %s" % (name, g, want, wnames or ""),
                                  {"signature": {"kind": "multi-file", "class": name if name in ("User", "Panel", "Dashboard") else "generated"}, "files": files})
    finally:
        shutil.rmtree(tmpd, ignore_errors=True)
    # risk thresholds on the real code
    for lo, med in ((3, 7), (1, 2), (2, 5)):
        for k in sorted(set([0, lo - 1, lo, lo + 1, med, med + 1])):
            if k < 0:
                continue
            s = ClassSpec("Subject")
            for cid in range(1, k + 1):
                s.others[cid] = ("local", "L%d" % cid, "L%d" % cid)
                s.mentions.append((cid, "attr_hint", None))
            g = C.harness_batch("cbo", [{"Src": render(s), "Low": lo, "Medium": med}])[0]
            c = subject(g, "Subject")
            want = "low" if k <= lo else "medium" if k <= med else "high"
            if c is None or c["count"] != k or c["risk"] != want:
                res.violation("C13 risk: CBO %s with thresholds (%d,%d) reported `%s`, expected CBO %d `%s`" % (None if c is None else c["count"], lo, med, None if c is None else c["risk"], k, want),
                              {"low": lo, "medium": med, "source": render(s)})
    if not ps.ok and not any(fi for _, _, fi in res.violations):
        res.violation("proof obligation or tie broken: " + "; ".join(ps.broken)[:1500], {"broken": ps.broken, "note": "no class violating C13 beyond known findings was found"},
                      found_input=False)
    res.coverage.update({
        "evaluations": hist["classes"] + hist["metamorphic_pairs"],
        "distinct_nontrivial": len(nontrivial),
        "rule": "matrix: %d instantiation positions × 3 import forms (same-file, from-import, from-import-as) + 8 annotation/base forms × 3 import forms; random classes "
                "(0-9 coupled classes + built-ins, 0-12 mentions in random forms/positions); %d hand-written shapes (import forms incl. aliased+plain, two aliases, module-qualified; "
                "annotation shapes; positions such as defaults, decorator arguments, targets, class level; all built-in exception classes); a multi-file project through the real "
                "CLI (each class as when analysed alone; names imported in another file are not imported here); five metamorphic variants per correct random class; risk on thresholds; "
                "further forms/layouts as a separate dimension: %d positions (all that are not lost for every basic form) × %d forms (same-file class defined BELOW its user; "
                "`from . import X`, `from .. import X`, `from .m import X`, `from ..p.m import X`, each with and without alias) + helpers split above/below/relative-imported at each "
                "position + annotation/base forms × relative imports + nested instantiations across layouts; random classes drawing from all %d forms with seven metamorphic variants "
                "(the five above with names compared, one new class that is ONLY instantiated in a random form/layout, same-file helpers moved to the other side of the class, "
                "every import rewritten in another form); "
                "non-trivial = class with expected CBO > 0" % (len(INST_POSITIONS), len(SHAPES), len(x_positions), len(X_IMPORT_FORMS), len(X_RANDOM_FORMS)),
        "exhaustive": True,
        "exhaustive_note": "the position/form matrices are run completely on every run",
        "samples": [{"source": cases[0][2], "reported": go[0].get("classes")}],
        "traces_validated_against_impl": hist["classes"] - diffs,
        "distribution": hist,
    })
    return res.finish("proof")
