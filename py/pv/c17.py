"""C17 — configuration precedence: explicit flag over config file over default (DESIGN.md §4 C17)."""
import json
import os
import random
import shutil
import tempfile

from . import common as C

PID = "C17"

SRC = '''import os


class Helper:
    pass


class Other:
    pass


class Subject(Helper):
    dep: Other = None

    def low(self, a):
        return a

    def mid(self, a, b):
        if a:
            if b:
                return 1
            return 2
        for k in range(3):
            if k == b:
                return k
        return 0
        unreachable = 1

    def six(self, a):
        if a == 1:
            return 1
        if a == 2:
            return 2
        if a == 3:
            return 3
        if a == 4:
            return 4
        if a == 5:
            return 5
        return 0
'''

# options that exist both as a flag of `analyze` and as a configuration key:
# (name, flag, section, key, default, other values (toml literals == flag literals), how to read the effective value from the report)
BOTH = [
    ("min_complexity", "--min-complexity", "complexity", "min_complexity", 5, [1, 6, 0, 5], lambda d: d["complexity"]["Config"]["min_complexity"]),
    ("min_severity", "--min-severity", "dead_code", "min_severity", "warning", ["critical", "info", "warning"], lambda d: d["dead_code"]["config"]["min_severity"]),
    ("similarity_threshold", "--clone-threshold", "clones", "similarity_threshold", 0.65, [0.9, 0.5, 0.65], lambda d: d["clone"]["request"]["similarity_threshold"]),
    ("min_cbo", "--min-cbo", "cbo", "min_cbo", 0, [2, 1, 0], lambda d: d["cbo"]["Config"]["minCBO"]),
]

# configuration-only keys: (section, key, default as echoed, non-default values incl. zero/false, reader)
FILE_ONLY = [
    ("complexity", "low_threshold", 9, [3, 1], lambda d: d["complexity"]["Config"]["low_threshold"]),
    ("complexity", "medium_threshold", 19, [30, 12], lambda d: d["complexity"]["Config"]["medium_threshold"]),
    ("dead_code", "detect_after_return", True, [False], lambda d: d["dead_code"]["config"]["detect_after_return"]),
    ("dead_code", "detect_after_raise", True, [False], lambda d: d["dead_code"]["config"]["detect_after_raise"]),
    ("dead_code", "detect_after_break", True, [False], lambda d: d["dead_code"]["config"]["detect_after_break"]),
    ("dead_code", "detect_after_continue", True, [False], lambda d: d["dead_code"]["config"]["detect_after_continue"]),
    ("dead_code", "detect_unreachable_branches", True, [False], lambda d: d["dead_code"]["config"]["detect_unreachable_branches"]),
    ("dead_code", "context_lines", 3, [0, 7], lambda d: d["dead_code"]["config"]["context_lines"]),
    ("clones", "min_lines", None, [3, 25], lambda d: d["clone"]["request"]["min_lines"]),
    ("clones", "min_nodes", None, [4, 33], lambda d: d["clone"]["request"]["min_nodes"]),
    ("clones", "type1_threshold", None, [0.99], lambda d: d["clone"]["request"]["type1_threshold"]),
    ("clones", "type4_threshold", None, [0.3], lambda d: d["clone"]["request"]["type4_threshold"]),
    ("clones", "max_edit_distance", None, [7.0, 0.0], lambda d: d["clone"]["request"]["max_edit_distance"]),
    ("clones", "ignore_literals", None, [True, False], lambda d: d["clone"]["request"]["ignore_literals"]),
    ("clones", "ignore_identifiers", None, [True, False], lambda d: d["clone"]["request"]["ignore_identifiers"]),
    ("clones", "skip_docstrings", None, [True, False], lambda d: d["clone"]["request"]["skip_docstrings"]),
    ("clones", "enable_dfa", None, [False, True], lambda d: d["clone"]["request"]["enable_dfa"]),
    ("clones", "lsh_enabled", None, ["true", "false"], lambda d: d["clone"]["request"]["lsh_enabled"]),
    ("clones", "lsh_bands", None, [8], lambda d: d["clone"]["request"]["lsh_bands"]),
    ("clones", "lsh_rows", None, [2], lambda d: d["clone"]["request"]["lsh_rows"]),
    ("clones", "lsh_hashes", None, [64], lambda d: d["clone"]["request"]["lsh_hashes"]),
    ("clones", "grouping_mode", None, ["star", "k_core"], lambda d: d["clone"]["request"]["group_mode"]),
    ("clones", "grouping_threshold", None, [0.9], lambda d: d["clone"]["request"]["group_threshold"]),
    ("clones", "k_core_k", None, [3], lambda d: d["clone"]["request"]["k_core_k"]),
    ("cbo", "low_threshold", 3, [1, 5], lambda d: d["cbo"]["Config"]["lowThreshold"]),
    ("cbo", "medium_threshold", 7, [4, 9], lambda d: d["cbo"]["Config"]["mediumThreshold"]),
    ("cbo", "include_builtins", False, [True], lambda d: d["cbo"]["Config"]["includeBuiltins"]),
    ("cbo", "include_imports", True, [False], lambda d: d["cbo"]["Config"]["includeImports"]),
    ("cbo", "show_zeros", False, [True], lambda d: d["cbo"]["Config"]["showZeros"]),
    ("lcom", "low_threshold", 2, [1, 4], lambda d: d["lcom"]["Config"]["lowThreshold"]),
    ("lcom", "medium_threshold", 5, [3, 9], lambda d: d["lcom"]["Config"]["mediumThreshold"]),
]

# LIST-valued configuration keys (replace semantics: the list in the file IS the effective list). A list-valued key is one of "every key" of
# the quantifier; its value dimension is the set of lists over the key's universe of valid members: equal to the default list, a sub-list of
# the default, and lists with members that are NOT part of the default.
# (section, key, universe of valid members, documented default (as a set), reader of the effective list -> list of member names)
LIST_KEYS = [
    ("clones", "enabled_clone_types", ["type1", "type2", "type3", "type4"], ["type1", "type2", "type4"],
     lambda d: ["type%d" % t for t in d["clone"]["request"]["clone_types"]]),
]


def sublists(universe):
    """every non-empty combination of the members, in the universe's order"""
    out = []
    for m in range(1, 1 << len(universe)):
        out.append([u for i, u in enumerate(universe) if m >> i & 1])
    return out


def near_default(default):
    """values that DIFFER from the default but lie next to it (the 'different from the default' side of the value dimension, at its
    boundary): the neighbours of an integer default, and for a fractional default values within and just outside half a percentage point"""
    if isinstance(default, bool) or isinstance(default, str) or default is None:
        return []
    if isinstance(default, int):
        return [v for v in (default - 1, default + 1) if v >= 0]
    return [round(default + dx, 6) for dx in (0.004, -0.004, 0.0001, 0.01, -0.01) if 0.0 < default + dx < 1.0]


def toml_lit(v):
    if isinstance(v, bool):
        return "true" if v else "false"
    if isinstance(v, str):
        return json.dumps(v)
    return repr(v)


def analyze(root, target, cfg_text=None, cfg_name=".pyscn.toml", cfg_dir=None, flags=(), cwd=None, explicit=None):
    """one run of the real binary; returns the report dict or None"""
    d = cfg_dir or os.path.join(root, "proj")
    for n in (".pyscn.toml", "pyproject.toml"):
        p = os.path.join(d, n)
        if os.path.exists(p):
            os.remove(p)
    if cfg_text is not None:
        with open(os.path.join(d, cfg_name), "w") as f:
            f.write(cfg_text)
    extra = list(flags)
    if explicit:
        extra += ["--config", explicit]
    rc, data, err = C.pyscn_json([target], cwd or root, extra=extra)
    return data, err


def run(tier, seed, replay=None):
    res = C.Result(PID, tier, seed)
    rng = random.Random(seed * 1000003 + 17)
    ps = C.prove(PID)
    C.proof_coverage(res, ps, "cd /verif/lean && lake build PV.Properties.C17 && #print axioms (audit)")
    res.assumptions += [
        "the effective value of an option is read from the request/config echo of the JSON report section it belongs to (and, for the filters, from which items survive)",
        "TOML parsing (go-toml) is trusted; configuration values are written as TOML literals, flag values as command-line strings",
    ]
    hist = {"cells_both": 0, "cells_file_only": 0, "discovery_cases": 0, "init_cases": 0, "check_cells": 0, "near_default_values": 0, "cells_near_default": 0,
            "discovery_via_link": 0, "explicit_config_cases": 0, "check_via_link": 0,
            "cells_list_key": 0, "list_values_with_non_default_member": 0, "list_values_equal_default": 0, "list_values_reordered": 0, "list_pairs_checked": 0}
    nontrivial = set()
    tmp = tempfile.mkdtemp(prefix="pv_c17_")
    try:
        root = os.path.join(tmp, "w")
        proj = os.path.join(root, "proj")
        os.makedirs(proj)
        with open(os.path.join(proj, "m.py"), "w") as f:
            f.write(SRC)
        base, err = analyze(root, "proj")
        if base is None:
            res.violation("analyze produced no report on the reference project: %s" % err[-300:], {"source": SRC})
            return res.finish("proof")
        # ---- options with a flag and a key: flag state x key state ---------------------------------------------------------------
        for name, flag, section, key, default, values, read in BOTH:
            values = values + [v for v in near_default(default) if v not in values]
            hist["near_default_values"] += len(near_default(default))
            for fv in [None] + values:                       # None = flag absent
              for cfg_name, head in ((".pyscn.toml", "[%s]"), ("pyproject.toml", "[tool.pyscn.%s]")):     # both kinds of configuration file
                for kv in ([None] if cfg_name == ".pyscn.toml" else []) + values:                   # None = key absent
                    cfg = None if kv is None else (head % section) + "\n%s = %s\n" % (key, toml_lit(kv))
                    flags = [] if fv is None else [flag, str(fv)]
                    data, err = analyze(root, "proj", cfg_text=cfg, cfg_name=cfg_name, flags=flags)
                    hist["cells_both"] += 1
                    if fv in near_default(default) or kv in near_default(default):
                        hist["cells_near_default"] += 1
                    want = fv if fv is not None else (kv if kv is not None else default)
                    cell = {"option": name, "flag": "absent" if fv is None else ("default" if fv == default else "other"),
                            "key": "absent" if kv is None else ("default" if kv == default else ("zero" if kv in (0, 0.0, False) else "other"))}
                    if data is None:
                        res.violation("C17: analyze fails with %s %s and [%s] %s = %s: %s" % (flag, fv, section, key, kv, err[-200:]), {"signature": dict(cell, kind="error"), "config": cfg, "flags": flags})
                        continue
                    got = read(data)
                    nontrivial.add((name, str(fv), str(kv)))
                    if got != want:
                        sig = dict(cell, kind="precedence")
                        k = C.classify(PID, sig)
                        what = "C17: option %s: flag %s, config key %s -> effective %r, expected %r (flag > file > default %r)" % (
                            name, "absent" if fv is None else "%s %s" % (flag, fv), "absent" if kv is None else "%s: %s %s = %s" % (cfg_name, head % section, key, toml_lit(kv)), got, want, default)
                        if k:
                            res.known_finding(k, "(%s)" % what)
                        else:
                            res.violation(what, {"signature": sig, "config": cfg, "flags": flags, "source": SRC})
        # ---- configuration-only keys: present (incl. zero / false) vs absent --------------------------------------------------------
        for section, key, default, values, read in FILE_ONLY:
            try:
                dflt = read(base)
            except Exception:
                dflt = None
            if default is not None and dflt != default:
                res.violation("C17: without any configuration the echoed %s.%s is %r, the documented default is %r" % (section, key, dflt, default),
                              {"signature": {"kind": "default", "section": section, "key": key}})
            for kv, cfg_name, head in [(v, n, h) for v in values for n, h in ((".pyscn.toml", "[%s]"), ("pyproject.toml", "[tool.pyscn.%s]"))]:
                cfg = (head % section) + "\n%s = %s\n" % (key, toml_lit(kv))
                data, err = analyze(root, "proj", cfg_text=cfg, cfg_name=cfg_name)
                hist["cells_file_only"] += 1
                if data is None:
                    res.violation("C17: analyze fails with [%s] %s = %s: %s" % (section, key, toml_lit(kv), err[-200:]), {"signature": {"kind": "error", "section": section, "key": key}, "config": cfg})
                    continue
                got = read(data)
                nontrivial.add((section, key, str(kv)))
                if got != kv:
                    sig = {"kind": "file-key-ignored", "section": section, "key": key, "zero": kv in (0, 0.0, False)}
                    k = C.classify(PID, sig)
                    what = "C17: %s %s = %s is present in %s, the effective value is %r (default %r)" % (head % section, key, toml_lit(kv), cfg_name, got, dflt)
                    if k:
                        res.known_finding(k, "(%s)" % what)
                    else:
                        res.violation(what, {"signature": sig, "config": cfg, "source": SRC})
        # ---- list-valued keys: key absent -> the default list; key present -> exactly the list in the file, for EVERY non-empty combination of the
        #      valid members (incl. the default list itself, its sub-lists, and lists with members outside the default), in both kinds of file.
        #      A list of enabled kinds is compared as a SET (the property fixes which value is effective, not an order of its members).
        for section, key, universe, default, read in LIST_KEYS:
            try:
                dflt = read(base)
            except Exception:
                dflt = None
            if dflt is None or sorted(dflt) != sorted(default):
                res.violation("C17: without any configuration the echoed %s.%s is %r, the documented default is %r" % (section, key, dflt, default),
                              {"signature": {"kind": "default", "section": section, "key": key}})
            combos = sublists(universe)
            for ci, members in enumerate(combos):
                for cfg_name, head in ((".pyscn.toml", "[%s]"), ("pyproject.toml", "[tool.pyscn.%s]")):
                    kv = list(members)
                    if len(kv) > 1 and rng.random() < 0.5:          # the order in which the file spells the members is free
                        rng.shuffle(kv)
                        if kv != members:
                            hist["list_values_reordered"] += 1
                    cfg = (head % section) + "\n%s = [%s]\n" % (key, ", ".join(json.dumps(m) for m in kv))
                    data, err = analyze(root, "proj", cfg_text=cfg, cfg_name=cfg_name)
                    hist["cells_list_key"] += 1
                    outside = sorted(set(kv) - set(default))
                    if outside:
                        hist["list_values_with_non_default_member"] += 1
                    if sorted(kv) == sorted(default):
                        hist["list_values_equal_default"] += 1
                    sig = {"kind": "file-list-key", "section": section, "key": key, "equals_default": sorted(kv) == sorted(default),
                           "has_member_outside_default": bool(outside), "only_members_outside_default": not (set(kv) & set(default))}
                    if data is None:
                        res.violation("C17: analyze fails with %s %s = %s in %s: %s" % (head % section, key, json.dumps(kv), cfg_name, err[-200:]),
                                      {"signature": dict(sig, kind="error"), "config": cfg, "config_file": cfg_name, "source": SRC})
                        continue
                    try:
                        got = read(data)
                    except Exception:
                        got = None
                    nontrivial.add((section, key, ",".join(kv), cfg_name))
                    if got is None or sorted(set(got)) != sorted(set(kv)):
                        k = C.classify(PID, sig)
                        what = "C17: %s %s = %s is present in %s, the effective list is %r (members lost %s, members added %s; default %r)" % (
                            head % section, key, json.dumps(kv), cfg_name, got, sorted(set(kv) - set(got or [])), sorted(set(got or []) - set(kv)), default)
                        if k:
                            res.known_finding(k, "(%s)" % what)
                        else:
                            res.violation(what, {"signature": sig, "config": cfg, "config_file": cfg_name, "args": ["analyze", "--json", "proj"], "source": SRC})
                    # the observable effect of the same list: no reported clone pair is of a kind that the file does not enable
                    for pr in (data.get("clone") or {}).get("clone_pairs") or []:
                        hist["list_pairs_checked"] += 1
                        t = pr.get("type")
                        if isinstance(t, int) and "type%d" % t in universe and "type%d" % t not in kv:
                            res.violation("C17: %s %s = %s in %s, yet a clone pair of type %d is reported" % (head % section, key, json.dumps(kv), cfg_name, t),
                                          {"signature": dict(sig, kind="file-list-key-effect"), "config": cfg, "config_file": cfg_name, "source": SRC})
                            break
        # ---- `check`: --max-complexity vs [complexity] max_complexity vs 10 (observable: the exit status) ------------------------------------
        M = max(f["Metrics"]["Complexity"] for f in base["complexity"]["Functions"])
        for fv in (None, 10, M - 1, M):
            for kv in (None, 10, M - 1, M, 0):
                for n in (".pyscn.toml", "pyproject.toml"):
                    if os.path.exists(os.path.join(proj, n)):
                        os.remove(os.path.join(proj, n))
                if kv is not None:
                    with open(os.path.join(proj, ".pyscn.toml"), "w") as f:
                        f.write("[complexity]\nmax_complexity = %d\n" % kv)
                args = ["check", "--select", "complexity"] + ([] if fv is None else ["--max-complexity", str(fv)]) + ["proj"]
                for cwd, tgt in ((root, "proj"), (proj, "."), (tmp, "w/proj")):
                    a2 = args[:-1] + [tgt]
                    rc, out, err = C.pyscn(a2, cwd=cwd)
                    hist["check_cells"] += 1
                    eff = fv if fv is not None else (kv if kv not in (None, 0) else 10)      # 0 = "no limit configured" in this schema: the documented default applies
                    want = 1 if M > eff else 0
                    if rc != want:
                        sig = {"kind": "check-precedence", "flag": "absent" if fv is None else ("default" if fv == 10 else "other"),
                               "key": "absent" if kv is None else ("default" if kv == 10 else ("zero" if kv == 0 else "other")), "cwd_is_target_or_above": os.path.commonpath([cwd, proj]) == cwd and cwd != proj or cwd == proj,
                               "cwd": "target" if cwd == proj else ("parent" if cwd == root else "grandparent")}
                        k = C.classify(PID, sig)
                        what = "C17 check: max complexity in the code %d, --max-complexity %s, [complexity] max_complexity %s, run as `check %s` from the %s directory: exit %d, expected %d (effective limit %d)" % (
                            M, fv, kv, tgt, sig["cwd"], rc, want, eff)
                        if k:
                            res.known_finding(k, "(%s)" % what)
                        else:
                            res.violation(what, {"signature": sig, "args": a2, "output": (out + err)[-400:]})
        for n in (".pyscn.toml", "pyproject.toml"):
            if os.path.exists(os.path.join(proj, n)):
                os.remove(os.path.join(proj, n))
        # ---- discovery -------------------------------------------------------------------------------------------------------
        deep = os.path.join(root, "top", "mid", "proj2")
        os.makedirs(deep)
        shutil.copy(os.path.join(proj, "m.py"), os.path.join(deep, "m.py"))

        # the probe is a key that analyze honours (min_complexity itself is the known finding F6)
        def mc(data):
            return data["complexity"]["Config"]["low_threshold"] if data else None

        # HOW a configuration file is placed in its directory is part of "every placement": a regular file, or a symbolic link with
        # that name (shared tooling file of a monorepo). The file is identified by the NAME it has in the directory where it is found.
        VIAS = ("plain", "link-other-name", "link-same-name", "link-cross-name")
        shared = os.path.join(root, "shared")       # not at or above any analysed path
        counter = [0]

        def cfg_text(name, val):
            if val is None:       # a pyproject.toml that does not configure pyscn at all: it is not a configuration file of pyscn
                return "[project]\nname = \"x\"\n\n[tool.black]\nline-length = 100\n"
            return ("[complexity]\nlow_threshold = %d\n" % val) if name == ".pyscn.toml" else ("[tool.pyscn.complexity]\nlow_threshold = %d\n" % val)

        def put(d, name, val, via="plain"):
            place(d, name, cfg_text(name, val), via)

        def place(d, name, text, via="plain"):
            if via == "plain":
                with open(os.path.join(d, name), "w") as f:
                    f.write(text)
                return
            counter[0] += 1
            sd = os.path.join(shared, "s%d" % counter[0])
            os.makedirs(sd)
            tname = {"link-other-name": "python-tooling.toml", "link-same-name": name,
                     "link-cross-name": ".pyscn.toml" if name == "pyproject.toml" else "pyproject.toml"}[via]
            with open(os.path.join(sd, tname), "w") as f:
                f.write(text)
            tgt = os.path.join(sd, tname)
            os.symlink(os.path.relpath(tgt, d) if counter[0] % 2 else tgt, os.path.join(d, name))      # relative and absolute links

        def clear():
            for d in (deep, os.path.dirname(deep), os.path.dirname(os.path.dirname(deep)), root):
                for n in (".pyscn.toml", "pyproject.toml"):
                    if os.path.lexists(os.path.join(d, n)):
                        os.remove(os.path.join(d, n))
            shutil.rmtree(shared, ignore_errors=True)
        mid, top = os.path.dirname(deep), os.path.dirname(os.path.dirname(deep))
        scenarios = [
            ("pyscn.toml next to the code", [(deep, ".pyscn.toml", 2)], 2),
            ("pyproject.toml next to the code", [(deep, "pyproject.toml", 3)], 3),
            ("both in one directory: .pyscn.toml wins", [(deep, ".pyscn.toml", 2), (deep, "pyproject.toml", 3)], 2),
            ("one level up", [(mid, ".pyscn.toml", 4)], 4),
            ("two levels up (pyproject)", [(top, "pyproject.toml", 6)], 6),
            ("nearest of two .pyscn.toml", [(deep, ".pyscn.toml", 2), (top, ".pyscn.toml", 7)], 2),
            ("nearest of two .pyscn.toml (mid vs top)", [(mid, ".pyscn.toml", 4), (top, ".pyscn.toml", 7)], 4),
            ("nearest of two pyproject.toml", [(mid, "pyproject.toml", 3), (top, "pyproject.toml", 6)], 3),
            ("nearer .pyscn.toml, farther pyproject.toml", [(mid, ".pyscn.toml", 4), (top, "pyproject.toml", 6)], 4),
            ("a nearer pyproject.toml without [tool.pyscn] is not a pyscn configuration", [(mid, "pyproject.toml", None), (top, "pyproject.toml", 6)], 6),
            ("pyproject.toml without [tool.pyscn] next to the code, .pyscn.toml above", [(deep, "pyproject.toml", None), (top, ".pyscn.toml", 7)], 7),
            ("only a pyproject.toml without [tool.pyscn]", [(deep, "pyproject.toml", None)], 9),
            ("no file at all", [], 9),
        ]
        spellings = ((root, "top/mid/proj2"), (deep, "."), (mid, "proj2"), (tmp, os.path.join("w", "top", "mid", "proj2")), (proj, os.path.relpath(deep, proj)))
        for si, (title, files, want) in enumerate(scenarios):
          for vi, via in enumerate(VIAS):
            if via != "plain" and not files:
                continue
            # regular files: every (cwd, spelling); links: two of the five per layout, rotating so that all five occur for every kind of link
            for cwd, target in (spellings if via == "plain" else [spellings[(si + vi) % 5], spellings[(si + vi + 2) % 5]]):
                clear()
                for d, n, v in files:
                    put(d, n, v, via)
                rc, data, err = C.pyscn_json([target], cwd)
                hist["discovery_cases"] += 1
                if via != "plain":
                    hist["discovery_via_link"] += 1
                    nontrivial.add(("discovery", title, via))
                got = mc(data)
                if got != want:
                    sig = {"kind": "discovery", "scenario": title, "cwd_is_target_or_above": os.path.commonpath([cwd, deep]) == cwd}
                    if via != "plain":
                        sig["via"] = via
                    k = C.classify(PID, sig)
                    what = "C17 discovery (%s%s): analysing %s from %s uses low_threshold %r, expected %r from the nearest file at or above the analysed path" % (
                        title, "" if via == "plain" else "; each configuration file is a symbolic link [%s] to a file elsewhere" % via, target, os.path.relpath(cwd, tmp), got, want)
                    if k:
                        res.known_finding(k, "(%s)" % what)
                    else:
                        res.violation(what, {"signature": sig, "files": [(os.path.relpath(d, root), n, v) for d, n, v in files], "via": via, "cwd": os.path.relpath(cwd, tmp), "target": target,
                                             "layout": sorted((os.path.relpath(os.path.join(dp, fn), root), os.readlink(os.path.join(dp, fn)) if os.path.islink(os.path.join(dp, fn)) else None)
                                                              for dp, _, fns in os.walk(root) for fn in fns if fn.endswith(".toml"))})
        # explicit --config always wins
        clear()
        put(deep, ".pyscn.toml", 2)
        other = os.path.join(root, "other.toml")
        with open(other, "w") as f:
            f.write("[complexity]\nlow_threshold = 8\n")
        rc, data, err = C.pyscn_json(["top/mid/proj2"], root, extra=["--config", other])
        hist["discovery_cases"] += 1
        if mc(data) != 8:
            res.violation("C17: --config other.toml (low_threshold = 8) next to a discovered .pyscn.toml (2): effective %r" % mc(data), {"signature": {"kind": "explicit-config"}})
        rc, data, err = C.pyscn_json(["top/mid/proj2"], root, extra=["--config", other, "--min-complexity", "3"])
        if data is None or data["complexity"]["Config"]["min_complexity"] != 3 or mc(data) != 8:
            res.violation("C17: --config other.toml (low_threshold 8) and --min-complexity 3: effective %r / %r" % (mc(data), data and data["complexity"]["Config"]["min_complexity"]), {"signature": {"kind": "explicit-config-flag"}})
        # ... also when the file named by --config (or found in the directory named by --config) is a symbolic link
        cfgs = os.path.join(root, "cfgs")
        for ci, (lname, via, as_dir) in enumerate([(n, v, a) for n in ("pyproject.toml", ".pyscn.toml", "team.toml") for v in VIAS for a in ((False, True) if n != "team.toml" else (False,))]):
            clear()
            shutil.rmtree(cfgs, ignore_errors=True)
            os.makedirs(cfgs)
            put(deep, ".pyscn.toml", 2)
            place(cfgs, lname, cfg_text("pyproject.toml" if lname == "pyproject.toml" else ".pyscn.toml", 8), via)
            arg = cfgs if as_dir else os.path.join(cfgs, lname)
            if ci % 2:
                arg = os.path.relpath(arg, root)
            rc, data, err = C.pyscn_json(["top/mid/proj2"], root, extra=["--config", arg])
            hist["explicit_config_cases"] += 1
            nontrivial.add(("explicit", lname, via, as_dir))
            if mc(data) != 8:
                sig = {"kind": "explicit-config", "name": lname, "via": via, "as_directory": as_dir}
                k = C.classify(PID, sig)
                what = "C17: --config %s (%s%s, sets low_threshold = 8) next to a discovered .pyscn.toml (2): effective %r, expected 8 (an explicit --config always wins)%s" % (
                    arg, lname, "" if via == "plain" else ", a symbolic link [%s] -> %s" % (via, os.readlink(os.path.join(cfgs, lname))), mc(data), "" if data else "; " + err[-200:])
                if k:
                    res.known_finding(k, "(%s)" % what)
                else:
                    res.violation(what, {"signature": sig, "config_arg": arg, "config_text": cfg_text("pyproject.toml" if lname == "pyproject.toml" else ".pyscn.toml", 8)})
        shutil.rmtree(cfgs, ignore_errors=True)
        clear()
        # ---- `check` reads the same file: the gate of a linked configuration file is effective, and the flag still wins over it ----------------
        for name, head in ((".pyscn.toml", "[complexity]"), ("pyproject.toml", "[tool.pyscn.complexity]")):
            for via in VIAS[1:]:
                for fv in (None, M):
                    clear()
                    place(deep, name, "%s\nmax_complexity = %d\n" % (head, M - 1), via)
                    a2 = ["check", "--select", "complexity"] + ([] if fv is None else ["--max-complexity", str(fv)]) + ["top/mid/proj2"]
                    rc, out, err = C.pyscn(a2, cwd=root)
                    hist["check_via_link"] += 1
                    want = 1 if fv is None else 0
                    if rc != want:
                        sig = {"kind": "check-precedence", "flag": "absent" if fv is None else "other", "key": "other", "via": via, "file": name}
                        k = C.classify(PID, sig)
                        what = "C17 check: max complexity in the code %d, --max-complexity %s, %s max_complexity = %d in a %s that is a symbolic link [%s]: exit %d, expected %d" % (
                            M, fv, head, M - 1, name, via, rc, want)
                        if k:
                            res.known_finding(k, "(%s)" % what)
                        else:
                            res.violation(what, {"signature": sig, "args": a2, "output": (out + err)[-400:]})
        clear()
        # ---- pyscn init gives the default behaviour ----------------------------------------------------------------------------------
        initd = os.path.join(root, "initproj")
        os.makedirs(initd)
        shutil.copy(os.path.join(proj, "m.py"), os.path.join(initd, "m.py"))
        rc0, d0, e0 = C.pyscn_json(["."], initd)
        rc1, out1, err1 = C.pyscn(["init"], cwd=initd)
        hist["init_cases"] += 1
        if not os.path.exists(os.path.join(initd, ".pyscn.toml")):
            res.violation("pyscn init wrote no .pyscn.toml: %s" % (out1 + err1)[-300:], {"signature": {"kind": "init"}})
        else:
            rc2, d2, e2 = C.pyscn_json(["."], initd)

            def strip(x):
                if isinstance(x, dict):
                    return {k: strip(v) for k, v in x.items() if k not in ("generated_at", "duration_ms", "Duration", "GeneratedAt", "ConfigPath", "config_path", "ConfigFile", "analysis_time_ms", "exclude_patterns", "ExcludePatterns", "include_patterns", "IncludePatterns")}
                if isinstance(x, list):
                    return [strip(v) for v in x]
                return x
            if d0 is None or d2 is None:
                res.violation("analyze failed around pyscn init: %s %s" % (e0[-200:], e2[-200:]), {"signature": {"kind": "init"}})
            else:
                a, b = strip(d0), strip(d2)
                diffs = []

                def walk(x, y, path):
                    if len(diffs) > 12:
                        return
                    if isinstance(x, dict) and isinstance(y, dict):
                        for k in sorted(set(x) | set(y)):
                            walk(x.get(k), y.get(k), path + [k])
                    elif isinstance(x, list) and isinstance(y, list) and len(x) == len(y) and not all(isinstance(v, str) for v in x + y):
                        for i, (p, q) in enumerate(zip(x, y)):
                            walk(p, q, path + [str(i)])
                    elif isinstance(x, list) and isinstance(y, list) and all(isinstance(v, str) for v in x + y) and sorted(x) == sorted(y):
                        pass            # order of a list of names: reproducibility is C05's subject
                    elif x != y:
                        diffs.append((".".join(path), x, y))
                walk(a, b, [])
                for pth, x, y in diffs:
                    sig = {"kind": "init-differs", "path": pth}
                    k = C.classify(PID, sig)
                    what = "C17: the file written by `pyscn init` changes the report: %s is %r without a configuration file and %r with it" % (pth, x, y)
                    if k:
                        res.known_finding(k, "(%s)" % what[:300])
                    else:
                        res.violation(what, {"signature": sig})
        # ---- a configuration file that sets nothing (or something unrelated) = no configuration file: every absent key takes its DEFAULT ----------------
        for title, text, cname in (("empty .pyscn.toml", "# nothing configured\n", ".pyscn.toml"), (".pyscn.toml with an unrelated key", "[lcom]\nlow_threshold = 2\n", ".pyscn.toml"),
                                   ("pyproject.toml with an empty [tool.pyscn]", "[tool.pyscn]\n", "pyproject.toml")):
            ed = os.path.join(root, "emptyproj_" + cname.strip(".").replace(".", "_") + str(len(title)))
            os.makedirs(os.path.join(ed, "sub"))
            shutil.copy(os.path.join(proj, "m.py"), os.path.join(ed, "m.py"))
            shutil.copy(os.path.join(proj, "m.py"), os.path.join(ed, "sub", "inner.py"))
            open(os.path.join(ed, "sub", "__init__.py"), "w").close()
            with open(os.path.join(ed, "m.pyi"), "w") as f:
                f.write("def stub_only(a: int) -> int: ...\n\nclass StubK:\n    x: int\n    def get(self) -> int: ...\n")
            with open(os.path.join(ed, "test_m.py"), "w") as f:
                f.write("def test_it(a):\n    if a:\n        return 1\n    return 2\n")
            rc0, d0, e0 = C.pyscn_json(["."], ed, extra=["--min-complexity", "1"])
            with open(os.path.join(ed, cname), "w") as f:
                f.write(text)
            rc2, d2, e2 = C.pyscn_json(["."], ed, extra=["--min-complexity", "1"])
            hist["init_cases"] += 1
            if d0 is None or d2 is None:
                res.violation("analyze failed around an empty configuration file: %s %s" % (e0[-200:], e2[-200:]), {"signature": {"kind": "empty-config"}})
                continue
            fs = lambda d: sorted((f["FilePath"], f["Name"]) for f in d["complexity"]["Functions"] or [])
            a, b = fs(d0), fs(d2)
            if a != b:
                lost, new = [x for x in a if x not in b], [x for x in b if x not in a]
                sig = {"kind": "empty-config-changes-files", "stubs_dropped": bool(lost) and not new and all(x[0].endswith(".pyi") for x in lost)}
                k = C.classify(PID, sig)
                what = "C17: adding %s (which sets nothing relevant) changes WHICH FILES are analysed: functions lost %s, new %s" % (title, lost[:3], new[:3])
                if k:
                    res.known_finding(k, "(%s)" % what[:300])
                else:
                    res.violation(what, {"signature": sig, "config_file": cname, "config_text": text})
            nontrivial.add(("empty-config", title))
        # ---- "the nearest configuration file AT OR ABOVE the analysed path is the one used": a configuration file in the WORKING directory, which is
        # neither the target nor one of its ancestors, must not move any effective value (the echoes of every section must equal those of the same
        # command run from a directory without a configuration file) ------------------------------------------------------------------------------
        hist["cwd_config_runs"] = 0
        for cname, ctext in ((".pyscn.toml", "[lcom]\nlow_threshold = 4\n[complexity]\nlow_threshold = 3\n[cbo]\nmin_cbo = 2\n[dead_code]\nmin_severity = \"critical\"\n"),
                             ("pyproject.toml", "[project]\nname = \"w\"\n\n[tool.pyscn.lcom]\nlow_threshold = 4\n[tool.pyscn.complexity]\nlow_threshold = 3\n[tool.pyscn.cbo]\nmin_cbo = 2\n[tool.pyscn.dead_code]\nmin_severity = \"critical\"\n")):
            base = os.path.join(tmp, "cwdcfg_" + cname.strip(".").replace(".", "_"))
            work, neutral, proj = os.path.join(base, "work"), os.path.join(base, "neutral"), os.path.join(base, "elsewhere", "proj")
            for d_ in (work, neutral, proj):
                os.makedirs(d_)
            with open(os.path.join(work, cname), "w") as f:
                f.write(ctext)
            with open(os.path.join(proj, "m.py"), "w") as f:
                f.write(REFERENCE_SRC if "REFERENCE_SRC" in globals() else "class A:\n    def a(self):\n        return self.x\n    def b(self):\n        return self.y\n\ndef f(a):\n    if a:\n        return 1\n    return 2\n")
            for spelled in ("rel", "abs"):
                runs = {}
                for cwd_ in (work, neutral):
                    tgt = proj if spelled == "abs" else os.path.relpath(proj, cwd_)
                    rc_, d_, e_ = C.pyscn_json([tgt], cwd_, extra=["--select", "complexity,deadcode,cbo,lcom"])
                    hist["cwd_config_runs"] += 1
                    runs[cwd_] = d_
                if runs[work] is None or runs[neutral] is None:
                    res.violation("analyze produced no report in the working-directory configuration scenario", {"signature": {"kind": "cwd-config-no-report"}, "config_file": cname})
                    continue
                for sec, key in (("complexity", "Config"), ("lcom", "Config"), ("cbo", "Config"), ("dead_code", "config")):
                    strip = lambda c_: {k_: v_ for k_, v_ in (c_ or {}).items() if k_ not in ("paths", "Paths", "config_path", "ConfigPath")}
                    a_, b_ = strip((runs[work].get(sec) or {}).get(key)), strip((runs[neutral].get(sec) or {}).get(key))
                    if a_ != b_:
                        diff = sorted(k_ for k_ in set(a_) | set(b_) if a_.get(k_) != b_.get(k_))
                        sig = {"kind": "cwd-config-leak", "section": sec, "file": cname}
                        k = C.classify(PID, sig)
                        what = ("C17: a %s in the WORKING directory (not at or above the analysed path %s) changes the effective %s configuration: %s"
                                % (cname, spelled, sec, dict((k_, (b_.get(k_), a_.get(k_))) for k_ in diff)))
                        if k:
                            res.known_finding(k, "(%s)" % what[:300])
                        else:
                            res.violation(what, {"signature": sig, "config_file": cname, "config_text": ctext, "target": spelled, "differs": diff})
                nontrivial.add(("cwd-config", cname, spelled))
    finally:
        shutil.rmtree(tmp, ignore_errors=True)
    if not ps.ok and not any(fi for _, _, fi in res.violations):
        res.violation("proof obligation or tie broken: " + "; ".join(ps.broken)[:1500], {"broken": ps.broken}, found_input=False)
    res.coverage.update({
        "evaluations": hist["cells_both"] + hist["cells_file_only"] + hist["discovery_cases"] + hist["init_cases"] + hist["check_cells"] + hist["explicit_config_cases"] + hist["check_via_link"] + hist["cells_list_key"],
        "distinct_nontrivial": len(nontrivial),
        "rule": "full matrix on the real binary: every option with a flag and a key (4) x flag {absent, each value incl. the default and the values NEXT TO the default (integer neighbours; +-0.0001/0.004/0.01 for fractions)} x key {absent, each value incl. default, near-default and 0}; "
                "%d configuration-only keys x values incl. 0/false; %d LIST-valued key(s) x EVERY non-empty combination of the valid members (the default list, its sub-lists, lists with members outside the default; member order shuffled per seed) x both kinds of file, effective list compared as a set; 10 discovery layouts (.pyscn.toml / pyproject.toml at 0-2 levels above the code, both kinds, nearest) x 5 "
                "(cwd, spelling) combinations, each layout also with every configuration file placed as a SYMBOLIC LINK (to a file of another name / the same name / the other kind's name; relative and absolute) x 2 rotating spellings; "
                "--config <file|directory> x {pyproject.toml, .pyscn.toml, custom name} x {regular file, 3 kinds of link}; check gate through a linked file x flag; pyscn init vs no file (whole report compared)" % (len(FILE_ONLY), len(LIST_KEYS)),
        "exhaustive": True,
        "exhaustive_note": "the matrices are run completely on every run",
        "samples": [{"option": "min_complexity", "flag": "--min-complexity 6", "config": "[complexity] min_complexity = 1", "expected_effective": 6},
                    {"key": "[dead_code] context_lines = 0", "expected_effective": 0},
                    {"key": "[tool.pyscn.clones] enabled_clone_types = [\"type3\", \"type1\"]", "expected_effective": "clone.request.clone_types == {1, 3}"}, {"discovery": "nearest of two .pyscn.toml (mid vs top)", "expected": "mid"},
                    {"option": "similarity_threshold", "flag": "--clone-threshold 0.654", "config": "[clones] similarity_threshold = 0.9", "expected_effective": 0.654},
                    {"discovery": "pyproject.toml next to the code, a symbolic link to ../shared/s1/python-tooling.toml", "expected": "its [tool.pyscn.complexity] low_threshold"}],
        "traces_validated_against_impl": hist["cells_both"] + hist["cells_file_only"] + hist["discovery_cases"] + hist["explicit_config_cases"] + hist["check_via_link"] + hist["cells_list_key"],
        "distribution": hist,
    })
    return res.finish("proof")
