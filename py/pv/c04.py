"""C04 — every definition analysed exactly once under its dotted name and real line span (DESIGN.md §4 C04)."""
import ast
import json
import os
import random
import re
import zlib
import shutil
import tempfile

from . import common as C

PID = "C04"
POSITIONS = ["plain", "decorated", "decorated_multiline", "decorated_gap", "decorated_async", "multiline_signature", "async", "if", "else", "elif", "try", "except", "tryelse", "finally", "with", "for", "while", "match"]


# one definition per arm of ONE compound statement ("a class defined once per branch"): preamble lines, arm headers, extra indentation of the headers
ALT_SHAPES = {
    "ifelse": ([], ["if FLAG:", "else:"], 0),
    "ifelifelse": ([], ["if FLAG:", "elif OTHER:", "else:"], 0),
    "tryexcept": ([], ["try:", "except Exception:"], 0),
    "tryfinally": ([], ["try:", "finally:"], 0),
    "tryfull": ([], ["try:", "except ValueError:", "except Exception:", "else:", "finally:"], 0),
    "match": (["match FLAG:"], ["case 1:", "case 2:", "case _:"], 1),
}


class DefGen:
    def __init__(self, rng, dup_prob=0.0, reuse_prob=0.0, alt_prob=0.0):
        self.rng = rng
        self.n = 0
        self.dup_prob = dup_prob
        # the simple name of a definition does not identify it inside a module: with reuse_prob a new definition takes the simple name of ANY earlier
        # definition of its kind in the module (another scope: `Meta` in two classes, `Dummy` in two functions, `__init__`-like methods; or the same scope)
        self.reuse_prob = reuse_prob
        self.alt_prob = alt_prob
        self.pool = {"fn": [], "cls": []}

    def name(self, kind, siblings):
        if siblings and self.rng.random() < self.dup_prob:
            cands = [s for s in siblings if s[0] == kind]
            if cands:
                return self.rng.choice(cands)[1]
        if self.reuse_prob and self.pool[kind] and self.rng.random() < self.reuse_prob:
            return self.rng.choice(self.pool[kind])
        self.n += 1
        nm = ("fn%d" if kind == "fn" else "Cls%d") % self.n
        self.pool[kind].append(nm)
        return nm

    def defs(self, depth, in_class, max_n):
        out, sib = [], []
        for _ in range(self.rng.randint(1, max_n)):
            if self.alt_prob and depth < 3 and self.rng.random() < self.alt_prob:
                # the same simple name defined once per arm of one if/try/match statement
                shape = self.rng.choice(sorted(ALT_SHAPES))
                kind = self.rng.choice(["cls", "cls", "fn"])
                nm = self.name(kind, sib)
                sib.append((kind, nm))
                arms = []
                for _h in ALT_SHAPES[shape][1]:
                    kids = self.defs(depth + 2, kind == "cls", 2) if self.rng.random() < 0.4 else []
                    arms.append([{"kind": kind, "name": nm, "kids": kids, "pos": "plain", "in_class": in_class}])
                out.append({"kind": "alt", "shape": shape, "arms": arms})
                continue
            kind = self.rng.choice(["fn", "fn", "cls"])
            nm = self.name(kind, sib)
            sib.append((kind, nm))
            kids = self.defs(depth + 1, kind == "cls", 2) if (depth < 3 and self.rng.random() < 0.55) else []
            pos = self.rng.choice(POSITIONS)
            if kind == "cls" and pos in ("async", "decorated_async", "multiline_signature"):
                pos = "plain"
            out.append({"kind": kind, "name": nm, "kids": kids, "pos": pos, "in_class": in_class})
        return out


TAILS = [None, None, "comment_body", "comment_deeper", "blank_comment", "multiline_return", "if_with_comment", "multiline_string"]


def render(defs, indent, lines):
    I = "    " * indent
    for d in defs:
        if d["kind"] == "alt":
            pre, heads, extra = ALT_SHAPES[d["shape"]]
            lines += [I + p for p in pre]
            for head, arm in zip(heads, d["arms"]):
                lines.append(I + "    " * extra + head)
                render(arm, indent + extra + 1, lines)
            continue
        pos = d["pos"]
        inner = indent
        if pos == "if":
            lines.append(I + "if FLAG:")
            inner += 1
        elif pos == "else":
            lines += [I + "if FLAG:", I + "    pass", I + "else:"]
            inner += 1
        elif pos == "elif":
            lines += [I + "if FLAG:", I + "    pass", I + "elif OTHER:"]
            inner += 1
        elif pos == "try":
            lines.append(I + "try:")
            inner += 1
        elif pos == "except":
            lines += [I + "try:", I + "    pass", I + "except Exception:"]
            inner += 1
        elif pos == "tryelse":
            lines += [I + "try:", I + "    pass", I + "except Exception:", I + "    pass", I + "else:"]
            inner += 1
        elif pos == "finally":
            lines += [I + "try:", I + "    pass", I + "finally:"]
            inner += 1
        elif pos == "with":
            lines.append(I + "with CTX as fh:")
            inner += 1
        elif pos == "for":
            lines.append(I + "for item in ITEMS:")
            inner += 1
        elif pos == "while":
            lines.append(I + "while FLAG:")
            inner += 1
        elif pos == "match":
            lines += [I + "match FLAG:", I + "    case 1:"]
            inner += 2
        J = "    " * inner
        if pos == "decorated":
            lines.append(J + "@deco")
            lines.append(J + "@other.deco(1)")
        if pos == "decorated_multiline":
            lines += [J + "@deco", J + "@other.deco(", J + "    1,", J + "    key=[2,", J + "         3],", J + ")"]
        if pos == "decorated_gap":
            lines += [J + "@other.deco(1)", J + "# a comment between the decorator and the definition", "", J + "# another"]
        if pos == "decorated_async":
            lines += [J + "@deco"]
        if d["kind"] == "fn":
            args = "self, a" if d["in_class"] else "a"
            if pos == "multiline_signature":
                args = args.replace("a", "\n" + J + "        a,\n" + J + "        *rest,\n" + J)
            lines.append(J + ("async def" if pos in ("async", "decorated_async") else "def") + " %s(%s):" % (d["name"], args))
            lines.append(J + "    value = a")
            render(d["kids"], inner + 1, lines)
            # how the definition ENDS (chosen from the name, so that every renderer of the same skeleton agrees): the span ends with the last statement —
            # not with a comment that follows it at body indentation or deeper, and it does include the continuation lines of a multi-line last statement
            tail = TAILS[zlib.crc32(d["name"].encode()) % len(TAILS)]
            if tail == "multiline_return":
                lines += [J + "    return (value,", J + "            1)  # trailing comment on the last line"]
            elif tail == "if_with_comment":
                lines += [J + "    if value:", J + "        return value", J + "        # comment inside the last block", J + "    # comment after the last block"]
            elif tail == "multiline_string":
                lines += [J + "    return \"\"\"text", J + "    # not a comment", J + "    \"\"\""]
            else:
                lines.append(J + "    return value")
                if tail == "comment_body":
                    lines.append(J + "    # trailing comment at body indentation")
                elif tail == "comment_deeper":
                    lines.append(J + "            # trailing comment, deeper")
                elif tail == "blank_comment":
                    lines += ["", J + "    # after a blank line", ""]
        else:
            lines.append(J + "class %s:" % d["name"])
            lines.append(J + "    attr = 1")
            render(d["kids"], inner + 1, lines)
            if zlib.crc32(d["name"].encode()) % 3 == 0:
                lines.append(J + "    # trailing comment in the class body")
        if pos == "try":
            lines += [I + "except Exception:", I + "    pass"]
        if pos == "match":
            lines += [I + "    case _:", I + "        pass"]


def _cls(name, kids=(), in_class=False, pos="plain"):
    return {"kind": "cls", "name": name, "kids": list(kids), "pos": pos, "in_class": in_class}


def _fn(name, kids=(), in_class=False, pos="plain"):
    return {"kind": "fn", "name": name, "kids": list(kids), "pos": pos, "in_class": in_class}


def _alt(shape, make):
    return {"kind": "alt", "shape": shape, "arms": [[make(k)] for k in range(len(ALT_SHAPES[shape][1]))]}


def same_name_modules():
    """fixed modules in which several definitions share their simple name: (1) classes, one shape per group; (2) the same shapes with functions
    (an inner helper per outer definition keeps distinct dotted names; one definition per branch / a redefinition repeats the dotted name)"""
    classes = [
        # an inner helper class per outer class (`class Meta:` / `class Config:`)
        _cls("Author", [_cls("Meta", in_class=True), _fn("label", in_class=True)]),
        _cls("Book", [_cls("Meta", [_fn("describe", in_class=True)], in_class=True), _fn("label", in_class=True), _fn("owner", in_class=True)]),
        _cls("Shelf", [_cls("Meta", in_class=True, pos="decorated")]),
        # a local class with a recurring name in several functions
        _fn("test_a", [_cls("Dummy")]),
        _fn("test_b", [_cls("Dummy", [_fn("run", in_class=True)])]),
        _cls("Suite", [_fn("test_c", [_cls("Dummy")], in_class=True)]),
        # redefinition in the same scope, twice and three times
        _cls("Twice", [_fn("one", in_class=True)]),
        _cls("Twice", [_fn("two", in_class=True)]),
        _cls("Thrice"), _cls("Thrice", pos="if"), _cls("Thrice", pos="decorated_gap"),
        # a class nested in a class of the same name
        _cls("Node", [_cls("Node", [_cls("Node", in_class=True)], in_class=True)]),
        # the simple name of a top-level class used again for a nested one
        _cls("Plain"),
        _cls("Holder", [_cls("Plain", in_class=True)]),
    ]
    # a class defined once per branch of one statement
    for shape in sorted(ALT_SHAPES):
        classes.append(_alt(shape, lambda k, shape=shape: _cls("Per_" + shape, [_fn("get", in_class=True)])))
    functions = [
        _cls("Left", [_fn("__init__", in_class=True), _fn("label", [_fn("helper")], in_class=True)]),
        _cls("Right", [_fn("__init__", in_class=True), _fn("label", [_fn("helper")], in_class=True)]),
        _fn("outer_a", [_fn("helper")]),
        _fn("outer_b", [_fn("helper", pos="async")]),
        _fn("helper"),
        _fn("again"), _fn("again", pos="decorated"),
    ]
    for shape in sorted(ALT_SHAPES):
        functions.append(_alt(shape, lambda k, shape=shape: _fn("per_" + shape)))
    # one group per module as well: a single loss cannot hide behind another group of the same file
    singles = [[_cls("A", [_cls("Meta", in_class=True)]), _cls("B", [_cls("Meta", in_class=True)])],
               [_alt("ifelse", lambda k: _cls("Cache", [_fn("get", in_class=True)]))],
               [_fn("f", [_cls("Local")]), _fn("g", [_cls("Local")])]]
    return [classes, functions] + singles


def class_cells(want, have):
    """compare the classes of one file in one section by line span (multisets): returns (extra, cells) where cells maps a frozen signature to the
    missing classes it explains. A missing class whose simple name is carried by several class statements of the file is attributed to its name
    group, with what the section reports of that group (exactly one member / none / several)"""
    from collections import Counter
    hs = Counter((s, e) for _, s, e in have)
    ws = Counter((s, e) for _, s, e in want)
    extra = sorted(h for h in set(have) if hs[(h[1], h[2])] > ws[(h[1], h[2])])
    miss = [w for w in want if hs[(w[1], w[2])] < ws[(w[1], w[2])]]
    groups = {}
    for w in want:
        groups.setdefault(w[0].split(".")[-1], []).append(w)
    cells = {}
    for w in miss:
        grp = groups[w[0].split(".")[-1]]
        if len(grp) > 1:
            kept = sum(1 for g in grp if hs[(g[1], g[2])] >= 1)
            sig = (("kind", "dup-class-name"), ("reported", "one-per-name" if kept == 1 else "none" if kept == 0 else "some"))
        else:
            sig = (("kind", "class-missing"),)
        cells.setdefault(sig, []).append(w)
    return extra, cells


def reference(src):
    """CPython's view: def tree with dotted names and (lineno, end_lineno)"""
    tree = ast.parse(src)

    def kids(node):
        out = []
        for ch in ast.iter_child_nodes(node):
            if isinstance(ch, (ast.FunctionDef, ast.AsyncFunctionDef)):
                out.append(("fn", ch.name, ch.lineno, ch.end_lineno, kids(ch)))
            elif isinstance(ch, ast.ClassDef):
                out.append(("cls", ch.name, ch.lineno, ch.end_lineno, kids(ch)))
            else:
                out += kids(ch)
        return out
    return kids(tree)


def tokens(tree):
    out = ["[", str(len(tree))]
    for k, n, s, e, ks in tree:
        out += [k, n, str(s), str(e)] + tokens(ks)
    return out


def flat(tree, scope=()):
    fns, clss = [], []
    for k, n, s, e, ks in tree:
        q = ".".join(scope + (n,))
        (fns if k == "fn" else clss).append((q, n, s, e))
        f2, c2 = flat(ks, scope + (n,))
        fns += f2
        clss += c2
    return fns, clss


def walker_tables():
    """the regenerated walker tables of this run (lean/PV/Generated/Walkers.lean, written by extract/walkers.go): walker -> followed fields, and the populated fields"""
    path = os.path.join(C.GEN, "Walkers.lean")
    if not os.path.exists(path):
        return None
    txt = open(path).read()
    m = re.search(r'^def assigned : List String := \[(.*?)\]$', txt, re.M)
    blk = re.search(r'^def walkers : List \(String × List String\) := \[\n(.*?)\n\]', txt, re.M | re.S)
    if not m or not blk:
        return None
    assigned = re.findall(r'"([^"]*)"', m.group(1))
    walkers = {}
    for row in re.finditer(r'^\s*\("([^"]+)", \[(.*?)\]\)', blk.group(1), re.M):
        walkers[row.group(1)] = re.findall(r'"([^"]*)"', row.group(2))
    return {"assigned": assigned, "walkers": walkers}


def run(tier, seed, replay=None):
    res = C.Result(PID, tier, seed)
    rng = random.Random(seed * 1000003 + 4)
    ps = C.prove(PID)
    C.proof_coverage(res, ps, "cd /verif/lean && lake build PV.Properties.C04 PV.Properties.C04x && #print axioms (audit)")
    wt = walker_tables()
    if wt is None:
        # extract/walkers.go removes the table when a pinned walker is missing; the Lean build of C04x has failed with it
        if ps.ok:
            ps.ok = False
        ps.broken.append("walker tie: lean/PV/Generated/Walkers.lean was not regenerated (see EXTRACT-ERROR)")
    walker_cov = {
        "walker_fields_pinned": sum(len(v) for v in wt["walkers"].values()) if wt else 0,
        "walkers_pinned": len(wt["walkers"]) if wt else 0,
        "builder_assigned_fields": len(wt["assigned"]) if wt else 0,
        "walker_fields_listed_missing": sum(len([f for f in wt["assigned"] if f not in v]) for v in wt["walkers"].values()) if wt else 0,
    }
    res.assumptions += [
        "CPython's `ast` (lineno/end_lineno of def/class statements, decorators excluded) is the reference list of definitions",
        "the registry model (map keyed by dotted name, later registration wins) is compared with the real complexity section on every generated module",
        "`__main__` (the module-level pseudo function in the complexity section) is not a definition and is ignored",
        "walker tie: extract/walkers.go reads which parser.Node fields each pinned walker follows from the Go source (syntactic + go/types, flow-insensitive); "
        "the classification of the fields a walker does not follow (PV/Properties/WalkersExpected.lean) is a reviewed text, not a theorem",
    ]
    nmod = (60 if tier == "quick" else 500) * (1 if ps.ok else 6)
    mods = []
    # every definition kind in every position, once, deterministically
    fixed = []
    for pos in POSITIONS:
        fixed.append({"kind": "fn", "name": "f_" + pos, "kids": [{"kind": "fn", "name": "inner_" + pos, "kids": [], "pos": "plain", "in_class": False}], "pos": pos, "in_class": False})
        if pos not in ("async", "decorated_async", "multiline_signature"):
            fixed.append({"kind": "cls", "name": "C_" + pos, "kids": [{"kind": "fn", "name": "meth", "kids": [], "pos": pos, "in_class": True},
                                                                     {"kind": "cls", "name": "Inner_" + pos, "kids": [], "pos": "plain", "in_class": True}], "pos": pos, "in_class": False})
    mods.append(fixed)
    # several class / def statements of one module with the same SIMPLE name, every way the quantifier allows it (nesting, conditional definition,
    # redefinition), once, deterministically: each statement is its own definition with its own lines
    mods += same_name_modules()
    base = len(mods)
    for i in range(nmod):
        if i % 3 == 1:
            # simple names shared across scopes and across the arms of one statement (the dotted names stay distinct unless the scope is the same)
            g = DefGen(rng, reuse_prob=0.3, alt_prob=0.15)
        else:
            g = DefGen(rng, dup_prob=0.12 if i % 3 == 0 else 0.0)
        mods.append(g.defs(0, False, 4))
    # byte-identical files (vendored copies, boilerplate): each file still lists its own definitions, once
    mods += [mods[base], mods[base], mods[min(base + 2, len(mods) - 1)]]
    tmp = tempfile.mkdtemp(prefix="pv_c04_")
    hist = {"modules": len(mods), "functions": 0, "classes": 0, "dup_names": 0, "positions": {}, "byte_identical_files": 3,
            "same_name_fixed_modules": len(same_name_modules()), "alt_shapes": {}, "same_simple_name_class_groups": 0,
            "same_simple_name_class_groups_distinct_dotted": 0, "same_simple_name_classes": 0, "same_simple_name_function_groups_distinct_dotted": 0,
            "class_cells": {}}
    samples = []
    nontrivial = set()

    def count_shapes(defs):
        for d in defs:
            if d["kind"] == "alt":
                hist["alt_shapes"][d["shape"]] = hist["alt_shapes"].get(d["shape"], 0) + 1
                for arm in d["arms"]:
                    count_shapes(arm)
            else:
                hist["positions"][d["pos"]] = hist["positions"].get(d["pos"], 0) + 1
                count_shapes(d["kids"])
    for m in mods:
        count_shapes(m)
    try:
        proj = os.path.join(tmp, "proj")
        os.makedirs(proj)
        srcs = []
        for i, m in enumerate(mods):
            lines = ["import os", "FLAG = OTHER = 1", "ITEMS = []", "CTX = open(os.devnull)", "def deco(f): return f", "class other:",
                     "    @staticmethod", "    def deco(n): return lambda f: f", ""]
            render(m, 0, lines)
            src = "\n".join(lines) + "\n"
            srcs.append(src)
            with open(os.path.join(proj, "mod_%03d.py" % i), "w") as f:
                f.write(src)
        with open(os.path.join(tmp, "cfg.toml"), "w") as f:
            f.write("[cbo]\nshow_zeros = true\nmin_cbo = 0\n")
        rc, data, err = C.pyscn_json(["proj"], tmp, extra=["--select", "complexity,cbo,lcom", "--min-complexity", "1", "--config", os.path.join(tmp, "cfg.toml")])
        if data is None:
            res.violation("analyze produced no report: " + err[-300:], {"modules": len(mods)})
            return res.finish("proof")
        refs = [reference(s) for s in srcs]
        model = C.driver_batch(["reg " + " ".join(tokens(r)) for r in refs]) if os.path.exists(C.driver_path()) else None
        if model is None:
            ps.ok = False
            ps.broken.append("driver missing")
        got_f, got_l, got_c = {}, {}, {}
        for f in data["complexity"]["Functions"] or []:
            if f["Name"] != "__main__":
                got_f.setdefault(os.path.basename(f["FilePath"]), []).append((f["Name"], f["StartLine"], f["EndLine"]))
        for c in (data.get("lcom") or {}).get("Classes") or []:
            got_l.setdefault(os.path.basename(c["FilePath"]), []).append((c["Name"], c["StartLine"], c["EndLine"]))
        for c in (data.get("cbo") or {}).get("Classes") or []:
            got_c.setdefault(os.path.basename(c["FilePath"]), []).append((c["Name"], c["StartLine"], c["EndLine"]))
        for i, (m, ref, src) in enumerate(zip(mods, refs, srcs)):
            fn = "mod_%03d.py" % i
            fns, clss = flat(ref)
            # the helper definitions of the prelude are part of the module too: deco, other, other.deco are in `ref`
            hist["functions"] += len(fns)
            hist["classes"] += len(clss)
            want_f = sorted((q, s, e) for q, n, s, e in fns)
            have_f = sorted(got_f.get(fn, []))
            names = [q for q, _, _, _ in fns]
            dup = len(names) != len(set(names))
            if dup:
                hist["dup_names"] += 1
            fbare = {}
            for q, n, _, _ in fns:
                fbare.setdefault(n, set()).add(q)
            hist["same_simple_name_function_groups_distinct_dotted"] += sum(1 for qs in fbare.values() if len(qs) > 1)
            nontrivial.add(i)
            if model is not None:
                mrows = sorted(tuple([r.split(":")[0], int(r.split(":")[1]), int(r.split(":")[2])]) for r in model[i].split(";") if r)
                if mrows != have_f:
                    res.violation("correspondence: complexity section lists %s, the registry model gives %s" % (
                        [x for x in have_f if x not in mrows][:4], [x for x in mrows if x not in have_f][:4]),
                        {"source": src, "correspondence": "PV.Reg.registry vs BuildAll + complexity service"}, found_input=False)
            if have_f != want_f:
                missing = [x for x in want_f if x not in have_f]
                extra = [x for x in have_f if x not in want_f]
                sig = {"kind": "dup-qualname"} if (dup and not extra and all(names.count(x[0]) > 1 for x in missing)) else {"kind": "function-list"}
                k = C.classify(PID, sig)
                if k:
                    res.known_finding(k, "(e.g. %s)" % (missing[:2],))
                else:
                    res.violation("C04: functions of %s: missing %s, unexpected %s" % (fn, missing[:4], extra[:4]), {"signature": sig, "source": src})
            want_c = sorted((q, s, e) for q, n, s, e in clss)
            by_bare = {}
            for q, n, s, e in clss:
                by_bare.setdefault(n, set()).add(q)
            for n, qs in by_bare.items():
                k = sum(1 for c in clss if c[1] == n)
                if k > 1:
                    hist["same_simple_name_class_groups"] += 1
                    hist["same_simple_name_class_groups_distinct_dotted"] += 1 if len(qs) > 1 else 0
                    hist["same_simple_name_classes"] += k
            for have, sname in ((sorted(got_l.get(fn, [])), "lcom"), (sorted(got_c.get(fn, [])), "cbo")):
                if have == want_c:
                    hist["class_cells"]["ok/" + sname] = hist["class_cells"].get("ok/" + sname, 0) + 1
                    continue
                # by line span (multisets): what is listed too often, what is not listed, and why
                extra, cells = class_cells(want_c, have)
                found = []
                if extra:
                    found.append(({"kind": "class-list-extra", "section": sname}, extra[:3]))
                for sigt, ws in sorted(cells.items()):
                    sig = dict(sigt)
                    sig["section"] = sname
                    found.append((sig, ws[:3]))
                # the classes that are listed: under their dotted name (the property), or under the simple name (F23), nothing else
                want_at = {(s, e): q for q, s, e in want_c}
                bare, wrong = [], []
                for h in have:
                    q = want_at.get((h[1], h[2]))
                    if q is None or h[0] == q:
                        continue
                    (bare if h[0] == q.split(".")[-1] else wrong).append((h[0], q))
                if bare:
                    found.append(({"kind": "nested-class-bare-name", "section": sname}, bare[:2]))
                if wrong:
                    found.append(({"kind": "class-name-wrong", "section": sname}, wrong[:3]))
                if not found:
                    found.append(({"kind": "class-list-differs", "section": sname}, (have[:3], want_c[:3])))
                for sig, detail in found:
                    cell = "%s/%s%s" % (sig["kind"], sname, ("/" + sig["reported"]) if "reported" in sig else "")
                    hist["class_cells"][cell] = hist["class_cells"].get(cell, 0) + 1
                    k = C.classify(PID, sig)
                    if k:
                        res.known_finding(k, "(%s: %s)" % (fn, detail))
                    else:
                        res.violation("C04: classes of %s in the %s section: %s (%s)" % (fn, sname, " ".join("%s=%s" % kv for kv in sorted(sig.items())), detail),
                                      {"signature": sig, "source": src, "section": sname, "reported": have, "expected": want_c})
            if len(samples) < 1:
                samples.append({"source": src, "functions_reported": have_f[:8]})
    finally:
        shutil.rmtree(tmp, ignore_errors=True)
    if not ps.ok and not any(fi for _, _, fi in res.violations):
        res.violation("proof obligation or tie broken: " + "; ".join(ps.broken)[:1500], {"broken": ps.broken, "note": "no module violating C04 beyond the known findings was found"},
                      found_input=False)
    res.coverage.update({
        "evaluations": hist["functions"] + hist["classes"],
        "distinct_nontrivial": len(nontrivial),
        "rule": "one fixed module with a function and a class (with method and inner class) in each of the %d positions (plain, decorated, async, if/else/elif, "
                "try/except/else/finally, with, for, while, match) + random definition trees (depth ≤4, redefinitions in every third module; in every third module "
                "simple names reused across scopes and one definition per arm of an if/elif/else, try/except/else/finally or match statement) + fixed modules "
                "whose class / def statements share their simple name (inner class per outer class, local class per function, redefinition x2 x3, class in "
                "a class of its name, one class per branch of each compound shape) through the real CLI; classes compared per line span, every difference "
                "attributed to a cell (extra / missing / same-simple-name group with what is reported of it / simple name / wrong name); "
                "reference = CPython ast; every module is non-trivial" % len(POSITIONS),
        "samples": samples,
        "traces_validated_against_impl": len(mods),
        "distribution": hist,
    })
    # regenerated tie for the AST walkers (C04_walkers_facts, C04_walkers_complete_up_to_listed): number of (walker, followed field) pairs pinned in this run
    res.coverage.update(walker_cov)
    return res.finish("proof")
