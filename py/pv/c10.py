"""C10 — clone groups satisfy the contract of the selected grouping mode (DESIGN.md §4 C10)."""
import itertools
import json
import os
import random

from . import common as C

PID = "C10"
MODES = ["connected", "k_core", "complete_linkage", "star", "centroid"]


def lean_line(case, impl_groups):
    g = ";".join(",".join(str(x) for x in grp) for grp in impl_groups) or "-"
    ps = " ".join("%d %d %d" % tuple(p) for p in case["Pairs"])
    return "group %s %d %d %d %s %s" % (case["Mode"], case["N"], case["Theta"], case["K"], g, ps)


def small_cases(n, den, theta, levels):
    cells = list(itertools.combinations(range(n), 2))
    for combo in itertools.product(range(len(levels) + 1), repeat=len(cells)):
        pairs = [[u, v, levels[c - 1]] for (u, v), c in zip(cells, combo) if c]
        yield n, pairs


def random_case(rng):
    n = rng.randrange(2, 31)
    den = 64
    theta = rng.choice([1, 16, 32, 45, 48, 52, 60, 64])
    kind = rng.randrange(4)
    pairs = []
    if kind == 0:
        for _ in range(rng.randrange(1, 3 * n)):
            u, v = rng.sample(range(n), 2)
            pairs.append([u, v, rng.choice([theta - 1, theta, theta + 1, rng.randrange(0, 65)]) if theta > 0 else 0])
    elif kind == 1:   # cliques and near-cliques around the threshold
        verts = list(range(n))
        rng.shuffle(verts)
        i = 0
        while i < n:
            k = rng.randrange(1, 7)
            grp = verts[i:i + k]
            for a, b in itertools.combinations(grp, 2):
                if rng.random() < 0.85:
                    pairs.append([a, b, rng.choice([theta, theta + 1, min(64, theta + 8), theta - 1])])
            i += k
        for _ in range(rng.randrange(0, n // 2 + 1)):
            u, v = rng.sample(range(n), 2)
            pairs.append([u, v, rng.choice([theta - 1, theta, 64])])
    elif kind == 2:   # stars and chains (degree exactly k / k-1)
        hub = rng.randrange(n)
        for v in range(n):
            if v != hub and rng.random() < 0.6:
                pairs.append([hub, v, rng.choice([theta, theta + 2, theta - 1])])
        for v in range(n - 1):
            if rng.random() < 0.4:
                pairs.append([v, v + 1, rng.choice([theta, theta + 1])])
    else:             # duplicates of the same pair with different similarities, both orientations
        for _ in range(rng.randrange(1, 2 * n)):
            u, v = rng.sample(range(n), 2)
            s = rng.randrange(0, 65)
            pairs.append([u, v, s])
            if rng.random() < 0.5:
                pairs.append([v, u, rng.randrange(0, 65)])
    pairs = [[u, v, max(0, min(64, s))] for u, v, s in pairs]
    rng.shuffle(pairs)
    return n, den, theta, pairs


def run(tier, seed, replay=None):
    res = C.Result(PID, tier, seed)
    rng = random.Random(seed * 1000003 + 10)
    ps = C.prove(PID)
    C.proof_coverage(res, ps, "cd /verif/lean && lake build PV.Properties.C10 && #print axioms (audit)")
    res.assumptions += [
        "connected / k-core: spec-level models (unique correct output); complete-linkage / star: proved-sound checkers run on the "
        "implementation's groups (the merge / medoid loops themselves are not modelled)",
        "similarities are on a dyadic grid (k/64) so that `sim >= threshold` is the same comparison in float64 and in Nat",
        "star mode is checked against `some member is linked with every other member`; the medoid is not exposed by the implementation",
    ]
    mult = 1 if ps.ok else (8 if tier == "quick" else 40)
    cases = []
    cdir = os.path.join(C.ROOT, "corpus", PID)
    if os.path.isdir(cdir):
        for fn in sorted(os.listdir(cdir)):
            if fn.endswith(".json"):
                cases.append(json.load(open(os.path.join(cdir, fn)))["case"])
    if replay:
        rp = json.load(open(replay))["replay"]
        if "case" in rp:
            cases.append(rp["case"])
    den, theta = 64, 48
    levels = [theta - 1, theta, theta + 1]
    exhaustive_n = 4
    small = list(small_cases(3, den, theta, levels)) + list(small_cases(4, den, theta, levels))
    if tier == "quick" and ps.ok:
        # all 3-vertex graphs, and every 4th 4-vertex graph per mode (all 4096 are covered across the modes/k values below)
        pass
    for mode in MODES:
        ks = [1, 2, 3] if mode == "k_core" else [2]
        for k in ks:
            for n, pairs in small:
                cases.append({"N": n, "Pairs": pairs, "Den": den, "Theta": theta, "K": k, "Mode": mode, "Reps": 2, "Files": 2})
    # ---- a hair below the threshold: similarities on the grid 1/2^40 (exact in float64), threshold 3/4, levels θ-2^-40 (inside any
    # "almost equal" epsilon), θ, θ+2^-40 and one clearly lower value: every 3-fragment graph and a sample of the 4-fragment ones per mode
    fden = 1 << 40
    fth = 3 << 38
    flevels = [fth - 1, fth, fth + 1, fth - (1 << 34)]
    fsmall = list(small_cases(3, fden, fth, flevels))
    f4 = list(small_cases(4, fden, fth, flevels[:3]))
    rng.shuffle(f4)
    for mode in MODES:
        for k in ([2, 3] if mode == "k_core" else [2]):
            for n, pairs in fsmall + f4[:400 if tier == "quick" else 4096]:
                cases.append({"N": n, "Pairs": pairs, "Den": fden, "Theta": fth, "K": k, "Mode": mode, "Reps": 1, "Files": 2})
    # ---- WIDE components (size limits inside a strategy): cliques, wheels and paths of 49..53, 100 and 120 fragments, two of them side by side
    for mode in MODES:
        for m in ([49, 50, 51, 52, 53, 100, 120] if tier == "thorough" else [50, 51, 52, 120]):
            for shape in ("clique", "wheel", "path"):
                if shape == "clique" and m > 60 and mode in ("complete_linkage", "star"):
                    continue
                n = m + 3
                if shape == "clique":
                    pairs = [[u, v, theta + 4] for u in range(m) for v in range(u + 1, m)]
                elif shape == "wheel":
                    pairs = [[0, v, theta + 4] for v in range(1, m)] + [[v, v + 1, theta + 2] for v in range(1, m - 1)] + [[m - 1, 1, theta + 2]]
                else:
                    pairs = [[v, v + 1, theta + 4] for v in range(m - 1)]
                pairs += [[m, m + 1, theta + 8], [m + 1, m + 2, theta - 1]]
                rng.shuffle(pairs)
                cases.append({"N": n, "Pairs": pairs, "Den": den, "Theta": theta, "K": 2, "Mode": mode, "Reps": 1, "Files": 3})
    # ---- fragments that CARRY syntax trees, some of them identical although no pair between them is reported (a strategy must group by
    # the reported pairs only, whatever it could compute itself)
    for mode in MODES:
        for _ in range(40 if tier == "quick" else 400):
            n = rng.randrange(4, 10)
            verts = list(range(n))
            rng.shuffle(verts)
            twins = [verts[:2], verts[2:4]] if n >= 6 and rng.random() < 0.5 else [verts[:rng.choice([2, 3])]]
            tw = set(map(tuple, [sorted(p) for t in twins for p in itertools.combinations(t, 2)]))
            pairs = []
            for u, v in itertools.combinations(range(n), 2):
                if (u, v) in tw and rng.random() < 0.8:
                    continue                       # identical trees, pair NOT reported
                if rng.random() < 0.45:
                    pairs.append([u, v, rng.choice([theta - 1, theta, theta + 3, 64])])
            if not pairs:
                continue
            rng.shuffle(pairs)
            cases.append({"N": n, "Pairs": pairs, "Den": den, "Theta": theta, "K": 2, "Mode": mode, "Reps": 1, "Files": 2, "Twins": twins})
    if tier == "thorough":
        cells = list(itertools.combinations(range(5), 2))
        for _ in range(30000):
            pairs = [[u, v, levels[c - 1]] for (u, v) in cells for c in [rng.randrange(4)] if c]
            mode = rng.choice(MODES)
            cases.append({"N": 5, "Pairs": pairs, "Den": den, "Theta": theta, "K": rng.choice([1, 2, 3, 4]), "Mode": mode, "Reps": 2, "Files": 2})
    nrand = (1500 if tier == "quick" else 20000) * mult
    for _ in range(nrand):
        n, d, th, pairs = random_case(rng)
        cases.append({"N": n, "Pairs": pairs, "Den": d, "Theta": th, "K": rng.choice([0, 1, 2, 2, 3, 4]), "Mode": rng.choice(MODES),
                      "Reps": 2, "Files": rng.choice([1, 2, 5])})
    # the same contract through the path the clone service takes (detector configured with the mode, SetUseLSH off / on, GroupClonePairs): a sample of the
    # cases above, and sparse pair lists (chains, cycles without diagonals: most pairs ABSENT) for every mode
    via_cases = []
    for c in rng.sample(cases, min(len(cases), 600 if tier == "quick" else 6000)):
        via_cases.append(dict(c, Via=rng.choice(["detector", "detector-lsh"]), Reps=1))
    for mode in MODES:
        for n in (3, 4, 5, 6, 8):
            for shape in ("chain", "cycle", "star"):
                prs = [[v, v + 1, theta + 4] for v in range(n - 1)] if shape != "star" else [[0, v, theta + 4] for v in range(1, n)]
                if shape == "cycle":
                    prs.append([n - 1, 0, theta + 4])
                for via in ("detector", "detector-lsh"):
                    via_cases.append({"N": n, "Pairs": prs, "Den": den, "Theta": theta, "K": 2, "Mode": mode, "Reps": 1, "Files": 2, "Via": via})
    cases += via_cases
    go = C.harness_batch("group", cases)
    lines = []
    for c, g in zip(cases, go):
        if "error" in g:
            lines.append("bad")
        else:
            lines.append(lean_line(c, g["runs"][0]["groups"]))
    model = C.driver_batch(lines) if os.path.exists(C.driver_path()) else None
    if model is None:
        ps.ok = False
        ps.broken.append("driver missing: correspondence not run")
    nontrivial, diffs = set(), 0
    hist = {m: {"cases": 0, "with_groups": 0} for m in MODES}
    hist["order_dependent"] = 0
    for ci, (c, g) in enumerate(zip(cases, go)):
        if "error" in g:
            res.violation("harness: " + g["error"], {"case": c})
            continue
        hist[c["Mode"]]["cases"] += 1
        if c.get("Via"):
            hist["via_" + c["Via"]] = hist.get("via_" + c["Via"], 0) + 1
        r0 = g["runs"][0]
        if r0["groups"]:
            hist[c["Mode"]]["with_groups"] += 1
            nontrivial.add(json.dumps([c["Mode"], c["N"], c["Theta"], c["K"], c["Pairs"]]))
        if any(r["groups"] != r0["groups"] for r in g["runs"]):
            hist["order_dependent"] += 1
        bad = None
        for r in g["runs"]:
            if not r["size_ok"]:
                bad = "group Size differs from the number of fragments"
            if not r["members_sorted"]:
                hist["members_not_in_location_order"] = hist.get("members_not_in_location_order", 0) + 1   # not part of C10 (BFS order in centroid mode)
        if model is not None and bad is None:
            m = model[ci].split("|")
            if len(m) != 3:
                bad = "model driver answered `%s`" % model[ci]
            else:
                mg, common, contract = m
                ig = ";".join(",".join(str(x) for x in grp) for grp in r0["groups"])
                if common != "1":
                    bad = "groups violate the common contract (>=2 members, no fragment in two groups): %s" % ig
                elif contract != "1":
                    bad = "groups violate the %s contract: %s" % (c["Mode"], ig)
                elif c["Mode"] in ("connected", "k_core") and mg != ig:
                    bad = "%s groups `%s` differ from the proved model's `%s`" % (c["Mode"], ig, mg)
        if bad:
            diffs += 1
            sig = {"kind": "group-contract", "mode": c["Mode"], "trees": bool(c.get("Twins")),
                   "what": "common" if "common contract" in bad else ("contract" if "contract" in bad else "other")}
            kf = C.classify(PID, sig)
            msg = "C10 fails (%s, n=%d, theta=%d/%d, k=%d): %s" % (c["Mode"], c["N"], c["Theta"], c["Den"], c["K"], bad)
            if kf:
                res.known_finding(kf, "(%s)" % msg[:300])
            else:
                res.violation(msg, {"signature": sig, "case": c, "impl": r0, "model": None if model is None else model[ci]})
    # ---- report level: clone.clone_groups[] of the real CLI vs the pairs REPORTED in the same JSON (connected mode, the CLI's mode) --------
    import shutil
    import tempfile
    from . import cloneeng as E
    cli_runs = 0
    tmp = tempfile.mkdtemp(prefix="pv_c10_")
    try:
        for pi in range(12 if tier == "quick" else 60):
            root = os.path.join(tmp, "p%d" % pi)
            pr = E.gen_project(rng, nbase=rng.randint(2, 4), nodes=[10, 14, 20])
            for f in pr.sources():
                pth = os.path.join(root, "proj", f["Path"])
                os.makedirs(os.path.dirname(pth), exist_ok=True)
                with open(pth, "w") as fh:
                    fh.write(f["Src"])
            types = rng.choice([None, ["type1", "type2", "type4"], ["type1"], ["type1", "type2", "type3", "type4"], ["type3", "type4"]])
            with open(os.path.join(root, "cfg.toml"), "w") as fh:
                rng_sim = rng.choice([None, None, (0.0, 0.95), (0.7, 1.0), (0.8, 0.99)])
                fh.write("[clones]\nmin_lines = 4\nmin_nodes = 8\n" + ("" if types is None else "enabled_clone_types = %s\n" % json.dumps(types))
                         + ("" if rng_sim is None else "min_similarity = %s\nmax_similarity = %s\n" % rng_sim))
            rc, data, err = C.pyscn_json(["proj"], root, extra=["--select", "clones", "--config", os.path.join(root, "cfg.toml")])
            cli_runs += 1
            cl = (data or {}).get("clone")
            if not cl:
                continue
            thr = cl["request"].get("group_threshold") or 0.0
            loc = lambda c: (c["location"]["file_path"], c["location"]["start_line"], c["location"]["end_line"])
            groups = [sorted(loc(c) for c in g["clones"]) for g in cl.get("clone_groups") or []]
            adj = {}
            for p in cl.get("clone_pairs") or []:
                if p["similarity"] >= thr:
                    a, b = loc(p["clone1"]), loc(p["clone2"])
                    adj.setdefault(a, set()).add(b)
                    adj.setdefault(b, set()).add(a)
            comps, seen = [], set()
            for v in sorted(adj):
                if v in seen:
                    continue
                comp, todo = [], [v]
                seen.add(v)
                while todo:
                    u = todo.pop()
                    comp.append(u)
                    for w in adj[u]:
                        if w not in seen:
                            seen.add(w)
                            todo.append(w)
                comps.append(sorted(comp))
            info = {"files": pr.sources(), "enabled_clone_types": types, "similarity_range": rng_sim, "group_threshold": thr}
            flat = [m for g in groups for m in g]
            bad = None
            if any(len(g) < 2 for g in groups):
                bad = ("a reported group has fewer than two members", {"kind": "report-group", "what": "small"})
            elif len(set(flat)) != len(flat):
                bad = ("a fragment belongs to two reported groups", {"kind": "report-group", "what": "overlap"})
            elif sorted(groups) != sorted(comps):
                only_g = [g for g in groups if g not in comps][:1]
                only_c = [c for c in comps if c not in groups][:1]
                bad = ("the reported groups are not the connected components of the REPORTED pairs at or above the grouping threshold %.2f: group %s vs component %s" % (thr, only_g, only_c),
                       {"kind": "report-group", "what": "not-components", "types_filtered": types is not None and len(types) < 4})
            if bad:
                k = C.classify(PID, bad[1])
                if k:
                    res.known_finding(k, "(%s)" % bad[0][:250])
                else:
                    res.violation("C10 (report): " + bad[0], dict(info, signature=bad[1]))
    finally:
        shutil.rmtree(tmp, ignore_errors=True)
    if not ps.ok and not any(f for _, _, f in res.violations):
        res.violation("proof obligation or tie broken: " + "; ".join(ps.broken)[:1500],
                      {"broken": ps.broken, "note": "no pair graph on which the implementation violates C10 was found in %d cases" % len(cases)},
                      found_input=False)
    res.coverage.update({
        "evaluations": len(cases) * 2 + cli_runs,
        "cli_runs": cli_runs,
        "distinct_nontrivial": len(nontrivial),
        "rule": "every weighted graph on 3 and 4 fragments with edge weights in {absent, θ-1/64, θ, θ+1/64} for each mode (k-core with k=1,2,3), "
                "random graphs ≤30 fragments (cliques/near-cliques, stars, chains, duplicate and reversed pairs, thresholds incl. 1/64 and 1); "
                "each run twice (map order); non-trivial = distinct case with at least one group; REPORT LEVEL: generated clone projects through the real CLI with "
                "random enabled_clone_types and min/max_similarity — clone.clone_groups[] must be the >=2-member components of the clone.clone_pairs[] of the same report",
        "exhaustive": True,
        "exhaustive_note": "complete for ≤%d fragments over the 4-level weight grid; sampled beyond" % exhaustive_n,
        "samples": [{"case": cases[-1], "impl_groups": go[-1].get("runs", [{}])[0].get("groups")}],
        "traces_validated_against_impl": len(cases) - diffs,
        "distribution": hist,
    })
    return res.finish("proof")
