"""C20 — analyses are independent: running them together or apart gives the same results (DESIGN.md §4 C20)."""
import json
import os
import random
import shutil
import tempfile
import time

from . import common as C
from .c05 import strip, first_diffs
from .c06 import per_file
from .c16 import gen_module, gen_dead, func_with_complexity

PID = "C20"
SELECT = [("complexity", "complexity"), ("deadcode", "dead_code"), ("clones", "clone"), ("cbo", "cbo"), ("lcom", "lcom"), ("deps", "system")]
FLAGS = ["--min-complexity", "1", "--clone-threshold", "0.8", "--min-severity", "warning"]
PER_FILE = ("complexity", "dead_code", "cbo", "lcom")
# Sibling names for which the order in which a directory walk meets the files (names sorted per directory) is NOT the byte order of the collected path strings:
# a directory whose name is a prefix of its sibling's name when the sibling goes on with a byte below "/" ("-", ".", "+"), and a module next to a package of the
# same name ("utils.py" sorts before "utils/x.py" as a string, the walk visits "utils" first). Real projects have them (app/ + app-old/, core/ + core.bak/).
LAYOUT_DIRS = [("app", "app-old"), ("core", "core.bak"), ("svc", "svc+v2"), ("lib", "lib-legacy")]
# files the parser rejects (they sit in real trees: half-edited files, unresolved merges, notebook exports, templates with a .py suffix)
BROKEN = [
    ("syntax", "import os\n\ndef broken(:\n    return 1\n\nclass Half:\n    def m(self)\n        return 2\n"),
    ("conflict", "import os\n\n<<<<<<< HEAD\ndef f(a):\n    return a + 1\n=======\ndef f(a):\n    return a + 2\n>>>>>>> feature\n"),
    ("notebook", "%matplotlib inline\nimport os\n\ndef f(a):\n    !ls\n    return a\n"),
    ("template", "{% if cookiecutter.use_cli %}\nimport click\n{% endif %}\n\ndef main({{ cookiecutter.args }}):\n    return {{ cookiecutter.value }}\n"),
    ("brackets", "TABLE = {\n    'a': [1, 2,\n    'b': (3, 4\n\ndef after():\n    return TABLE[\n"),
]
# where the rejected file sits among the collected files: first, in the middle, last, inside a package
BROKEN_AT = ["a0_%s.py", "n_%s.py", "zz_%s.py", "pkg/%s_gen.py"]


def build_race():
    env = C.go_env()
    rc, out = C.sh(["go", "build", "-race", "-o", os.path.join(C.BUILD, "pyscn_race"), "./cmd/pyscn"], cwd=C.REPO, env=env)
    if rc != 0:
        return False, out
    # the overlay harness under the race detector (for the cancellation scenario: the real MCP handlers with a request context that ends mid-run)
    rc, out2 = C.sh(["go", "build", "-race", "-tags", "verif", "-overlay", os.path.join(C.BUILD, "overlay.json"), "-o", os.path.join(C.BUILD, "verifharness_race"),
                     "./cmd/verifharness"], cwd=C.REPO, env=env)
    return rc == 0, out + out2


def walk_order(names):
    """the order in which a directory walk that sorts the names of each directory meets these relative paths"""
    tree = {}
    for n in names:
        node = tree
        parts = n.split("/")
        for p in parts[:-1]:
            node = node.setdefault(p, {})
        node[parts[-1]] = None
    out = []

    def rec(node, prefix):
        for k in sorted(node):
            if node[k] is None:
                out.append(prefix + k)
            else:
                rec(node[k], prefix + k + "/")
    rec(tree, "")
    return out


def write_files(root, files):
    for fn, src in files.items():
        os.makedirs(os.path.dirname(os.path.join(root, fn)), exist_ok=True)
        with open(os.path.join(root, fn), "w") as f:
            f.write(src)


def race_run(targets, root, gomaxprocs, flags=FLAGS):
    """the race-detector build of the real CLI on these targets: (rc, stderr, report or None)"""
    rep = os.path.join(root, ".pyscn", "reports")
    shutil.rmtree(rep, ignore_errors=True)
    env = dict(os.environ, GOMAXPROCS=str(gomaxprocs), GORACE="halt_on_error=0 exitcode=66")
    rc, so, se = C.sh_capture([os.path.join(C.BUILD, "pyscn_race"), "analyze", "--json", "--no-open"] + list(flags) + list(targets), cwd=root, env=env, timeout=1200)
    data = None
    if os.path.isdir(rep):
        fs = sorted(f for f in os.listdir(rep) if f.endswith(".json"))
        if fs:
            try:
                with open(os.path.join(rep, fs[-1])) as f:
                    data = json.load(f)
            except Exception:
                data = None
    return rc, se, data


def small_module(rng, idx):
    """a module with something for each per-file analysis (a function with branches, dead code, a class with a dependency and 1-3 cohesion groups) and little for the clone detector"""
    out = ["import os", "", func_with_complexity("g%d" % idx, rng.choice([1, 2, 3, 6, 11])),
           gen_dead(rng, "gone%d" % idx, rng.choice(["return", "raise", "break", "branch", "mixed"]), rng.choice([0, 0, 1, 4]), rng.choice([0, 1]))]
    if rng.random() < 0.8:
        body = ["    helper: Aux%d = None" % idx]
        for g in range(rng.randint(1, 3)):
            body += ["", "    def get%d(self):" % g, "        return self.part%d" % g, "", "    def put%d(self, v):" % g, "        self.part%d = v" % g]
        out += ["class Aux%d:\n    pass\n" % idx, "class Box%d:\n%s\n" % (idx, "\n".join(body))]
    return "\n".join(out) + "\n"


def gen_project(rng, root):
    os.makedirs(root)
    open(os.path.join(root, "requirements.txt"), "w").close()
    n = rng.randint(3, 6)
    files = {}
    for m in range(n):
        src = gen_module(rng, m)
        # import edges incl. a cycle, so that the dependency section has something to say
        imports = ["import mod%d" % ((m + 1) % n)] + (["import mod%d" % ((m + 2) % n)] if rng.random() < 0.4 else [])
        files["mod%d.py" % m] = "\n".join(imports) + "\n" + src
    # type stubs and other files the collector also picks up, at positions that are not last in the walk order (a list shared between the analyses and
    # edited in place by one of them shifts every later entry)
    for m in rng.sample(range(n), rng.randint(1, 2)):
        files["mod%d.pyi" % m] = "def fn%d_0(a: int) -> int: ...\n\nclass K%d:\n    x: int\n    def get(self) -> int: ...\n" % (m, m)
    files["aaa_stub.pyi"] = "def helper(a: int) -> int: ...\n"
    os.makedirs(os.path.join(root, "pkg"))
    files["pkg/__init__.py"] = ""
    files["pkg/inner.py"] = "from mod0 import os\n" + gen_module(rng, 9)
    # a module WITHOUT any explicit import (and one with a star import only) that mentions names an earlier-sorted module imports explicitly:
    # whatever table of imported names an analysis builds for one file must not survive into the next file
    files["shared_names.py"] = "class Repository:\n    def get(self):\n        return 1\n\nclass Ledger:\n    def put(self, v):\n        self.v = v\n\ndef open_ledger():\n    return Ledger()\n"
    files["a_billing.py"] = ("from shared_names import Repository, Ledger, open_ledger\nimport shared_names as sn\n\nclass Invoice:\n    def total(self):\n        self.repo = Repository()\n"
                             "        return Ledger().put(open_ledger())\n")
    files["b_handlers.py"] = ("class Handler:\n    def handle(self, x):\n        self.repo = Repository()\n        self.led = Ledger()\n        return open_ledger()\n\n"
                              "class Other(Repository):\n    def m(self):\n        return sn.Ledger()\n")
    files["c_star.py"] = "from shared_names import *\n\nclass StarUser:\n    def run(self):\n        self.r = Repository()\n        return Ledger()\n"
    # layout: siblings whose walk order is not the byte order of their paths (see LAYOUT_DIRS); every analysis is handed the files in the collected order
    da, db = rng.choice(LAYOUT_DIRS)
    for d, base in ((da, 20), (db, 30)):
        for k in range(rng.randint(2, 3)):
            files["%s/m%d.py" % (d, k)] = ("import mod%d\n" % rng.randrange(n)) + small_module(rng, base + k)
    if rng.random() < 0.6:
        files["utils.py"] = small_module(rng, 40)
        files["utils/__init__.py"] = ""
        files["utils/helpers.py"] = "import utils\n" + small_module(rng, 41)
    write_files(root, files)
    return files


def run(tier, seed, replay=None):
    res = C.Result(PID, tier, seed)
    rng = random.Random(seed * 1000003 + 20)
    ps = C.prove(PID)
    C.proof_coverage(res, ps, "cd /verif/lean && lake build PV.Properties.C20 && #print axioms (audit)")
    res.assumptions += [
        "PARTIAL: the theorems are about the model of the combination (sections / per-file results as functions of their own inputs); data-race freedom is a property of the real "
        "goroutines and is decided by running a -race build of the real CLI (a race the detector does not observe on these runs is not excluded); MCP/CLI equality is decided by "
        "calling the real handlers in process",
        "combined and separate runs use the same flags; reports are compared exactly (order included) after removing timestamps/durations",
    ]
    nproj = 4 if tier == "quick" else 24
    hist = {"projects": 0, "select_runs": 0, "subset_runs": 0, "race_runs": 0, "mcp_calls": 0, "projects_walk_order_not_byte_order": 0, "multi_target_runs": 0,
            "multi_target_orders_not_sorted": 0, "race_reports_compared": 0, "unparsable_file_runs": 0, "unparsable_by_kind": {}, "unparsable_by_position": {},
            "valid_files_compared_next_to_unparsable": 0, "unparsable_runs_where_the_parser_rejected_it": 0}
    nontrivial = set()
    hist["seconds_by_stage"] = {}
    clock = [time.time()]

    def tick(stage):
        now = time.time()
        hist["seconds_by_stage"][stage] = round(hist["seconds_by_stage"].get(stage, 0.0) + now - clock[0], 1)
        clock[0] = now
    ok_race, out_race = build_race()
    tick("race_builds")
    if not ok_race:
        ps.ok = False
        ps.broken.append("race-detector build of the CLI failed: %s" % out_race[-300:])
    tmp = tempfile.mkdtemp(prefix="pv_c20_")
    try:
        for pi in range(nproj):
            root = os.path.join(tmp, "p%d" % pi)
            proj = os.path.join(root, "proj")
            files = gen_project(rng, proj)
            hist["projects"] += 1
            info = {"files": files}
            rc, full, err = C.pyscn_json(["proj"], root, extra=FLAGS)
            if full is None:
                res.violation("analyze failed on a generated project: %s" % err[-300:], info)
                continue
            full = strip(full)
            nontrivial.add(pi)
            if walk_order(files) != sorted(files):
                hist["projects_walk_order_not_byte_order"] += 1

            # ---- together vs apart -----------------------------------------------------------------------------------------------
            def together_vs_apart(full, targets, sels, info):
                for sel, key in sels:
                    rc, d, err = C.pyscn_json(targets, root, extra=FLAGS + ["--select", sel])
                    hist["select_runs"] += 1
                    if d is None:
                        res.violation("C20: `analyze --select %s %s` produced no report although the combined run did: %s" % (sel, " ".join(targets), err[-200:]),
                                      dict(info, signature={"kind": "select-failed", "analysis": sel}))
                        continue
                    d = strip(d)
                    diffs = []
                    first_diffs(full.get(key), d.get(key), [key], diffs, limit=3)
                    for path, a, b in diffs:
                        sig = {"kind": "together-vs-apart", "path": path}
                        k = C.classify(PID, sig)
                        what = "C20: section `%s` differs between the combined run and `--select %s` (targets %s) at %s: %r (combined) vs %r (alone)" % (key, sel, " ".join(targets), path, a, b)
                        if k:
                            res.known_finding(k, "(%s)" % what[:250])
                        else:
                            res.violation(what, dict(info, signature=sig))
                    for other, okey in SELECT:
                        if okey != key and d.get(okey) not in (None, {}):
                            res.violation("C20: `--select %s` also produced a `%s` section" % (sel, okey), dict(info, signature={"kind": "extra-section", "analysis": sel, "section": okey}))

            def per_file_same(want_all, got_all, keep, what_run, info, scenario=None, secs=PER_FILE):
                """the per-file results of the files in `keep` are the same in both reports"""
                bad = 0
                for sec in secs:
                    want = [x for x in want_all[sec] if (x[0][0] if sec == "clones" else x[0]) in keep] if keep is not None else want_all[sec]
                    got = [x for x in got_all[sec] if (x[0][0] if sec == "clones" else x[0]) in keep] if keep is not None else got_all[sec]
                    if got != want:
                        bad += 1
                        sig = {"kind": "per-file", "section": sec}
                        if scenario:
                            sig["scenario"] = scenario
                        k = C.classify(PID, sig)
                        what = "C20: %s changes the %s results of these files: lost %s, new or repeated %s" % (
                            what_run, sec, [x for x in want if x not in got][:2], [x for x in got if x not in want or got.count(x) > want.count(x)][:2])
                        if k:
                            res.known_finding(k, "(%s)" % what[:250])
                        else:
                            res.violation(what, dict(info, signature=sig))
                return bad

            def race_check(targets, gomaxprocs, reference, info):
                """one run of the race-detector build; reports a race, or a report that differs from the one the ordinary build gave for the same targets. True = violation"""
                rc, se, rep = race_run(targets, root, gomaxprocs)
                hist["race_runs"] += 1
                if "DATA RACE" in se or rc == 66:
                    first = se[se.index("DATA RACE"):][:1500] if "DATA RACE" in se else se[-600:]
                    loc = [ln.strip() for ln in first.split("\n") if ".go:" in ln][:2]
                    res.violation("C20: the race detector reports a data race during `analyze %s` (GOMAXPROCS=%s): %s" % (" ".join(targets), gomaxprocs, loc),
                                  dict(info, signature={"kind": "data-race", "where": loc[:1]}, report=first, targets=targets))
                    return True
                if rep is not None and reference is not None:
                    # another schedule of the same goroutines (slower build, other GOMAXPROCS): the same findings
                    hist["race_reports_compared"] += 1
                    if per_file_same(per_file(reference, lambda p: True), per_file(strip(rep), lambda p: True), None,
                                     "running `analyze %s` under the race-detector build with GOMAXPROCS=%s (same files, same flags, another interleaving)" % (" ".join(targets), gomaxprocs),
                                     dict(info, targets=targets), scenario="other-interleaving", secs=PER_FILE + ("clones",)):
                        return True
                return False

            together_vs_apart(full, ["proj"], SELECT, info)
            tick("together_vs_apart")
            # ---- per-file results vs subsets and orders ------------------------------------------------------------------------------
            names = sorted(files)
            ref = per_file(full, lambda p: True)
            directed = [["b_handlers.py"], ["c_star.py"], ["b_handlers.py", "a_billing.py"], ["a_billing.py", "c_star.py", "b_handlers.py"], list(reversed(names))]
            for si in range(len(directed) + (3 if tier == "quick" else 6)):
                if si < len(directed):
                    sub = directed[si]
                else:
                    sub = rng.sample(names, rng.randint(1, len(names)))
                    rng.shuffle(sub)
                rc, d, err = C.pyscn_json([os.path.join("proj", f) for f in sub], root, extra=FLAGS + ["--select", "complexity,deadcode,cbo,lcom"])
                hist["subset_runs"] += 1
                if d is None:
                    if any(files[f].strip() for f in sub):
                        # a subset with no function at all makes the complexity analysis fail ("no functions found"): not a per-file matter
                        continue
                    continue
                got = per_file(strip(d), lambda p: True)
                keep = set(os.path.join("proj", f) for f in sub)
                for sec in ("complexity", "dead_code", "cbo", "lcom"):
                    want = [x for x in ref[sec] if x[0] in keep]
                    if got[sec] != want:
                        sig = {"kind": "per-file", "section": sec}
                        k = C.classify(PID, sig)
                        what = "C20: analysing only %s (in this order) changes the %s results of these files: lost %s, new %s" % (
                            sub, sec, [x for x in want if x not in got[sec]][:2], [x for x in got[sec] if x not in want][:2])
                        if k:
                            res.known_finding(k, "(%s)" % what[:250])
                        else:
                            res.violation(what, dict(info, signature=sig, subset=sub))
            tick("subsets_orders")
            # ---- data races ---------------------------------------------------------------------------------------------------------
            if ok_race:
                for r in range(2 if tier == "quick" else 6):
                    if race_check(["proj"], [8, 16, 2][r % 3], full, info):
                        break
            tick("race_runs_proj")
            # ---- several command-line targets in an order of their own: the files reach the analyses in THAT order (every file subset and ordering) -------------
            tops = sorted(set(f.split("/")[0] for f in files))
            for mi in range(1 if tier == "quick" else 3):
                tg = tops[:]
                rng.shuffle(tg)
                if mi == 0 and tg == tops:
                    tg.reverse()
                targets = [os.path.join("proj", t) for t in tg]
                minfo = dict(info, targets=targets)
                rc, md, err = C.pyscn_json(targets, root, extra=FLAGS)
                hist["multi_target_runs"] += 1
                if md is None:
                    res.violation("C20: `analyze %s` produces no report although `analyze proj` (the same files) does: %s" % (" ".join(targets), err[-200:]), dict(minfo, signature={"kind": "multi-target-failed"}))
                    continue
                md = strip(md)
                collected = [f for t in tg for f in walk_order(files) if f == t or f.startswith(t + "/")]
                if collected != sorted(collected):
                    hist["multi_target_orders_not_sorted"] += 1
                per_file_same(ref, per_file(md, lambda p: True), None, "listing the entries of proj as separate targets in the order %s instead of `proj`" % tg, minfo, scenario="target-order")
                together_vs_apart(md, targets, rng.sample(SELECT, 2) if tier == "quick" else SELECT, minfo)
                if ok_race:
                    race_check(targets, [2, 8, 16][(pi + mi) % 3], md, minfo)
            tick("multi_target")
            # ---- a file the parser rejects among the files of the run: the results of the OTHER files are those of the run without it ---------------------------
            kind, bsrc = BROKEN[(pi + seed) % len(BROKEN)]
            bname = BROKEN_AT[(pi + seed // len(BROKEN)) % len(BROKEN_AT)] % kind
            broot = os.path.join(root, "with_unparsable")
            shutil.copytree(proj, os.path.join(broot, "proj"))
            write_files(os.path.join(broot, "proj"), {bname: bsrc})
            bpath = os.path.join("proj", bname)
            hist["unparsable_by_kind"][kind] = hist["unparsable_by_kind"].get(kind, 0) + 1
            hist["unparsable_by_position"][BROKEN_AT[(pi + seed // len(BROKEN)) % len(BROKEN_AT)]] = hist["unparsable_by_position"].get(BROKEN_AT[(pi + seed // len(BROKEN)) % len(BROKEN_AT)], 0) + 1
            order = walk_order(list(files) + [bname])
            listed = [f for f in names if f != bname]
            rng.shuffle(listed)
            listed.insert(rng.randrange(0, max(1, len(listed) // 3)), bname)
            for how, targets, flags in (("the project directory, all analyses", ["proj"], FLAGS),
                                        ("the files listed one by one in a shuffled order, the per-file analyses", [os.path.join("proj", f) for f in listed], FLAGS + ["--select", "complexity,deadcode,cbo,lcom"])):
                rc, bd, err = C.pyscn_json(targets, broot, extra=flags)
                hist["unparsable_file_runs"] += 1
                binfo = dict(info, unparsable={bname: bsrc}, targets=targets, flags=flags)
                if bd is None:
                    res.violation("C20: with one unparsable file (%s) among %d files `analyze` produces no report: %s" % (bname, len(files) + 1, err[-200:]),
                                  dict(binfo, signature={"kind": "unparsable-file-no-report"}))
                    continue
                if any(("[%s]" % bpath) in str(e) for e in ((bd.get("complexity") or {}).get("Errors") or [])):
                    hist["unparsable_runs_where_the_parser_rejected_it"] += 1
                keep = set(os.path.join("proj", f) for f in files)
                hist["valid_files_compared_next_to_unparsable"] += len(keep)
                per_file_same(ref, per_file(strip(bd), lambda p: p != bpath), keep,
                              "adding the unparsable file %s (%s; position %d of %d in walk order) to the run (%s)" % (bname, kind, order.index(bname) + 1, len(order), how),
                              binfo, scenario="unparsable-file-in-run")
            tick("unparsable_file")
            # ---- an interleaving of its own: the request context ends while the analyses run (MCP client gives up / deadline) ---------------------------
            if ok_race and pi < (1 if tier == "quick" else 6):
                big = os.path.join(root, "bigproj")
                shutil.copytree(proj, big)
                for k in range(12):
                    for fn, src in files.items():
                        if fn.startswith("mod") and fn.endswith(".py"):
                            with open(os.path.join(big, "x%d_%s" % (k, fn)), "w") as f:
                                f.write(src)
                req = "mcp_cancel " + json.dumps({"Tool": "analyze_code", "Args": {"path": big, "output_mode": "full"}, "Cwd": root, "AfterMs": [1, 20, 100, 300, 700]})
                import subprocess
                env = dict(C.harness_env(), GORACE="halt_on_error=0")
                p = subprocess.run([os.path.join(C.BUILD, "verifharness_race")], input=req + "\n", capture_output=True, text=True, env=env, timeout=1800)
                hist["cancel_runs"] = hist.get("cancel_runs", 0) + 5
                hist["race_runs"] += 5
                if "DATA RACE" in p.stderr:
                    first = p.stderr[p.stderr.index("DATA RACE"):][:1800]
                    loc = [ln.strip() for ln in first.split("\n") if ".go:" in ln][:3]
                    res.violation("C20: the race detector reports a data race when the request context of MCP analyze_code ends while the analyses run "
                                  "(deadlines 1/20/100/300/700 ms on a %d-file project): %s" % (len(os.listdir(big)), loc),
                                  dict(info, signature={"kind": "data-race", "scenario": "context-ends-mid-run", "where": loc[:1]}, report=first))
                elif p.returncode != 0 or not p.stdout.strip():
                    res.violation("C20: the MCP handler crashes when its request context ends mid-run: %s" % p.stderr[-400:],
                                  dict(info, signature={"kind": "crash", "scenario": "context-ends-mid-run"}))
                else:
                    try:
                        runs = json.loads(p.stdout.strip().split("\n")[-1])["runs"]
                    except Exception:
                        runs = []
                    left = [r["still_running_at_return"] for r in runs]
                    hist["goroutines_still_running_at_return"] = left
                    # On the unchanged tree the use case waits for every analysis goroutine before it builds the response (0 or 1 goroutine is still winding
                    # down when the handler returns). This observation only DECIDES when the pinned structure of Execute (C20_facts: goroutine starts, wg.Wait,
                    # result reads) no longer matches the source: then goroutines that outlive the call are the concrete schedule on which the response is
                    # built from task records that are still being written.
                    if left and min(left) >= 3 and not ps.ok:
                        res.violation("C20: MCP analyze_code returns while %s analysis goroutines of the request are still running (request context ended after 1/20/100/300/700 ms): "
                                      "the response and the error list are built from task records those goroutines still write (unsynchronised: a data race on task.Result/task.Error)" % left,
                                      dict(info, signature={"kind": "data-race", "scenario": "context-ends-mid-run", "where": ["goroutines outlive Execute"]}, runs=runs, broken=ps.broken))
            tick("mcp_cancel")
            # ---- MCP tools vs the command line -------------------------------------------------------------------------------------------
            absproj = proj
            # "the same path and options": the options the MCP server works with are read from the echo of its own full response
            probe = C.harness_batch("mcp", [{"Tool": "analyze_code", "Args": {"path": absproj, "output_mode": "full"}, "Cwd": root}])[0]
            hist["mcp_calls"] += 1
            pj = probe.get("json") or {}
            try:
                mflags = ["--min-complexity", str(pj["complexity"]["Config"]["min_complexity"]), "--clone-threshold", repr(pj["clone"]["request"]["similarity_threshold"]),
                          "--min-severity", pj["dead_code"]["config"]["min_severity"]]
            except (KeyError, TypeError):
                res.violation("C20: MCP analyze_code (full) does not echo its options: %s" % str(probe)[:300], dict(info, signature={"kind": "mcp-error", "tool": "analyze_code"}))
                continue
            rc, cli, err = C.pyscn_json([absproj], root, extra=mflags)
            calls = [("analyze_code", {"path": absproj, "output_mode": "full"}), ("check_complexity", {"path": absproj, "min_complexity": int(mflags[1]), "output_mode": "detailed", "max_results": 100000}),
                     ("find_dead_code", {"path": absproj, "min_severity": mflags[5], "output_mode": "detailed", "max_results": 100000}),
                     ("check_coupling", {"path": absproj, "output_mode": "detailed", "max_results": 100000}), ("check_cohesion", {"path": absproj, "output_mode": "detailed", "max_results": 100000}),
                     ("get_health_score", {"path": absproj})]
            outs = C.harness_batch("mcp", [{"Tool": t, "Args": a, "Cwd": root} for t, a in calls])
            hist["mcp_calls"] += len(calls)
            bad = []
            for (tool, args), o in zip(calls, outs):
                if o.get("is_error") or "json" not in o:
                    bad.append(("MCP tool %s fails where the command line succeeds: %s" % (tool, str(o)[:200]), {"kind": "mcp-error", "tool": tool}))
                    continue
                j = o["json"]
                if tool == "analyze_code":
                    a, b = per_file(cli, lambda p: True), per_file(strip(j), lambda p: True)
                    for sec in a:
                        if a[sec] != b[sec]:
                            bad.append(("MCP analyze_code and the command line differ in %s: only CLI %s, only MCP %s" % (sec, [x for x in a[sec] if x not in b[sec]][:2], [x for x in b[sec] if x not in a[sec]][:2]),
                                        {"kind": "mcp-vs-cli", "tool": tool, "section": sec}))
                    for k in ("health_score", "grade", "total_functions", "dead_code_count", "clone_pairs", "cbo_classes", "lcom_classes"):
                        if (cli.get("summary") or {}).get(k) != (j.get("summary") or {}).get(k):
                            bad.append(("MCP analyze_code summary.%s = %r, command line %r" % (k, (j.get("summary") or {}).get(k), (cli.get("summary") or {}).get(k)), {"kind": "mcp-vs-cli", "tool": tool, "field": k}))
                elif tool == "check_complexity":
                    S = cli["complexity"]["Summary"]
                    if (j["summary"]["total_functions"], j["summary"]["max_complexity"]) != (S["TotalFunctions"], S["MaxComplexity"]) or abs(j["summary"]["average_complexity"] - S["AverageComplexity"]) > 1e-9:
                        sig = {"kind": "mcp-vs-cli", "tool": tool}
                        # is the whole difference that the tool does not look at the type stubs (.pyi) the command line analyses? (finding F41)
                        fl = [f for f in cli["complexity"]["Functions"] or [] if not f["FilePath"].endswith(".pyi")]
                        if len(cli["complexity"]["Functions"] or []) == S["TotalFunctions"] and fl and (j["summary"]["total_functions"], j["summary"]["max_complexity"]) == (len(fl), max(f["Metrics"]["Complexity"] for f in fl)) \
                                and abs(j["summary"]["average_complexity"] - sum(f["Metrics"]["Complexity"] for f in fl) / len(fl)) < 1e-9:
                            sig["stubs_ignored"] = True
                        bad.append(("MCP check_complexity summary %s, command line (total %d, max %d, avg %r)" % (j["summary"], S["TotalFunctions"], S["MaxComplexity"], S["AverageComplexity"]), sig))
                elif tool == "find_dead_code":
                    a = sorted((f["file_path"], x["location"]["start_line"], x["severity"]) for f in (cli["dead_code"].get("files") or []) for fn in f["functions"] for x in fn["findings"])
                    b = sorted((x["file"], x["line"], x["severity"]) for x in j.get("issues") or [])
                    if a != b:
                        sig = {"kind": "mcp-vs-cli", "tool": tool}
                        if [x for x in a if not x[0].endswith(".pyi")] == b:
                            sig["stubs_ignored"] = True
                        bad.append(("MCP find_dead_code lists %s, the command line %s" % ([x for x in b if x not in a][:2] or len(b), [x for x in a if x not in b][:2] or len(a)), sig))
                elif tool in ("check_coupling", "check_cohesion"):
                    sec, tk, mk = ("cbo", "total_classes", "max_cbo") if tool == "check_coupling" else ("lcom", "total_classes", "max_lcom")
                    S = cli[sec]["Summary"]
                    want_total = S["TotalClasses"]
                    if j["summary"][tk] != want_total or j["summary"][mk] != (S["MaxCBO"] if sec == "cbo" else S["MaxLCOM"]):
                        sig = {"kind": "mcp-vs-cli", "tool": tool}
                        cl = [c for c in cli[sec]["Classes"] or [] if not c["FilePath"].endswith(".pyi")]
                        val = (lambda c: c["Metrics"]["CouplingCount"]) if sec == "cbo" else (lambda c: c["Metrics"]["LCOM4"])
                        if len(cli[sec]["Classes"] or []) == want_total and cl and (j["summary"][tk], j["summary"][mk]) == (len(cl), max(val(c) for c in cl)):
                            sig["stubs_ignored"] = True
                        bad.append(("MCP %s summary %s, command line TotalClasses %d / max %d" % (tool, j["summary"], want_total, S["MaxCBO"] if sec == "cbo" else S["MaxLCOM"]), sig))
                elif tool == "get_health_score":
                    if (j.get("health_score"), j.get("grade")) != (cli["summary"]["health_score"], cli["summary"]["grade"]):
                        sig = {"kind": "mcp-vs-cli", "tool": tool}
                        bad.append(("MCP get_health_score says %s/%s, the command line %s/%s" % (j.get("health_score"), j.get("grade"), cli["summary"]["health_score"], cli["summary"]["grade"]), sig))
            # ---- one server, several calls: a pyscn-mcp process keeps ONE handler set; each answer must still be the answer to ITS request -------------------
            seq = [(["complexity"], "complexity"), (["dead_code"], "dead_code"), (None, None), (["cbo", "lcom"], "cbo"), (["deps"], "system"), (["complexity"], "complexity")]
            rng.shuffle(seq)
            calls2 = [("analyze_code", dict({"path": absproj, "output_mode": "full"}, **({"analyses": a} if a else {}))) for a, _ in seq] + [("get_health_score", {"path": absproj})]
            sess = C.harness_batch("mcp_session", [{"Calls": [{"Tool": t, "Args": a} for t, a in calls2], "Cwd": root}])[0].get("outs") or []
            hist["mcp_calls"] += len(calls2)
            hist["mcp_session_calls"] = hist.get("mcp_session_calls", 0) + len(calls2)
            full_mcp = strip(pj)
            for (tool, args), o in zip(calls2, sess):
                j = o.get("json")
                if o.get("is_error") or j is None:
                    bad.append(("MCP %s %s fails in a session where a single call succeeds: %s" % (tool, args.get("analyses"), str(o)[:200]), {"kind": "mcp-session-error", "tool": tool}))
                    continue
                if tool == "get_health_score":
                    if (j.get("health_score"), j.get("grade")) != (cli["summary"]["health_score"], cli["summary"]["grade"]):
                        bad.append(("MCP get_health_score after other calls on the same server says %s/%s, the command line %s/%s" % (j.get("health_score"), j.get("grade"), cli["summary"]["health_score"], cli["summary"]["grade"]),
                                    {"kind": "mcp-session", "tool": tool}))
                    continue
                j = strip(j)
                want = args.get("analyses") or ["complexity", "dead_code", "clone", "cbo", "lcom", "deps"]
                present = [a for a, key in (("complexity", "complexity"), ("dead_code", "dead_code"), ("clone", "clone"), ("cbo", "cbo"), ("lcom", "lcom"), ("deps", "system")) if j.get(key) not in (None, {})]
                if sorted(present) != sorted(want):
                    bad.append(("MCP analyze_code(analyses=%s) on a server that answered other requests before returns the sections %s" % (args.get("analyses"), present), {"kind": "mcp-session", "tool": tool, "what": "sections"}))
                    continue
                a, b = per_file(full_mcp, lambda p: True), per_file(j, lambda p: True)
                for sec, name in (("complexity", "complexity"), ("dead_code", "dead_code"), ("cbo", "cbo"), ("lcom", "lcom")):
                    if name in want and a[sec] != b[sec]:
                        bad.append(("MCP analyze_code(analyses=%s) in a session differs from the full single call in %s" % (args.get("analyses"), sec), {"kind": "mcp-session", "tool": tool, "section": sec}))
            tick("mcp")
            for what, sig in bad:
                k = C.classify(PID, sig)
                if k:
                    res.known_finding(k, "(%s)" % what[:250])
                else:
                    res.violation("C20: " + what, dict(info, signature=sig))
    finally:
        shutil.rmtree(tmp, ignore_errors=True)
    if not ps.ok and not any(fi for _, _, fi in res.violations):
        res.violation("proof obligation or tie broken: " + "; ".join(ps.broken)[:1500], {"broken": ps.broken}, found_input=False)
    res.coverage.update({
        "evaluations": hist["select_runs"] + hist["subset_runs"] + hist["race_runs"] + hist["mcp_calls"] + hist["multi_target_runs"] + hist["unparsable_file_runs"],
        "distinct_nontrivial": len(nontrivial),
        "rule": "generated projects (4-8 modules in two directories with functions around the complexity thresholds, dead code, coupled classes, cohesion groups, copied functions, import "
                "cycles); per project: the combined run vs each of the six analyses alone (sections compared exactly), random file subsets in random order vs the full run (per-file results), "
                "the race-detector build of the real CLI with GOMAXPROCS 8/16/2, the race-detector build of the harness calling MCP analyze_code with a request context that ends after 1/20/100/300/700 ms, "
                "directed subsets (a module without imports alone / after / before the module that imports the names it mentions), six MCP tools called in process vs the command line with the same path and options; "
                "every project holds sibling directories / a module next to a package whose walk order is not the byte order of the paths (app/ + app-old/, utils.py + utils/); per project the top-level entries "
                "given as separate command-line targets in a shuffled order (combined run vs the per-file results of `analyze proj`, vs two analyses alone, and under the race detector), the report written by "
                "every race-detector run compared with the ordinary build's report for the same targets, and one file the parser rejects (syntax error / merge conflict / notebook magics / template / open brackets; first, middle, last, "
                "inside a package) added to the project: the per-file results of every other file vs the run without it (project directory with all analyses; shuffled explicit file list)",
        "samples": [{"select": "deps", "compared_section": "system"}, {"subset": ["mod2.py", "mod0.py"], "compared": ["complexity", "dead_code", "cbo", "lcom"]}, {"mcp_tool": "find_dead_code", "vs": "analyze --json dead_code findings"},
                    {"targets": ["proj/utils.py", "proj/app-old", "proj/mod1.py", "proj/app", "proj/utils"], "compared": "per-file results vs `analyze proj`; race detector"},
                    {"unparsable": "proj/a0_conflict.py", "compared": "per-file results of the other files vs the project without it"}],
        "traces_validated_against_impl": hist["select_runs"] + hist["subset_runs"] + hist["multi_target_runs"] + hist["unparsable_file_runs"] + hist["race_reports_compared"],
        "distribution": hist,
    })
    return res.finish("other")
