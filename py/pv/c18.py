"""C18 — file selection depends on the files, not on how the path is spelled (DESIGN.md §4 C18)."""
import json
import os
import random
import shutil
import tempfile

from . import common as C

PID = "C18"
FILES = ["main.py", "util.py", "test_main.py", "main_test.py", "contest_x.py", "stubs.pyi", ".hidden.py", "UPPER.PY", "notes.txt", "conftest.py", "setup.py", "a.b.py",
         "Main.py", "Util.py", "helpers.py", "vec.py"]        # names that differ only in case are different files
DIRS = ["pkg", "sub", "tests", ".cache", "venv", "build", "My.egg-info", "node_modules", "Env", "docs", "__pycache__", "src",
        # directories whose NAME matches a file pattern (patterns select files, they do not prune directories), and pairs that differ only in case
        "test_support", "legacy_api", "x_test", "test_vectors.py", "api", "API", "Pkg", "proto_pb2_utils"]
SEGS = ["a", "b", "ab", "test_x.py", "x_test.py", "*.py", "*", "?", "a*", "*b", "**", "t?st_*.py", "*.pyi", ".h", "main.py", "test_*.py", "*_test.py", "pkg", "sub"]
NAMES = ["a", "b", "ab", "test_x.py", "x_test.py", "main.py", "s.pyi", ".h", "pkg", "sub", "tast_q.py", "aXb", "x.py",
         # a PATH is compared literally: characters that would be glob syntax in a pattern are ordinary characters in a file or directory name
         "d[v2]", "{t}", "a*b", "w?", "p[", "a\\b"]
# directory names that contain glob metacharacters (valid names on every POSIX file system): a pattern is matched against the path, the path is never a pattern
META_DIRS = ["data[v2]", "{tmpl}", "what?", "a*b", "w[", "br{ace", "bs\\d", "[a-z]", "**", "t]x"]
PATTERN_SETS = [
    (["**/*.py", "*.pyi"], ["test_*.py", "*_test.py"]),      # the defaults
    ([], []),
    (["**/*.py"], []),
    (["*.py"], ["conftest.py"]),
    (["pkg/**"], []),
    (["**/sub/*.py", "main.py"], ["**/test_*"]),
    (["**"], ["pkg/*.py", "**/tests/**"]),
    (["**/*.py"], ["sub/**", "*/sub/**"]),
    (["*"], ["**/*.pyi", "t?st_*.py"]),
    (["**/*.py"], ["test_*", "pkg/*"]),
    (["**/*.py"], ["**/legacy*", "**/sub", "*_pb2*"]),
    (["**/*.py"], ["API/*", "*/api/*", "x_test"]),
]


def gen_tree(rng):
    """list of relative paths (files) of a generated tree"""
    out = []

    def fill(prefix, depth):
        for f in rng.sample(FILES, rng.randint(1, 5)):
            out.append(prefix + [f])
        if depth < 3:
            for d in rng.sample(DIRS, rng.randint(0, 3)):
                fill(prefix + [d], depth + 1)
    fill([], 0)
    return out


def write_tree(root, tree):
    for rel in tree:
        p = os.path.join(root, *rel)
        os.makedirs(os.path.dirname(p), exist_ok=True)
        with open(p, "w") as f:
            f.write("def fn_%s(a):\n    return a\n" % "".join(c if c.isalnum() else "_" for c in "_".join(rel)))


def spellings(base, proj):
    """(cwd, target as typed) pairs that all denote the directory base/proj"""
    absd = os.path.join(base, proj)
    other = os.path.join(base, "elsewhere")
    os.makedirs(other, exist_ok=True)
    # a symbolic link to the directory is one more way to spell it (with and without the trailing slash that makes the OS resolve it)
    lnk = "lnk_" + proj.replace(".", "_")
    if not os.path.lexists(os.path.join(base, lnk)):
        os.symlink(proj, os.path.join(base, lnk))
    return [(absd, "."), (absd, "./"), (base, proj), (base, proj + "/"), (base, "./" + proj), (base, absd), (base, absd + "/"), (other, "../" + proj), (other, "../elsewhere/../" + proj),
            (absd, "../" + proj), ("/", absd.lstrip("/")), (base, lnk), (base, lnk + "/"), (other, "../" + lnk), (base, os.path.join(base, lnk))]


def clean_prefix(target):
    c = os.path.normpath(target)
    return [] if c == "." else c.split("/")


def lean_files(recursive, inc, exc, pre, tree):
    t = ["files", "1" if recursive else "0", str(len(inc))] + inc + [str(len(exc))] + exc + ["/".join(pre) if pre else "-", str(len(tree))] + ["/".join(r) for r in tree]
    return " ".join(t)


def run(tier, seed, replay=None):
    res = C.Result(PID, tier, seed)
    rng = random.Random(seed * 1000003 + 18)
    ps = C.prove(PID)
    C.proof_coverage(res, ps, "cd /verif/lean && lake build PV.Properties.C18 && #print axioms (audit)")
    res.assumptions += [
        "the glob sub-model (literals, ?, *, ** as a whole component) is validated against the real doublestar.Match on generated (pattern, path) pairs every run; character classes and "
        "braces, `**` glued to other characters (`a**`) and repeated `**/**` are not modelled and not generated (the library has corner cases there: `b/**` matches `b`, `b/**/**` does not)",
        "no symlinks, no permission errors, case-sensitive file system",
    ]
    hist = {"glob_pairs": 0, "trees": 0, "collect_calls": 0, "cli_runs": 0, "selected_files": 0, "multi_target_calls": 0,
            "meta_dir_files": 0, "meta_dirs": {}, "cli_discovered_runs": 0, "discovered_cfg_where": {}, "discovered_cfg_differs_from_default": 0}
    have_driver = os.path.exists(C.driver_path())
    if not have_driver:
        ps.ok = False
        ps.broken.append("driver missing")
    # ---------------- the glob sub-model vs the library ------------------------------------------------------------------------
    pairs = []
    for _ in range(4000 if tier == "quick" else 40000):
        segs = [rng.choice(SEGS) for _ in range(rng.randint(1, 3))]
        segs = [x for k, x in enumerate(segs) if not (x == "**" and k > 0 and segs[k - 1] == "**")]     # `**/**` has library-specific corner cases, not modelled
        pat = "/".join(segs)
        path = "/".join(rng.choice(NAMES) for _ in range(rng.randint(1, 4)))
        # library-specific corner, not modelled (found by the thorough tier, seed 2): a segment that ENDS in `*` after other characters (`a*`, `ab*`, `a**`), followed by a final
        # `/**` that has to match nothing, on a path whose last segment is matched with the star EMPTY: doublestar.Match("a*/**", "a") is false although
        # Match("a*/**", "ab"), Match("a/**", "a") and Match("*/**", "a") are true. File selection never asks this question with a decisive answer (a path that
        # equals the directory part of a `dir*/**` pattern is a directory, not a file); the pair is counted and left out of the comparison
        if len(segs) >= 2 and segs[-1] == "**" and len(segs[-2]) > 1 and segs[-2].endswith("*") and path.count("/") == len(segs) - 2:
            hist["glob_library_corner_skipped"] = hist.get("glob_library_corner_skipped", 0) + 1
            continue
        pairs.append([pat, path])
    real = C.harness_batch("glob", [{"Pairs": pairs}])[0]["m"]
    if have_driver:
        model = C.driver_batch(["glob %s %s" % (p, q) for p, q in pairs])
        for (p, q), a, b in zip(pairs, real, model):
            hist["glob_pairs"] += 1
            if str(a) != b:
                ps.ok = False
                ps.broken.append("glob sub-model: doublestar.Match(%r, %r) = %s, model says %s" % (p, q, a, b))
                res.violation("correspondence (glob): doublestar.Match(%r, %r) = %s, PV.Files.glob says %s" % (p, q, a, b),
                              {"correspondence": "PV.Files.glob vs doublestar.Match", "pattern": p, "path": q}, found_input=False)
                break
    # ---------------- trees -------------------------------------------------------------------------------------------------
    tmp = tempfile.mkdtemp(prefix="pv_c18_")
    nontrivial = set()
    try:
        ntrees = 12 if tier == "quick" else 120
        for ti in range(ntrees):
            base = os.path.join(tmp, "t%d" % ti)
            tree = gen_tree(rng) + [["app", "core.py"], ["app", "sub", "inner.py"], ["app_plugins", "plug.py"], ["build", "gen", "made.py"]]
            # directories whose names contain glob metacharacters, at depth 1 and deeper, holding files on which name patterns (no slash) and path patterns decide
            m1, m2 = rng.sample(META_DIRS, 2)
            meta_files = [[m1, "mod.py"], [m1, rng.choice(["test_inner.py", "inner_test.py"])], [m1, "shapes.pyi"], [m1, "sub", "test_deep.py"],
                          ["pkg", m2, "render.py"], ["pkg", m2, rng.choice(["render_test.py", "test_render.py", "conftest.py"])]]
            tree += [r for r in meta_files if r not in tree]
            hist["meta_dir_files"] += len(meta_files)
            for m_ in (m1, m2):
                hist["meta_dirs"][m_] = hist["meta_dirs"].get(m_, 0) + 1
            # the name of the target directory itself must not matter (vendor-like, upper case, with dots)
            PROJ = ["proj", "proj", "build", "venv", "dist", "Env", "my.egg-info", "node_modules"][ti % 8]
            write_tree(os.path.join(base, PROJ), tree)
            hist["trees"] += 1
            if "sample_tree" not in hist:
                hist["sample_tree"] = ["/".join(r) for r in tree[:12]]
            sp = spellings(base, PROJ)
            psets = [PATTERN_SETS[0]] + rng.sample(PATTERN_SETS[1:], 4)
            calls, meta = [], []
            for inc, exc in psets:
                for recursive in (True, False):
                    for cwd, target in (sp if recursive else sp[:4]):
                        calls.append({"Cwd": cwd, "Paths": [target], "Recursive": recursive, "Include": inc, "Exclude": exc})
                        meta.append((inc, exc, recursive, cwd, target))
            outs = C.harness_batch("files", calls)
            lines = [lean_files(r, inc, exc, clean_prefix(t), tree) for inc, exc, r, cwd, t in meta]
            models = C.driver_batch(lines) if have_driver else [None] * len(lines)
            groups = {}
            for (inc, exc, recursive, cwd, target), o, m in zip(meta, outs, models):
                hist["collect_calls"] += 1
                rp = {"tree": ["/".join(r) for r in tree], "include": inc, "exclude": exc, "recursive": recursive, "cwd_rel": os.path.relpath(cwd, base), "target": target}
                if "files" not in o:
                    res.violation("CollectPythonFiles failed for target %r from %s: %s" % (target, cwd, o.get("err") or o.get("error")), rp)
                    continue
                got = o["files"]
                canon = sorted(os.path.relpath(os.path.realpath(os.path.join(cwd, f)), os.path.join(base, PROJ)) for f in got)
                if len(set(canon)) != len(canon):
                    res.violation("C18: a file is selected twice for target %r: %s" % (target, [c for c in canon if canon.count(c) > 1][:3]), dict(rp, signature={"kind": "duplicate"}))
                groups.setdefault((tuple(inc), tuple(exc), recursive), []).append((target, cwd, canon))
                hist["selected_files"] += len(canon)
                if canon:
                    nontrivial.add((ti, tuple(inc), tuple(exc), recursive))
                if m is not None:
                    spelled, rel = m.split("|")
                    want = sorted(x for x in rel.split(",") if x)
                    if canon != want:
                        res.violation("C18: target %r (from %s) selects %s, the files that match an include and no exclude pattern are %s (unexpected %s, missing %s)"
                                      % (target, rp["cwd_rel"], canon, want, sorted(set(canon) - set(want))[:4], sorted(set(want) - set(canon))[:4]),
                                      dict(rp, signature={"kind": "selection"}))
                    elif sorted(os.path.normpath(f) for f in got) != sorted(os.path.normpath(x) for x in spelled.split(",") if x):
                        res.violation("correspondence (walk): returned paths %s, model %s" % (sorted(got)[:3], sorted(spelled.split(","))[:3]),
                                      dict(rp, correspondence="PV.Files.collect vs collectFromDirectory"), found_input=False)
            for key, lst in groups.items():
                ref = lst[0]
                for target, cwd, canon in lst[1:]:
                    if canon != ref[2]:
                        res.violation("C18 spelling: include=%s exclude=%s recursive=%s: target %r selects %s, target %r selects %s"
                                      % (list(key[0]), list(key[1]), key[2], ref[0], ref[2], target, canon),
                                      {"signature": {"kind": "spelling"}, "tree": ["/".join(r) for r in tree], "include": list(key[0]), "exclude": list(key[1]), "targets": [ref[0], target]})
                        break
            # several targets at once: overlapping and file targets; every file once
            dirs = sorted(set("/".join(r[:-1]) for r in tree if len(r) > 1 and not any(c.startswith(".") for c in r)))
            # (a hidden file named explicitly as a target is outside the model: the walk's hidden rule does not apply to what was asked for by name — not judged)
            pyfiles = ["/".join(r) for r in tree if r[-1].lower().endswith((".py", ".pyi")) and not r[-1].startswith(".")]
            multi = []
            if dirs:
                multi.append([PROJ, PROJ + "/" + rng.choice(dirs)])
                multi.append([PROJ + "/" + rng.choice(dirs), PROJ])
            if pyfiles:
                f1 = rng.choice(pyfiles)
                multi.append([PROJ + "/" + f1, PROJ])
                multi.append([PROJ + "/" + f1, PROJ + "/" + f1])
            # sibling targets whose names are prefixes of one another; a nested target the outer walk skips
            multi += [[PROJ + "/app", PROJ + "/app_plugins"], [PROJ + "/app_plugins", PROJ + "/app"], [PROJ + "/app/", os.path.join(base, PROJ, "app_plugins")],
                      [PROJ, PROJ + "/build/gen"], [PROJ + "/build/gen", PROJ]]
            # the directory and a symbolic link to it (the same files reached twice: F72)
            lnk = "lnk_" + PROJ.replace(".", "_")
            if os.path.lexists(os.path.join(base, lnk)):
                multi += [[PROJ, lnk], [lnk, PROJ], [lnk + "/", PROJ + "/"]]
                if dirs:
                    multi.append([lnk + "/" + rng.choice(dirs), PROJ])
                hist["multi_target_symlink_calls"] = hist.get("multi_target_symlink_calls", 0) + 3
            mo = C.harness_batch("files", [{"Cwd": base, "Paths": p, "Recursive": True, "Include": PATTERN_SETS[0][0], "Exclude": PATTERN_SETS[0][1]} for p in multi]) if multi else []
            for p, o in zip(multi, mo):
                hist["multi_target_calls"] += 1
                if "files" not in o:
                    continue
                canon = sorted(os.path.relpath(os.path.realpath(os.path.join(base, f)), os.path.join(base, PROJ)) for f in o["files"])
                # expected: the union of what each target selects on its own (the model's `select` per target), each file once
                if have_driver:
                    want = set()
                    for tgt in p:
                        relt = os.path.relpath(os.path.realpath(os.path.join(base, tgt)), os.path.realpath(os.path.join(base, PROJ)))
                        pre = [] if relt == "." else relt.split("/")
                        if os.path.isfile(os.path.join(base, tgt)):
                            sub = [[pre[-1]]] if pre else []
                            pre = pre[:-1]
                        else:
                            sub = [r[len(pre):] for r in tree if r[:len(pre)] == pre and len(r) > len(pre)]
                        got1 = C.driver_batch([lean_files(True, PATTERN_SETS[0][0], PATTERN_SETS[0][1], [], sub)])[0].split("|")[1]
                        want |= set("/".join(pre + [x]) if pre else x for x in got1.split(",") if x)
                    if sorted(want) != sorted(set(canon)):
                        res.violation("C18: targets %s select %s, the union of the targets' own selections is %s" % (p, sorted(set(canon)), sorted(want)),
                                      {"signature": {"kind": "multi-target"}, "tree": ["/".join(r) for r in tree], "targets": p})
                if len(set(canon)) != len(canon):
                    sig = {"kind": "duplicate-overlapping-targets"}
                    k = C.classify(PID, sig)
                    if k:
                        res.known_finding(k, "(targets %s: %s twice)" % (p, [c for c in canon if canon.count(c) > 1][:2]))
                    else:
                        res.violation("C18: with targets %s the file(s) %s are selected twice" % (p, sorted(set(c for c in canon if canon.count(c) > 1))[:3]),
                                      {"signature": sig, "tree": ["/".join(r) for r in tree], "targets": p})
            # ---- the real CLI, default patterns and a config file ---------------------------------------------------------------
            if ti < (4 if tier == "quick" else 30):
                # a configuration file that is DISCOVERED (no --config): the search starts at the target and goes upwards, so the pattern lists - and with them
                # the selected set - must not depend on how the target is spelled or where the command is run (monorepo layout: the file sits above the
                # working directory). Patterns: a configurable set (both lists non-empty, see F61) that selects something else than the defaults on this tree
                cands = [q for q in PATTERN_SETS[1:] if q[0] and q[1]]
                k0 = rng.randrange(len(cands))
                cands = cands[k0:] + cands[:k0]
                dsel = cands[0]
                if have_driver:
                    sels = C.driver_batch([lean_files(True, q[0], q[1], [], tree) for q in [PATTERN_SETS[0]] + cands])
                    for q, s_ in zip(cands, sels[1:]):
                        if s_.split("|")[1] != sels[0].split("|")[1]:
                            dsel = q
                            hist["discovered_cfg_differs_from_default"] += 1
                            break
                where, body = [("parent/.pyscn.toml", "[analysis]\ninclude_patterns = %s\nexclude_patterns = %s\n"),
                               ("parent/pyproject.toml", "[project]\nname = \"mono\"\n\n[tool.pyscn.analysis]\ninclude_patterns = %s\nexclude_patterns = %s\n"),
                               ("target/.pyscn.toml", "[analysis]\ninclude_patterns = %s\nexclude_patterns = %s\n"),
                               ("parent/.pyscn.toml", "[analysis]\ninclude_patterns = %s\nexclude_patterns = %s\n")][ti % 4]
                dcfg = os.path.join(base if where.startswith("parent/") else os.path.join(base, PROJ), where.split("/")[1])
                for cfg_name, (inc, exc) in (("default", PATTERN_SETS[0]), ("custom", psets[1]), ("discovered", dsel)):
                    seen = []
                    if cfg_name == "discovered":
                        with open(dcfg, "w") as f:
                            f.write(body % (json.dumps(inc), json.dumps(exc)))
                        hist["discovered_cfg_where"][where] = hist["discovered_cfg_where"].get(where, 0) + 1
                    for cwd, target in (sp[:7] + sp[11:13]) if tier == "quick" else sp:
                        extra = ["--select", "complexity", "--min-complexity", "1"]
                        if cfg_name == "custom":
                            cfgp = os.path.join(base, "cfg.toml")
                            with open(cfgp, "w") as f:
                                f.write("[analysis]\ninclude_patterns = %s\nexclude_patterns = %s\n" % (json.dumps(inc), json.dumps(exc)))
                            extra += ["--config", cfgp]
                        rc, data, err = C.pyscn_json([target], cwd, extra=extra)
                        hist["cli_runs"] += 1
                        if cfg_name == "discovered":
                            hist["cli_discovered_runs"] += 1
                        if data is None:
                            fl = None
                        else:
                            fl = sorted(set(os.path.relpath(os.path.realpath(os.path.join(cwd, f["FilePath"])), os.path.join(base, PROJ))
                                            for f in ((data.get("complexity") or {}).get("Functions") or []) if f["Name"] != "__main__"))
                        seen.append((target, os.path.relpath(cwd, base), fl, err[-200:] if data is None else ""))
                    if cfg_name == "discovered":
                        os.unlink(dcfg)
                    ref = seen[0]
                    if have_driver:
                        want = sorted(x for x in C.driver_batch([lean_files(True, inc, exc, [], tree)])[0].split("|")[1].split(",") if x)
                        for target, cwdr, fl, err in seen:
                            if fl is None and not want:
                                continue        # nothing to analyse: the CLI reports an error instead of an empty report
                            if fl != want:
                                sig_ = dict({"kind": "cli-selection", "patterns": cfg_name}, **({"empty_list_in_config": True} if cfg_name == "custom" and (not inc or not exc) else {}))
                                k_ = C.classify(PID, sig_)
                                if k_:
                                    res.known_finding(k_, "(include %s exclude %s: analysed %d files, the patterns select %d)" % (inc, exc, len(fl or []), len(want)))
                                    break
                                res.violation("C18 (CLI, %s patterns): `pyscn analyze %s` from %s analyses %s, expected %s %s" % (cfg_name, target, cwdr, fl, want, err),
                                              {"signature": dict({"kind": "cli-selection", "patterns": cfg_name}, **({"empty_list_in_config": True} if cfg_name == "custom" and (not inc or not exc) else {})), "tree": ["/".join(r) for r in tree], "include": inc, "exclude": exc, "target": target, "cwd": cwdr, **({"config_file": where} if cfg_name == "discovered" else {})})
                                break
                    for target, cwdr, fl, err in seen[1:]:
                        if fl != ref[2]:
                            res.violation("C18 spelling (CLI, %s patterns): `%s` from %s analyses %s, `%s` from %s analyses %s" % (cfg_name, ref[0], ref[1], ref[2], target, cwdr, fl),
                                          dict({"signature": {"kind": "cli-spelling", "patterns": cfg_name}, "tree": ["/".join(r) for r in tree], "targets": [ref[0], target], "cwds": [ref[1], cwdr]},
                                               **({"config_file": where, "include": inc, "exclude": exc} if cfg_name == "discovered" else {})))
                            break
    finally:
        shutil.rmtree(tmp, ignore_errors=True)
    if not ps.ok and not any(fi for _, _, fi in res.violations):
        res.violation("proof obligation or tie broken: " + "; ".join(ps.broken)[:1500], {"broken": ps.broken}, found_input=False)
    res.coverage.update({
        "evaluations": hist["glob_pairs"] + hist["collect_calls"] + hist["cli_runs"] + hist["multi_target_calls"],
        "distinct_nontrivial": len(nontrivial),
        "rule": "generated trees (depth <= 3, file names incl. test_*.py, *_test.py, .hidden.py, *.pyi, UPPER.PY, non-Python; directory names incl. hidden, venv, build, *.egg-info, "
                "node_modules, Env); per tree the default patterns + 3 of 8 other pattern sets x recursive on/off x 15 spellings of the target (a symbolic link to it with and without trailing slash, relative and absolute; ., ./, rel, rel/, ./rel, abs, abs/, "
                "../rel, a/../rel, from 4 working directories incl. /); every tree has two directories (depth 1 and 2) whose names contain glob metacharacters ([ ] { } * ? \\ **) "
                "holding test_*.py / *_test.py / *.pyi / ordinary modules; overlapping and repeated targets; the real CLI with default patterns, with --config, and with a DISCOVERED "
                "configuration file (.pyscn.toml or pyproject.toml [tool.pyscn] in the parent of the target = above the working directory for `.`, or in the target) whose patterns "
                "select something else than the defaults, 9 spellings each; non-trivial = a "
                "(tree, pattern set) that selects at least one file",
        "samples": [{"tree": hist.get("sample_tree"), "patterns": PATTERN_SETS[0], "spellings": [".", "./", "proj", "proj/", "<abs>", "../proj", "a/../proj"]}],
        "traces_validated_against_impl": hist["collect_calls"] + hist["glob_pairs"],
        "distribution": hist,
    })
    return res.finish("proof")
