"""C11 — circular dependencies = non-trivial SCCs (DESIGN.md §4 C11)."""
import itertools
import json
import os
import random
import shutil
import tempfile

from . import common as C

PID = "C11"


def lean_line(n, edges):
    return "scc %d %s" % (n, " ".join("%d %d" % (u, v) for u, v in edges))


def canon_impl(run):
    cyc = ";".join(",".join(str(x) for x in c) for c in run["cycles"])
    return "%s|%s|%d|%d" % (cyc, ",".join(run["severities"]), run["total"], run["modules"])


def py_sccs(n, edges):
    """independent reference (Kosaraju), used only to describe a failure"""
    adj = [[] for _ in range(n)]
    radj = [[] for _ in range(n)]
    for u, v in edges:
        if u < n and v < n:
            adj[u].append(v)
            radj[v].append(u)
    seen, order = [False] * n, []
    for s in range(n):
        if seen[s]:
            continue
        st = [(s, 0)]
        seen[s] = True
        while st:
            u, i = st.pop()
            if i < len(adj[u]):
                st.append((u, i + 1))
                w = adj[u][i]
                if not seen[w]:
                    seen[w] = True
                    st.append((w, 0))
            else:
                order.append(u)
    comp = [-1] * n
    for s in reversed(order):
        if comp[s] != -1:
            continue
        st = [s]
        comp[s] = s
        while st:
            u = st.pop()
            for w in radj[u]:
                if comp[w] == -1:
                    comp[w] = s
                    st.append(w)
    groups = {}
    for v in range(n):
        groups.setdefault(comp[v], []).append(v)
    return sorted(sorted(g) for g in groups.values() if len(g) >= 2)


def all_digraphs(n, self_loops=True):
    cells = [(u, v) for u in range(n) for v in range(n) if self_loops or u != v]
    for mask in range(1 << len(cells)):
        yield n, [cells[i] for i in range(len(cells)) if mask >> i & 1]


def random_graph(rng):
    kind = rng.randrange(5)
    n = rng.randrange(2, 41)
    edges = set()
    if kind == 0:      # sparse random
        for _ in range(rng.randrange(0, 2 * n)):
            edges.add((rng.randrange(n), rng.randrange(n)))
    elif kind == 1:    # planted cycles of boundary sizes + cross edges
        perm = list(range(n))
        rng.shuffle(perm)
        i = 0
        while i < n:
            k = rng.choice([1, 2, 3, 5, 6, 9, 10, 11])
            grp = perm[i:i + k]
            if len(grp) >= 2:
                for a, b in zip(grp, grp[1:] + grp[:1]):
                    edges.add((a, b))
            i += k
        for _ in range(rng.randrange(0, n)):
            a, b = rng.randrange(n), rng.randrange(n)
            if perm.index(a) < perm.index(b):     # forward only: keeps the planted partition
                edges.add((a, b))
    elif kind == 2:    # dense
        for u in range(n):
            for v in range(n):
                if rng.random() < 0.15:
                    edges.add((u, v))
    elif kind == 3:    # hub with fan-in > 10 inside / outside a cycle
        n = max(n, 14)
        hub = rng.randrange(n)
        for u in rng.sample(range(n), rng.choice([10, 11, 12])):
            edges.add((u, hub))
        other = rng.randrange(n)
        edges.add((hub, other))
        if rng.random() < 0.7:
            edges.add((other, hub))
        for _ in range(rng.randrange(0, n)):
            edges.add((rng.randrange(n), rng.randrange(n)))
    else:              # nested cycles sharing vertices, DAG of SCCs
        for _ in range(rng.randrange(1, 6)):
            k = rng.randrange(2, 8)
            grp = [rng.randrange(n) for _ in range(k)]
            for a, b in zip(grp, grp[1:] + grp[:1]):
                edges.add((a, b))
    el = sorted(edges)
    rng.shuffle(el)
    return n, el


# module names for the CLI projects: string prefixes of one another, interleaved in sorted order
PREFIX_NAMES = ["app", "app_config", "appx", "b", "ba", "core", "core_ext", "corex", "hub", "hub2", "m1", "m10", "m11", "m2", "util", "utils", "utils2", "z"]


def cli_level(res, rng, count):
    """Real binary on generated flat projects: the cycles of the report vs (a) the SCCs of the IMPORTS WRITTEN INTO THE FILES (the project is flat, every import
    is a plain `import <module>` at top level, so the import graph is known by construction) and (b) the SCCs of the DependencyMatrix of the same report."""
    done = 0
    tmp = tempfile.mkdtemp(prefix="pv_c11_")
    try:
        shapes = []
        # directed shapes: a ring of 5..7 modules found first, further small cycles whose names interleave with the ring's, an entry point outside
        for ring in (5, 6, 7, 9):
            for extra in ([2], [3], [2, 2], [2, 3]):
                n = ring + sum(extra) + 1
                order = list(range(n))
                rng.shuffle(order)
                pos, edges = 0, set()
                groups = []
                for size in [ring] + extra:
                    grp = order[pos:pos + size]
                    pos += size
                    groups.append(grp)
                    for i in range(size):
                        edges.add((grp[i], grp[(i + 1) % size]))
                entry = order[pos]
                edges.add((entry, groups[0][0]))
                shapes.append((n, edges, "ring%d+%s" % (ring, extra)))
        for k in range(count + len(shapes)):
            if k < len(shapes):
                n, edges, shape = shapes[k]
            else:
                n = rng.randrange(2, 9)
                edges = set()
                for _ in range(rng.randrange(1, 3 * n)):
                    u, v = rng.randrange(n), rng.randrange(n)
                    edges.add((u, v))
                shape = "random"
            names = ["mod%02d" % u for u in range(n)] if (k % 2 == 0 or n > len(PREFIX_NAMES)) else sorted(rng.sample(PREFIX_NAMES, n))
            proj = os.path.join(tmp, "p%d" % k, "proj")
            os.makedirs(proj)
            open(os.path.join(proj, "requirements.txt"), "w").close()
            for u in range(n):
                with open(os.path.join(proj, names[u] + ".py"), "w") as f:
                    for (a, b) in sorted(edges):
                        if a == u:
                            f.write("import %s\n" % names[b])
                    f.write("X%d = 1\n" % u)
            rc, data, err = C.pyscn_json(["proj"], os.path.join(tmp, "p%d" % k), extra=["--select", "deps"])
            if data is None or "system" not in data:
                res.violation("no deps report for generated project: " + err[-300:], {"n": n, "edges": sorted(edges)})
                continue
            da = data["system"]["DependencyAnalysis"]
            rnames = sorted(da["DependencyMatrix"].keys())
            idx = {m: i for i, m in enumerate(rnames)}
            e2 = [(idx[a], idx[b]) for a, row in da["DependencyMatrix"].items() for b, on in row.items() if on and b in idx]
            want_matrix = py_sccs(len(rnames), e2)
            cd = da.get("CircularDependencies") or {}
            got_names = sorted(sorted(c["Modules"]) for c in (cd.get("CircularDependencies") or []))
            got = sorted(sorted(idx[m] for m in c["Modules"] if m in idx) for c in (cd.get("CircularDependencies") or []))
            # (a) by construction
            src = [(a, b) for (a, b) in edges if a != b]
            want_src = sorted(sorted(names[v] for v in comp) for comp in py_sccs(n, src))
            done += 1
            ok = got == want_matrix and cd.get("TotalCycles", 0) == len(want_matrix) and cd.get("TotalModulesInCycles", 0) == sum(map(len, want_matrix))
            for c in (cd.get("CircularDependencies") or []):
                if c["Size"] != len(c["Modules"]):
                    ok = False
            if not ok:
                res.violation("CLI: reported cycles %s differ from the SCCs %s of the reported dependency matrix" % (got, want_matrix),
                              {"modules": rnames, "matrix_edges": e2, "reported": got, "expected": want_matrix, "source_edges": sorted(edges), "names": names, "shape": shape})
            elif got_names != want_src:
                res.violation("CLI (%s): reported cycles %s differ from the strongly connected components %s of the imports written into the files"
                              % (shape, got_names, want_src), {"names": names, "source_edges": sorted(edges), "reported": got_names, "expected": want_src, "shape": shape})
    finally:
        shutil.rmtree(tmp, ignore_errors=True)
    return done


def run(tier, seed, replay=None):
    res = C.Result(PID, tier, seed)
    rng = random.Random(seed * 1000003 + 11)
    ps = C.prove(PID)
    C.proof_coverage(res, ps, "cd /verif/lean && lake build PV.Properties.C11 && #print axioms (audit)")
    res.assumptions += [
        "the model is specification-level (certified closure), not a transliteration of Tarjan: pyscn's detector is tied to it "
        "by the differential run below, exhaustively on small digraphs",
        "closure fuel n+|E|+1 suffices (checked at run time: the driver reports fuel-exhausted otherwise; never observed)",
    ]
    mult = 1 if ps.ok else (8 if tier == "quick" else 40)
    graphs = []
    cdir = os.path.join(C.ROOT, "corpus", PID)
    if os.path.isdir(cdir):
        for fn in sorted(os.listdir(cdir)):
            if fn.endswith(".json"):
                d = json.load(open(os.path.join(cdir, fn)))
                graphs.append((d["n"], [tuple(e) for e in d["edges"]]))
    if replay:
        rp = json.load(open(replay))["replay"]
        if "n" in rp:
            graphs.append((rp["n"], [tuple(e) for e in rp["edges"]]))
    exhaustive_upto = 3
    for n in (1, 2, 3):
        graphs += list(all_digraphs(n))
    if tier == "thorough" or not ps.ok:
        graphs += list(all_digraphs(4))
        exhaustive_upto = 4
    else:
        cells = [(u, v) for u in range(4) for v in range(4)]
        for _ in range(4000):
            mask = rng.getrandbits(16)
            graphs.append((4, [cells[i] for i in range(16) if mask >> i & 1]))
    if tier == "thorough":
        cells = [(u, v) for u in range(5) for v in range(5) if u != v]
        for _ in range(200000):
            mask = rng.getrandbits(20)
            graphs.append((5, [cells[i] for i in range(20) if mask >> i & 1]))
    nrand = (1500 if tier == "quick" else 20000) * mult
    graphs += [random_graph(rng) for _ in range(nrand)]

    reps = 3
    go = C.harness_batch("scc", [{"N": n, "Edges": [list(e) for e in edges], "Reps": reps} for n, edges in graphs])
    model = None
    if os.path.exists(C.driver_path()):
        model = C.driver_batch([lean_line(n, edges) for n, edges in graphs])
    else:
        ps.ok = False
        ps.broken.append("driver missing: correspondence not run")
    # the LITERAL Lean mirror of the Tarjan pass (proved equal to the specification, PV/Proofs/TarjanCorrect.lean + Properties/C11x.lean) against the
    # real pass, on its INTERNAL state: emission order of the components, the index and the final low-link of every module
    trace = None
    if model is not None:
        trace = C.driver_batch(["tarjan %d %s" % (n, " ".join("%d %d" % (u, v) for u, v in edges if u != v)) for n, edges in graphs])
    nontrivial, diffs = set(), 0
    hist = {"with_cycles": 0, "severity": {}, "max_n": 0, "order_dependent": 0, "trace_compared": 0}
    for gi, ((n, edges), g) in enumerate(zip(graphs, go)):
        if "error" in g:
            res.violation("harness: " + g["error"], {"n": n, "edges": edges})
            continue
        runs = [canon_impl(r) for r in g["runs"]]
        hist["max_n"] = max(hist["max_n"], n)
        if g["runs"][0]["cycles"]:
            hist["with_cycles"] += 1
            nontrivial.add((n, tuple(edges)))
            for s in g["runs"][0]["severities"]:
                hist["severity"][s] = hist["severity"].get(s, 0) + 1
        if len(set(runs)) > 1:
            hist["order_dependent"] += 1
        for r, cr in zip(g["runs"], runs):
            bad = None
            if not r["members_sorted"]:
                bad = "cycle members not sorted"
            elif r["sizes"] != [len(c) for c in r["cycles"]]:
                bad = "Size field differs from the number of modules"
            elif sum(r["by_severity"]) != r["total"] or r["has"] != (r["total"] > 0):
                bad = "severity counters / HasCircularDependencies inconsistent with the cycle list"
            elif model is not None and model[gi] != cr:
                bad = "implementation `%s` differs from the proved model `%s` (Python reference SCCs: %s)" % (cr, model[gi], py_sccs(n, edges))
            elif trace is not None and "raw" in r:
                it = "%s|%s|%s|1" % (";".join(",".join(str(x) for x in c) for c in r["raw"]), ",".join(str(x) for x in r["indices"]), ",".join(str(x) for x in r["lowlinks"]))
                hist["trace_compared"] += 1
                if it != trace[gi]:
                    bad = "the internal state of the Tarjan pass (components in emission order | indices | low-links) `%s` differs from the verified mirror's `%s`" % (it, trace[gi])
            if bad:
                diffs += 1
                res.violation("C11 fails on a %d-module graph: %s" % (n, bad), {"n": n, "edges": [list(e) for e in edges], "impl": r,
                                                                               "model": None if model is None else model[gi]})
                break
    ncli = cli_level(res, rng, 10 if tier == "quick" else 80)
    if not ps.ok and not any(f for _, _, f in res.violations):
        res.violation("proof obligation or tie broken: " + "; ".join(ps.broken)[:1500],
                      {"broken": ps.broken, "note": "no graph on which the implementation violates C11 was found in %d graphs" % len(graphs)},
                      found_input=False)
    res.coverage.update({
        "evaluations": len(graphs) * reps,
        "distinct_nontrivial": len(nontrivial),
        "rule": "all digraphs (self-loops included) on ≤%d vertices, sampled 4/5-vertex digraphs, random graphs ≤40 vertices "
                "(planted cycles of sizes 2/3/5/6/9/10/11, hubs with fan-in 10-12, nested cycles); each run %d× (map order); "
                "non-trivial = distinct graph with at least one cycle" % (exhaustive_upto, reps),
        "exhaustive": True,
        "exhaustive_note": "complete for digraphs with ≤%d vertices; sampled beyond" % exhaustive_upto,
        "samples": [{"n": graphs[-1][0], "edges": graphs[-1][1], "impl": canon_impl(go[-1]["runs"][0])}],
        "traces_validated_against_impl": len(graphs) - diffs,
        "cli_projects": ncli,
        "distribution": hist,
    })
    return res.finish("proof")
