"""C15 — health score bounded, monotone, consistently graded (DESIGN.md §4 C15)."""
import json
import os
import random
import shutil
import tempfile

from . import common as C

PID = "C15"
FIELDS = ["TotalFiles", "DepsEnabled", "ArchEnabled", "DepsTotalModules", "DepsModulesInCycles", "DepsMaxDepth",
          "MSD", "Arch", "AvgCx", "DeadCodeCount", "Crit", "Warn", "Info", "Dup",
          "CBOClasses", "HighCBO", "MedCBO", "LCOMClasses", "HighLCOM", "MedLCOM", "HighComplexityCount"]
FLOATS = {"MSD", "Arch", "AvgCx", "Dup"}
BOOLS = {"DepsEnabled", "ArchEnabled"}

AVG_GRID = [0.0, 0.5, 1.9, 2.0, 2.000001, 2.1, 2.325, 2.3250001, 2.975, 5.0, 8.5, 10.0, 10.000001, 14.9, 14.99, 15.0, 15.1, 30.0, 1e6]
DUP_GRID = [0.0, 1e-9, 0.1, 0.25, 0.2500001, 0.75, 2.5, 5.0, 9.74, 9.75, 9.9, 10.0, 10.1, 50.0, 100.0]
UNIT_GRID = [0.0, 1e-9, 1 / 24, 1 / 12, 1 / 6, 0.1666, 0.1667, 0.25, 0.3, 0.5, 0.75, 5 / 6, 0.9, 0.95, 0.98, 23 / 24, 0.999999, 1.0]
FILES_GRID = [0, 1, 5, 9, 10, 11, 12, 20, 50, 99, 100, 101, 1000, 5000]
CNT_GRID = [0, 0, 0, 1, 2, 3, 5, 10, 19, 20, 21, 40, 100, 1000]
MOD_GRID = [0, 1, 2, 3, 4, 7, 8, 15, 16, 31, 100, 1000]


def gen_valid(rng):
    v = {}
    v["TotalFiles"] = rng.choice(FILES_GRID) if rng.random() < 0.7 else rng.randrange(0, 5000)
    v["AvgCx"] = rng.choice(AVG_GRID) if rng.random() < 0.6 else rng.uniform(0, 20)
    v["HighComplexityCount"] = rng.choice([0, 0, 1, 5])
    v["Crit"], v["Warn"], v["Info"] = (rng.choice(CNT_GRID) for _ in range(3))
    v["DeadCodeCount"] = v["Crit"] + v["Warn"] + v["Info"]
    v["Dup"] = rng.choice(DUP_GRID) if rng.random() < 0.6 else rng.uniform(0, 12)
    for pre in ("CBO", "LCOM"):
        n = rng.choice([0, 0, 1, 2, 3, 4, 7, 10, 20, 40, 100, 101])
        hi = rng.randrange(0, n + 1) if rng.random() < 0.7 else 0
        med = rng.randrange(0, n - hi + 1) if rng.random() < 0.7 else 0
        v[pre + "Classes"], v["High" + pre], v["Med" + pre] = n, hi, med
    v["DepsEnabled"] = rng.random() < 0.7
    v["ArchEnabled"] = rng.random() < 0.5
    m = rng.choice(MOD_GRID)
    v["DepsTotalModules"] = m
    v["DepsModulesInCycles"] = rng.randrange(0, m + 1) if (m and rng.random() < 0.7) else 0
    v["DepsMaxDepth"] = rng.choice([0, 1, 2, 3, 4, 5, 6, 7, 8, 9, 12, 30])
    v["MSD"] = rng.choice(UNIT_GRID) if rng.random() < 0.7 else rng.random()
    v["Arch"] = rng.choice(UNIT_GRID) if rng.random() < 0.7 else rng.random()
    return v


def gen_invalid(rng):
    v = gen_valid(rng)
    k = rng.randrange(7)
    if k == 0:
        v["AvgCx"] = -rng.choice([1e-9, 0.5, 3.0])
    elif k == 1:
        v["Dup"] = rng.choice([-0.1, 100.0000001, 250.0])
    elif k == 2:
        v["ArchEnabled"] = True
        v["Arch"] = rng.choice([-0.01, 1.01])
    elif k == 3:
        v["DepsEnabled"] = True
        v["MSD"] = rng.choice([-0.01, 1.01])
    elif k == 4:
        v["DepsEnabled"] = True
        v["DepsTotalModules"] = 3
        v["DepsModulesInCycles"] = 4
    elif k == 5:
        v["CBOClasses"], v["HighCBO"], v["MedCBO"] = 4, rng.choice([5, 3]), 2
    else:
        v["LCOMClasses"], v["HighLCOM"], v["MedLCOM"] = 4, 2, rng.choice([5, 3])
    return v


# quantity -> function producing a strictly-or-equal worse vector (others fixed), or None
def worse_variants(v, rng):
    out = []

    def bump_float(key, up=True, hi=None):
        x = v[key]
        for d in (1e-9, 0.013, 0.05, 0.26, 1.0, 3.7):
            y = x + d if up else x - d
            if hi is not None and y > hi:
                y = hi
            if not up and y < 0:
                y = 0.0
            w = dict(v)
            w[key] = y
            out.append((key, w))

    def bump_int(key, limit=None):
        for d in (1, 2, 7):
            y = v[key] + d
            if limit is not None and y > limit:
                continue
            w = dict(v)
            w[key] = y
            out.append((key, w))

    bump_float("AvgCx")
    bump_float("Dup", hi=100.0)
    for k in ("Crit", "Warn", "Info"):
        bump_int(k)
    bump_int("HighCBO", v["CBOClasses"] - v["MedCBO"])
    bump_int("MedCBO", v["CBOClasses"] - v["HighCBO"])
    bump_int("HighLCOM", v["LCOMClasses"] - v["MedLCOM"])
    bump_int("MedLCOM", v["LCOMClasses"] - v["HighLCOM"])
    bump_int("DepsModulesInCycles", v["DepsTotalModules"] if v["DepsTotalModules"] > 0 else None)
    bump_int("DepsMaxDepth")
    bump_float("MSD", hi=1.0)
    bump_float("Arch", up=False)
    return out


# what calculateSummary leaves unset when an analysis did not run (app/analyze_usecase.go:531-612)
SKIP = {
    "complexity": {"TotalFiles": 0, "AvgCx": 0.0, "HighComplexityCount": 0},
    "deadcode": {"DeadCodeCount": 0, "Crit": 0, "Warn": 0, "Info": 0},
    "clones": {"Dup": 0.0},
    "cbo": {"CBOClasses": 0, "HighCBO": 0, "MedCBO": 0},
    "lcom": {"LCOMClasses": 0, "HighLCOM": 0, "MedLCOM": 0},
    "deps": {"DepsEnabled": False, "ArchEnabled": False, "DepsTotalModules": 0, "DepsModulesInCycles": 0,
             "DepsMaxDepth": 0, "MSD": 0.0, "Arch": 0.0},
}


def to_go(v):
    d = {}
    for k in FIELDS:
        d[k] = C.f2bits(v[k]) if k in FLOATS else v[k]
    return d


def to_lean(v, l10, l2):
    toks = []
    for k in FIELDS:
        if k in FLOATS:
            toks.append(C.f2bits(v[k]))
        elif k in BOOLS:
            toks.append("1" if v[k] else "0")
        else:
            toks.append(str(v[k]))
    return "score " + " ".join(toks) + " " + l10 + " " + l2


def canon_go(r):
    return "%d %d %s %s %d %s" % (1 if r["err"] else 0, r["health"], r["grade"], " ".join(str(x) for x in r["scores"]),
                                  r["fallback"], r["gradefn"])


def grade_of(h):
    return "A" if h >= 90 else "B" if h >= 75 else "C" if h >= 60 else "D" if h >= 45 else "F"


def key(v):
    return json.dumps(v, sort_keys=True)


def oracle_single(v, r):
    """range/grade conjuncts of the property on ONE implementation result; returns list of failures"""
    bad = []
    if r["err"]:
        return bad
    if not (0 <= r["health"] <= 100):
        bad.append("health out of range")
    arch_in_range = 0.0 <= v["Arch"] <= 1.0
    for i, sc in enumerate(r["scores"]):
        if i == 6 and not arch_in_range:
            continue
        if not (0 <= sc <= 100):
            bad.append("category score %d out of range" % i)
    if r["grade"] != grade_of(r["health"]) or r["gradefn"] != grade_of(r["health"]):
        bad.append("grade")
    return bad


def cli_project(root, nfiles, dead=True):
    os.makedirs(root, exist_ok=True)
    for i in range(nfiles):
        with open(os.path.join(root, "m%02d.py" % i), "w") as f:
            f.write("def f%d(x):\n    return x + %d\n" % (i, i))
            if dead:
                f.write("    y = x * 2\n    return y\n")
            f.write("\n\ndef g%d(a):\n    return a\n" % i)


def cli_level(res, rng, tier):
    """The real binary: (1) summary.health_score recomputed from summary fields by the real scoring code,
    (2) skipping an analysis never lowers the score."""
    n_checked = 0
    tmp = tempfile.mkdtemp(prefix="pv_c15_")
    try:
        proj = os.path.join(tmp, "proj")
        cli_project(proj, 12)
        runs = {}
        for sel in ("complexity,deadcode", "deadcode", "complexity", "complexity,deadcode,cbo,lcom,deps,clones"):
            cwd = os.path.join(tmp, "cwd_" + sel.replace(",", "_"))
            os.makedirs(cwd)
            rc, data, err = C.pyscn_json([proj], cwd, extra=["--select", sel])
            if data is None:
                res.violation("pyscn analyze produced no JSON report (--select %s): %s" % (sel, err[-300:]),
                              {"select": sel, "project": "12 files, dead code after return"})
                continue
            runs[sel] = data["summary"]
            n_checked += 1
        # (2) skip oracle at CLI level
        for full, part, skipped in (("complexity,deadcode", "deadcode", "complexity"), ("complexity,deadcode", "complexity", "deadcode")):
            if full in runs and part in runs:
                a, b = runs[full]["health_score"], runs[part]["health_score"]
                if b < a:
                    sig = {"kind": "skip", "analysis": skipped}
                    k = C.classify(PID, sig)
                    detail = "(CLI: 12-file project, --select %s scores %d, --select %s scores %d)" % (full, a, part, b)
                    if k:
                        res.known_finding(k, detail)
                    else:
                        res.violation("skipping %s lowers the health score %s" % (skipped, detail),
                                      {"signature": sig, "project": "cli_project(12)", "select_full": full, "select_part": part})
        # (2b) an analysis can also be switched off by the CONFIGURATION FILE (parts of the system analysis have no command-line switch): the score with a
        # part switched off must not be lower than the score of the full run
        full_sel = "complexity,deadcode,cbo,lcom,deps,clones"
        if full_sel in runs:
            for key, label in (("enable_architecture", "architecture validation"), ("enable_dependencies", "dependency analysis")):
                cwd = os.path.join(tmp, "cwd_cfg_" + key)
                os.makedirs(cwd)
                cfgp = os.path.join(cwd, "off.toml")
                with open(cfgp, "w") as fh:
                    fh.write("[system_analysis]\n%s = false\n" % key)
                rc, data, err = C.pyscn_json([proj], cwd, extra=["--select", full_sel, "--config", cfgp])
                if data is None:
                    continue
                n_checked += 1
                a, b = runs[full_sel]["health_score"], data["summary"]["health_score"]
                if b < a:
                    sig = {"kind": "skip", "analysis": key}
                    k = C.classify(PID, sig)
                    detail = "(CLI: 12-file project, full run scores %d, with `[system_analysis] %s = false` %d; arch_enabled=%s arch_compliance=%s)" % (
                        a, key, b, data["summary"].get("arch_enabled"), data["summary"].get("arch_compliance"))
                    if k:
                        res.known_finding(k, detail)
                    else:
                        res.violation("switching the %s off in the configuration file lowers the health score %s" % (label, detail),
                                      {"signature": sig, "project": "cli_project(12)", "config": "[system_analysis]\n%s = false" % key})
        # (1) reported score = real scoring code on the reported summary fields
        cases, exp = [], []
        for sel, s in runs.items():
            v = {"TotalFiles": s["total_files"], "DepsEnabled": s["deps_enabled"], "ArchEnabled": s["arch_enabled"],
                 "DepsTotalModules": s["deps_total_modules"], "DepsModulesInCycles": s["deps_modules_in_cycles"],
                 "DepsMaxDepth": s["deps_max_depth"], "MSD": s["deps_main_sequence_deviation"], "Arch": s["arch_compliance"],
                 "AvgCx": s["average_complexity"], "DeadCodeCount": s["dead_code_count"], "Crit": s["critical_dead_code"],
                 "Warn": s["warning_dead_code"], "Info": s["info_dead_code"], "Dup": s["code_duplication_percentage"],
                 "CBOClasses": s["cbo_classes"], "HighCBO": s["high_coupling_classes"], "MedCBO": s["medium_coupling_classes"],
                 "LCOMClasses": s["lcom_classes"], "HighLCOM": s["high_lcom_classes"], "MedLCOM": s["medium_lcom_classes"],
                 "HighComplexityCount": s["high_complexity_count"]}
            cases.append(v)
            exp.append((sel, s))
        if cases:
            outs = C.harness_batch("score", [to_go(v) for v in cases])
            for (sel, s), r, v in zip(exp, outs, cases):
                if (r["health"], r["grade"]) != (s["health_score"], s["grade"]):
                    res.violation("report summary (--select %s) says %s/%s, scoring code on the same fields gives %s/%s"
                                  % (sel, s["health_score"], s["grade"], r["health"], r["grade"]), {"summary": s})
                if not (0 <= s["health_score"] <= 100) or s["grade"] != grade_of(s["health_score"]):
                    res.violation("report summary out of range / misgraded", {"summary": s})
    finally:
        shutil.rmtree(tmp, ignore_errors=True)
    return n_checked


# ---- response level: the real calculateSummary (summary assembly + score + fallback) -----------------------------------

def gen_sections(rng):
    r = {"DepsEnabled": False, "ArchEnabled": False}
    if rng.random() < 0.8:
        r["Cx"] = {"Files": rng.choice(FILES_GRID), "N": rng.choice([0, 1, 10, 200]), "High": rng.choice([0, 0, 1, 7]),
                   "Avg": rng.choice(AVG_GRID) if rng.random() < 0.6 else rng.uniform(0, 20)}
    if rng.random() < 0.8:
        c, w, i = (rng.choice(CNT_GRID) for _ in range(3))
        r["Dead"] = {"Total": c + w + i, "Crit": c, "Warn": w, "Info": i}
    if rng.random() < 0.8:
        g = rng.choice([0, 1, 2, 3, 4, 5, 6, 7, 12, 40])
        r["Clone"] = {"Total": 2 * g, "Pairs": g * 2, "Groups": g, "Lines": rng.choice([0, 1, 300, 834, 999, 1000, 1001, 2000, 12000, 100000])}
    for key in ("CBO", "LCOM"):
        if rng.random() < 0.7:
            n = rng.choice([0, 1, 3, 4, 10, 40])
            hi = rng.randrange(0, n + 1)
            med = rng.randrange(0, n - hi + 1)
            r[key] = {"Classes": n, "High": hi, "Med": med, "Avg": rng.uniform(0, 9)}
    if rng.random() < 0.7:
        m = rng.choice(MOD_GRID)
        r["Sys"] = {"HasDeps": rng.random() < 0.85, "Modules": m, "Depth": rng.choice([0, 1, 3, 5, 8, 12]), "HasCirc": rng.random() < 0.7,
                    "CycMods": rng.randrange(0, m + 1) if m else 0, "HasCoupling": rng.random() < 0.8,
                    "MSD": rng.choice(UNIT_GRID), "HasArch": rng.random() < 0.5, "Compliance": rng.choice(UNIT_GRID)}
        r["DepsEnabled"] = True
        r["ArchEnabled"] = r["Sys"]["HasArch"]
    return r


def sections_go(r):
    d = json.loads(json.dumps(r))
    for sec, keys in (("Cx", ["Avg"]), ("CBO", ["Avg"]), ("LCOM", ["Avg"]), ("Sys", ["MSD", "Compliance"])):
        if sec in d:
            for k in keys:
                d[sec][k] = C.f2bits(d[sec][k])
    return d


def sections_lean(r, l10, l2):
    def b(x):
        return "1" if x else "0"
    t = [b(r["DepsEnabled"]), b(r["ArchEnabled"])]
    c = r.get("Cx")
    t += [b(c)] + ([str(c["Files"]), str(c["N"]), C.f2bits(c["Avg"]), str(c["High"])] if c else ["0", "0", C.f2bits(0.0), "0"])
    d = r.get("Dead")
    t += [b(d)] + ([str(d[k]) for k in ("Total", "Crit", "Warn", "Info")] if d else ["0"] * 4)
    c = r.get("Clone")
    t += [b(c)] + ([str(c[k]) for k in ("Total", "Pairs", "Groups", "Lines")] if c else ["0"] * 4)
    for key in ("CBO", "LCOM"):
        c = r.get(key)
        t += [b(c)] + ([str(c["Classes"]), str(c["High"]), str(c["Med"]), C.f2bits(c["Avg"])] if c else ["0", "0", "0", C.f2bits(0.0)])
    y = r.get("Sys")
    t += [b(y)] + ([b(y["HasDeps"]), str(y["Modules"]), str(y["Depth"]), b(y["HasCirc"]), str(y["CycMods"]), b(y["HasCoupling"]), C.f2bits(y["MSD"]),
                    b(y["HasArch"]), C.f2bits(y["Compliance"])] if y else ["0", "0", "0", "0", "0", "0", C.f2bits(0.0), "0", C.f2bits(0.0)])
    return "summary " + " ".join(t) + " " + l10 + " " + l2


def canon_sections(r):
    return "%s|%s|%d|%s|%s" % (",".join(map(str, r["ints"])), ",".join(r["floats"]), r["health"], r["grade"], ",".join(map(str, r["scores"])))


def worse_sections(r):
    """response-level quantities made worse, one at a time (others fixed)"""
    out = []

    def mod(sec, key, delta, limit=None):
        if sec in r:
            w = json.loads(json.dumps(r))
            w[sec][key] = w[sec][key] + delta
            if limit is None or w[sec][key] <= limit:
                out.append(("%s.%s" % (sec, key), w))
    for d in (1, 2, 5):
        mod("Clone", "Groups", d)
        mod("Dead", "Crit", d)
        mod("Dead", "Warn", d)
        mod("Dead", "Info", d)
        if "Sys" in r and r["Sys"]["HasDeps"] and r["Sys"]["HasCirc"]:
            mod("Sys", "CycMods", d, r["Sys"]["Modules"] if r["Sys"]["Modules"] > 0 else None)
        if "Sys" in r and r["Sys"]["HasDeps"]:
            mod("Sys", "Depth", d)
        if "CBO" in r:
            mod("CBO", "High", d, r["CBO"]["Classes"] - r["CBO"]["Med"])
        if "LCOM" in r:
            mod("LCOM", "Med", d, r["LCOM"]["Classes"] - r["LCOM"]["High"])
    for d in (0.01, 0.7, 4.0):
        mod("Cx", "Avg", d)
    return out


def response_level(res, rng, tier, mult, ps):
    n = (300 if tier == "quick" else 3000) * mult
    bases = [gen_sections(rng) for _ in range(n)]
    cases = [("base", i, None, b) for i, b in enumerate(bases)]
    for i, b in enumerate(bases):
        for q, w in worse_sections(b):
            cases.append(("worse", i, q, w))
    go = C.harness_batch("summary", [sections_go(c[3]) for c in cases])
    errs = [g for g in go if "error" in g]
    if errs:
        res.violation("harness summary: " + errs[0]["error"], {"error": errs[0]})
        return 0, 0
    diffs = 0
    if os.path.exists(C.driver_path()):
        lean = C.driver_batch([sections_lean(c[3], g["log10"], g["log2"]) for c, g in zip(cases, go)])
        for c, g, lo in zip(cases, go, lean):
            if canon_sections(g) != lo:
                diffs += 1
                if diffs <= 3:
                    res.violation("correspondence (summary assembly): implementation `%s` vs model `%s`" % (canon_sections(g), lo),
                                  {"correspondence": "PV.Summary.calculateSummary (Float) vs app.calculateSummary", "sections": c[3]}, found_input=False)
    base_out = {c[1]: g for c, g in zip(cases, go) if c[0] == "base"}
    for c, g in zip(cases, go):
        if not (0 <= g["health"] <= 100) or g["grade"] != grade_of(g["health"]):
            res.violation("final score %s/%s out of range or misgraded" % (g["health"], g["grade"]), {"sections": c[3], "impl": g})
        if c[0] == "worse" and g["health"] > base_out[c[1]]["health"]:
            res.violation("response level: making %s worse raised the reported score %d -> %d" % (c[2], base_out[c[1]]["health"], g["health"]),
                          {"signature": {"kind": "mono-response", "quantity": c[2]}, "base_sections": bases[c[1]], "worse_sections": c[3]})
    return len(cases), diffs


def run(tier, seed, replay=None):
    res = C.Result(PID, tier, seed)
    rng = random.Random(seed * 1000003 + 15)
    ps = C.prove(PID)
    C.proof_coverage(res, ps, "cd /verif/lean && lake build PV.Properties.C15 && lake env lean .build/audit/Audit_C15.lean  (#print axioms)")
    res.assumptions += [
        "Go float64 arithmetic satisfies the MonoArith order laws on the finite non-NaN values that occur (DESIGN.md §6.4)",
        "math.Log10/math.Log2 enter the executable model as per-case parameters computed by the Go runtime",
        "counts in the summary are non-negative (they are lengths/counters in the pipeline)",
    ]
    mult = 1
    if not ps.ok:
        mult = 8 if tier == "quick" else 40
    nbase = (400 if tier == "quick" else 4000) * mult
    # --- cases -------------------------------------------------------------------------
    corpus = []
    cdir = os.path.join(C.ROOT, "corpus", PID)
    if os.path.isdir(cdir):
        for fn in sorted(os.listdir(cdir)):
            if fn.endswith(".json"):
                corpus.append(json.load(open(os.path.join(cdir, fn)))["vector"])
    if replay:
        rp = json.load(open(replay))["replay"]
        for k in ("vector", "base", "worse"):
            if k in rp:
                corpus.append(rp[k])
    bases = corpus + [gen_valid(rng) for _ in range(nbase)]
    invalid = [gen_invalid(rng) for _ in range(nbase // 8)]
    cases = []   # (kind, info, vector)
    for i, v in enumerate(bases):
        cases.append(("base", i, v))
    for v in invalid:
        cases.append(("invalid", None, v))
    for i, v in enumerate(bases):
        for q, w in worse_variants(v, rng):
            cases.append(("worse", (i, q), w))
        for a, upd in SKIP.items():
            w = dict(v)
            w.update(upd)
            cases.append(("skip", (i, a), w))
    go_out = C.harness_batch("score", [to_go(v) for _, _, v in cases])
    errs = [r for r in go_out if "error" in r]
    if errs:
        res.violation("harness error: %s" % errs[0]["error"], {"error": errs[0]})
        return res.finish()
    # --- correspondence: translated model (Lean, Float) vs implementation -----------------------
    diffs = 0
    if os.path.exists(C.driver_path()) and os.path.exists(os.path.join(C.GEN, "Score.lean")):
        lean_out = C.driver_batch([to_lean(v, r["log10"], r["log2"]) for (_, _, v), r in zip(cases, go_out)])
        for (kind, info, v), r, lo in zip(cases, go_out, lean_out):
            if canon_go(r) != lo:
                diffs += 1
                if diffs <= 3:
                    res.violation("correspondence: implementation `%s` vs translated model `%s`" % (canon_go(r), lo),
                                  {"correspondence": "Generated.Score (Float) vs domain.AnalyzeSummary", "vector": v,
                                   "impl": canon_go(r), "model": lo}, found_input=False)
    else:
        ps.ok = False
        ps.broken.append("driver or Generated/Score.lean missing: correspondence not run")
    # --- oracle on the implementation ------------------------------------------------------------
    base_out = {}
    nontrivial = set()
    hist = {"err": 0, "health<100": 0, "floor0": 0, "grades": {}}
    failures = 0
    for (kind, info, v), r in zip(cases, go_out):
        if kind == "base":
            base_out[info] = r
        if r["err"]:
            hist["err"] += 1
        else:
            hist["grades"][r["grade"]] = hist["grades"].get(r["grade"], 0) + 1
            if r["health"] < 100:
                hist["health<100"] += 1
                nontrivial.add(key(v))
            if r["health"] == 0:
                hist["floor0"] += 1
        for b in oracle_single(v, r):
            failures += 1
            res.violation("range/grade: " + b, {"vector": v, "impl": r})
    mono_pairs = 0
    for (kind, info, v), r in zip(cases, go_out):
        if kind not in ("worse", "skip"):
            continue
        i, q = info
        b = base_out[i]
        if b["err"] or r["err"]:
            continue
        mono_pairs += 1
        if kind == "worse" and r["health"] > b["health"]:
            res.violation("making %s worse raised the score %d -> %d" % (q, b["health"], r["health"]),
                          {"signature": {"kind": "mono", "quantity": q}, "base": bases[i], "worse": v})
        if kind == "skip" and r["health"] < b["health"]:
            sig = {"kind": "skip", "analysis": q}
            k = C.classify(PID, sig)
            if k:
                res.known_finding(k, "(e.g. %d -> %d)" % (b["health"], r["health"]))
            else:
                res.violation("skipping %s lowered the score %d -> %d" % (q, b["health"], r["health"]),
                              {"signature": sig, "base": bases[i], "worse": v})
    nresp, rdiffs = response_level(res, rng, tier, mult, ps)
    ncli = cli_level(res, rng, tier)
    # --- broken proof/tie with no failing input ---------------------------------------------------
    if not ps.ok and not any(f for _, _, f in res.violations):
        res.violation("proof obligation or tie broken: " + "; ".join(ps.broken)[:1500],
                      {"broken": ps.broken, "note": "no input violating C15 was found on the implementation in %d evaluations" % len(cases)},
                      found_input=False)
    res.coverage.update({
        "evaluations": len(cases) + nresp,
        "response_level_cases": nresp,
        "response_level_correspondence_diffs": rdiffs,
        "distinct_nontrivial": len(nontrivial),
        "rule": "summary vectors from boundary-biased grids (+1/8 invalid stream); each base vector is also evaluated with every scored "
                "quantity made worse by several steps and with every analysis skipped; non-trivial = distinct vector with health < 100",
        "samples": [cases[0][2], cases[len(bases)][2] if len(cases) > len(bases) else None][:2],
        "traces_validated_against_impl": len(cases) - diffs,
        "correspondence_diffs": diffs,
        "monotonicity_pairs_on_impl": mono_pairs,
        "cli_runs": ncli,
        "distribution": hist,
    })
    return res.finish("proof")
