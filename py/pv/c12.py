"""C12 — the import graph and module metrics reflect Python's import semantics (DESIGN.md §4 C12)."""
import json
import os
import random
import shutil
import subprocess
import sys
import tempfile

from . import common as C

PID = "C12"
BASENAMES = ["utils", "core", "models", "helpers", "api"]
WRAPS = ["top", "top", "top", "func", "try_body", "try_else", "except_body", "finally_body", "if_else", "class_body", "type_checking", "type_checking_else",
         "typing_type_checking", "with_body", "for_body", "nested_func", "tc_nested_if", "tc_nested_if_else", "tc_try", "tc_in_func", "tc_with_for", "tc_else_nested_if", "elif2_body"]
# wrappers under which the import is for type checkers only (any enclosing `if TYPE_CHECKING`, however deep, unless the path goes through its else)
TC_WRAPS = {"type_checking", "typing_type_checking", "tc_nested_if", "tc_nested_if_else", "tc_try", "tc_in_func", "tc_with_for"}
# wrappers whose import statement CPython really executes when the module is imported
EXECUTED = {"top", "func", "try_body", "try_else", "finally_body", "class_body", "type_checking_else", "with_body", "for_body", "nested_func", "tc_else_nested_if"}


class Layout:
    def __init__(self):
        self.mods = {}       # dotted name -> {"pkg": bool, "stmts": [stmt], "defs": [names]}
        self.exports = []    # (package, name, source module)
        self.ns = []         # PEP 420 namespace packages: directories WITHOUT __init__.py that hold modules; packages for Python, but no module (no graph node) of their own
        self.tag = None      # systematic layouts: the import form they exercise

    def path(self, m):
        parts = m.split(".")
        return os.path.join(*parts, "__init__.py") if self.mods[m]["pkg"] else os.path.join(*parts) + ".py"


def gen_layout(rng, reuse_names=True):
    L = Layout()
    # names that are STRING prefixes of one another (package `a`, package `ab`, module `a_types`, module `svc2`): a name test must be on dotted components
    # a module whose NAME merely ends in `__init__` (utils__init__.py) is an ordinary module, not the initialiser of `utils` (F70)
    tops = rng.sample(["main", "utils", "config", "core", "a_types", "svc2", "utils__init__"], rng.randint(1, 4))
    for t in tops:
        L.mods[t] = {"pkg": False, "stmts": [], "defs": ["fn_" + t + "_top"]}
    pkgs = rng.sample(["a", "b", "svc", "ab"], rng.randint(1, 4))
    for p in pkgs:
        L.mods[p] = {"pkg": True, "stmts": [], "defs": ["PKG_" + p.upper()]}
        for bn in rng.sample(BASENAMES if reuse_names else [x + "_" + p for x in BASENAMES], rng.randint(1, 3)):
            L.mods[p + "." + bn] = {"pkg": False, "stmts": [], "defs": ["fn_%s_%s" % (p, bn), "Cls%s%s" % (p.capitalize(), bn.capitalize())]}
        if rng.random() < 0.5:
            sp = p + ".sub"
            L.mods[sp] = {"pkg": True, "stmts": [], "defs": []}
            for bn in rng.sample(BASENAMES, rng.randint(1, 2)):
                L.mods[sp + "." + bn] = {"pkg": False, "stmts": [], "defs": ["fn_%s_sub_%s" % (p, bn)]}
    # PEP 420 namespace packages ("every package layout"): a directory without __init__.py, at top level or inside a regular package, holding modules and optionally
    # a further directory that is itself a namespace package or a regular one; the same basenames are re-used once more
    nsdirs = rng.sample(["ns", "plugins"], rng.randint(1, 2)) if rng.random() < 0.6 else []
    if rng.random() < 0.3:
        nsdirs.append(rng.choice(pkgs) + ".plug")
    for q in nsdirs:
        L.ns.append(q)
        for bn in rng.sample(BASENAMES, rng.randint(1, 3)):
            L.mods[q + "." + bn] = {"pkg": False, "stmts": [], "defs": ["fn_%s_%s" % (q.replace(".", "_"), bn)]}
        r = rng.random()
        if r < 0.5:
            sq = q + ".extra"
            if r < 0.2:
                L.mods[sq] = {"pkg": True, "stmts": [], "defs": ["PKG_" + sq.replace(".", "_").upper()]}
            else:
                L.ns.append(sq)
            for bn in rng.sample(BASENAMES, rng.randint(1, 2)):
                L.mods[sq + "." + bn] = {"pkg": False, "stmts": [], "defs": ["fn_%s_%s" % (sq.replace(".", "_"), bn)]}
    # re-exports in package __init__ files
    for p in [m for m, d in L.mods.items() if d["pkg"]]:
        subs = [m for m in L.mods if m.startswith(p + ".") and m.count(".") == p.count(".") + 1 and not L.mods[m]["pkg"]]
        if subs and rng.random() < 0.6:
            src = rng.choice(subs)
            name = L.mods[src]["defs"][0]
            L.exports.append((p, name, src))
            L.mods[p]["stmts"].append({"kind": "f", "level": 1, "module": src.split(".")[-1], "names": [name], "wrap": "top", "reexport": True})
    names = list(L.mods)
    for A in names:
        d = L.mods[A]
        pkg = A if d["pkg"] else ".".join(A.split(".")[:-1])
        for _ in range(rng.randint(0, 3)):
            form = rng.choice(["import", "import_as", "from_pkg_sub", "from_mod_name", "from_pkg_reexport", "rel_sibling", "rel_sibling_name", "rel_parent", "rel_parent_name",
                               "stdlib", "stdlib_from", "rel_pkg_name", "bare_sibling"])
            wrap = rng.choice(WRAPS)
            st = None
            others = [m for m in names if m != A]
            if form in ("import", "import_as") and others:
                st = {"kind": "p", "level": 0, "module": rng.choice(others), "names": [], "alias": form == "import_as"}
            elif form == "from_pkg_sub":
                cands = [m for m in others if "." in m]
                if cands:
                    t = rng.choice(cands)
                    st = {"kind": "f", "level": 0, "module": ".".join(t.split(".")[:-1]), "names": [t.split(".")[-1]]}
            elif form == "from_mod_name":
                cands = [m for m in others if L.mods[m]["defs"]]
                if cands:
                    t = rng.choice(cands)
                    st = {"kind": "f", "level": 0, "module": t, "names": [rng.choice(L.mods[t]["defs"])]}
            elif form == "from_pkg_reexport" and L.exports:
                p, name, src = rng.choice(L.exports)
                if p != A and src != A:
                    st = {"kind": "f", "level": 0, "module": p, "names": [name]}
            elif form in ("rel_sibling", "rel_sibling_name") and pkg:
                sibs = [m for m in others if m.startswith(pkg + ".") and m.count(".") == pkg.count(".") + 1]
                if sibs:
                    t = rng.choice(sibs)
                    if form == "rel_sibling":
                        st = {"kind": "f", "level": 1, "module": "", "names": [t.split(".")[-1]]}
                    elif L.mods[t]["defs"]:
                        st = {"kind": "f", "level": 1, "module": t.split(".")[-1], "names": [rng.choice(L.mods[t]["defs"])]}
            elif form in ("rel_parent", "rel_parent_name") and pkg and "." in pkg:
                par = ".".join(pkg.split(".")[:-1])
                sibs = [m for m in others if m.startswith(par + ".") and m.count(".") == par.count(".") + 1 and m != pkg]
                if sibs:
                    t = rng.choice(sibs)
                    if form == "rel_parent":
                        st = {"kind": "f", "level": 2, "module": "", "names": [t.split(".")[-1]]}
                    elif L.mods[t]["defs"]:
                        st = {"kind": "f", "level": 2, "module": t.split(".")[-1], "names": [rng.choice(L.mods[t]["defs"])]}
            elif form == "rel_pkg_name" and pkg and not d["pkg"] and pkg in L.mods and L.mods[pkg]["defs"]:
                st = {"kind": "f", "level": 1, "module": "", "names": [L.mods[pkg]["defs"][0]]}
            elif form == "bare_sibling" and pkg:
                # script style: the sibling's bare name; Python (project root on sys.path) does NOT resolve it unless a top-level module has that name
                sibs = [m for m in others if m.startswith(pkg + ".") and m.count(".") == pkg.count(".") + 1 and not L.mods[m]["pkg"]]
                if sibs:
                    st = {"kind": "p", "level": 0, "module": rng.choice(sibs).split(".")[-1], "names": [], "bare": True}
                    wrap = "try_body"
            elif form == "stdlib":
                st = {"kind": "p", "level": 0, "module": rng.choice(["os", "json", "collections.abc"]), "names": []}
            elif form == "stdlib_from":
                st = {"kind": "f", "level": 0, "module": "os", "names": ["path"]}
            if st:
                st["wrap"] = wrap
                st["multi"] = rng.choice([None, None, None, "post_alias", "pre_alias", "both", "plain"])
                st["ws"] = rng.choice([None, None, None, "tab", "ff", "cont", "tab2"]) if st["kind"] == "f" else None
                d["stmts"].append(st)
    return L


NS_FORMS = ["import ns.mod", "import ns.mod as x", "from ns import mod", "from ns import mod, mod", "from ns.mod import f", "from ns.sub import mod", "from . import mod",
            "from .. import mod", "from .mod import f", "from ..mod import f", "from . import sub-package", "from .sub import mod", "from pkg.nsdir import mod", "from . import nsdir-mod"]


def ns_layouts():
    """Every import form that can name a module of a PEP 420 namespace package, one form per layout, from every kind of importer (a top-level module, a module of a regular
    package, a module of the namespace package, a module of a package nested in it), with the nested directory once a namespace package and once a regular package.
    A regular package `core` with the same basenames is the control."""
    out = []
    for form in NS_FORMS:
        for subreg in (False, True):
            L = Layout()
            L.tag = "%s / nested %s" % (form, "regular" if subreg else "namespace")

            def mod(name, pkg=False):
                L.mods[name] = {"pkg": pkg, "stmts": [], "defs": (["PKG_" + name.replace(".", "_").upper()] if pkg else ["fn_" + name.replace(".", "_")])}
            mod("main")
            mod("core", True)
            mod("core.alpha")
            mod("core.utils")
            L.ns += ["plugins", "core.plug"]
            for m in ("plugins.alpha", "plugins.beta", "plugins.utils", "core.plug.alpha", "core.plug.delta"):
                mod(m)
            if subreg:
                mod("plugins.extra", True)
            else:
                L.ns.append("plugins.extra")
            mod("plugins.extra.gamma")
            mod("plugins.extra.utils")

            def add(A, kind, level, module, names, alias=False):
                L.mods[A]["stmts"].append({"kind": kind, "level": level, "module": module, "names": names, "alias": alias, "wrap": "top", "multi": None, "ws": None})
            if form == "import ns.mod":
                add("main", "p", 0, "plugins.alpha", [])
                add("core.utils", "p", 0, "plugins.extra.gamma", [])
                add("plugins.beta", "p", 0, "plugins.utils", [])
            elif form == "import ns.mod as x":
                add("main", "p", 0, "plugins.extra.utils", [], True)
                add("plugins.extra.gamma", "p", 0, "plugins.alpha", [], True)
            elif form == "from ns import mod":
                add("main", "f", 0, "plugins", ["beta"])
                add("core.utils", "f", 0, "plugins", ["utils"])
                add("plugins.extra.gamma", "f", 0, "plugins", ["alpha"])
            elif form == "from ns import mod, mod":
                add("main", "f", 0, "plugins", ["alpha", "utils"])
                add("plugins.beta", "f", 0, "plugins", ["utils", "alpha"])
            elif form == "from ns.mod import f":
                add("main", "f", 0, "plugins.alpha", ["fn_plugins_alpha"])
                add("core.alpha", "f", 0, "plugins.extra.gamma", ["fn_plugins_extra_gamma"])
            elif form == "from ns.sub import mod":
                add("main", "f", 0, "plugins.extra", ["gamma"])
                add("plugins.alpha", "f", 0, "plugins.extra", ["utils", "gamma"])
            elif form == "from . import mod":
                add("plugins.alpha", "f", 1, "", ["beta"])
                add("plugins.extra.gamma", "f", 1, "", ["utils"])
                add("core.alpha", "f", 1, "", ["utils"])
            elif form == "from .. import mod":
                add("plugins.extra.gamma", "f", 2, "", ["alpha"])
                add("plugins.extra.utils", "f", 2, "", ["utils", "beta"])
            elif form == "from .mod import f":
                add("plugins.beta", "f", 1, "alpha", ["fn_plugins_alpha"])
                add("plugins.extra.utils", "f", 1, "gamma", ["fn_plugins_extra_gamma"])
            elif form == "from ..mod import f":
                add("plugins.extra.utils", "f", 2, "beta", ["fn_plugins_beta"])
                add("core.plug.delta", "f", 2, "utils", ["fn_core_utils"])
            elif form == "from . import sub-package":
                if not subreg:
                    continue        # a namespace package has no module of its own: nothing to depend on
                add("plugins.alpha", "f", 1, "", ["extra"])
                add("main", "f", 0, "plugins", ["extra"])
            elif form == "from .sub import mod":
                add("plugins.alpha", "f", 1, "extra", ["gamma"])
                add("core.utils", "f", 1, "plug", ["delta"])
            elif form == "from pkg.nsdir import mod":
                add("main", "f", 0, "core.plug", ["alpha"])
                add("plugins.utils", "f", 0, "core.plug", ["delta", "alpha"])
            elif form == "from . import nsdir-mod":
                add("core.plug.delta", "f", 1, "", ["alpha"])
                add("core.plug.alpha", "f", 2, "", ["alpha", "utils"])
            out.append(L)
    return out


def stmt_text(st):
    """cosmetic variants (st["multi"]) put the project import into a statement with further, standard-library modules, aliased or not, before and/or after it"""
    multi = st.get("multi")
    if st["kind"] == "p":
        core = "%s%s" % (st["module"], (" as al_%s" % st["module"].replace(".", "_")) if st.get("alias") else "")
        parts = {None: [core], "post_alias": [core, "os as _os_al"], "pre_alias": ["json as _json_al", core], "both": ["string", core, "os as _os_al2", "json"],
                 "plain": ["string", core, "json"]}[multi]
        return "import " + ", ".join(parts)
    names = list(st["names"])
    if multi in ("post_alias", "both") and names and names[0] != "*":
        names[0] = "%s as _al_%s" % (names[0], names[0])
    # white space between the tokens of the statement is free: a tab, a form feed or a backslash continuation after `from` (and before `import`)
    ws = {None: (" ", " "), "tab": ("\t", "\t"), "ff": (" \x0c", " "), "cont": (" \\\n        ", " \\\n        "), "tab2": ("\t \t", " ")}[st.get("ws")]
    text = "from%s%s%s%simport %s" % (ws[0], "." * st["level"], st["module"], ws[1], ", ".join(names))
    if multi in ("pre_alias", "both", "plain") and names and names[0] != "*":
        text = "from %s%s import (\n    %s,\n)" % ("." * st["level"], st["module"], ",\n    ".join(names)) if False else text
    return text


def render_module(L, m):
    d = L.mods[m]
    out = ["from typing import TYPE_CHECKING", "import typing", ""]
    for n in d["defs"]:
        if n.startswith("Cls"):
            out += ["class %s:" % n, "    pass", ""]
        elif n.startswith("fn_"):
            out += ["def %s():" % n, "    return 1", ""]
        else:
            out += ["%s = 1" % n, ""]
    for k, st in enumerate(d["stmts"]):
        t, w = stmt_text(st), st["wrap"]
        if w == "top":
            out.append(t)
        elif w == "func":
            out += ["def _lazy%d():" % k, "    " + t, "_lazy%d()" % k]
        elif w == "nested_func":
            out += ["def _outer%d():" % k, "    def _inner():", "        " + t, "    _inner()", "_outer%d()" % k]
        elif w == "try_body":
            out += ["try:", "    " + t, "except ImportError:", "    pass"]
        elif w == "try_else":
            out += ["try:", "    pass", "except ImportError:", "    pass", "else:", "    " + t]
        elif w == "except_body":
            out += ["try:", "    pass", "except ImportError:", "    " + t]
        elif w == "finally_body":
            out += ["try:", "    pass", "finally:", "    " + t]
        elif w == "if_else":
            out += ["if len(__name__) > 10000:", "    pass", "else:", "    " + t] if False else ["if len(__name__) < 0:", "    " + t, "else:", "    pass"]
        elif w == "class_body":
            out += ["class _Holder%d:" % k, "    " + t]
        elif w == "type_checking":
            out += ["if TYPE_CHECKING:", "    " + t]
        elif w == "typing_type_checking":
            out += ["if typing.TYPE_CHECKING:", "    " + t]
        elif w == "type_checking_else":
            out += ["if TYPE_CHECKING:", "    pass", "else:", "    " + t]
        elif w == "tc_nested_if":
            out += ["if TYPE_CHECKING:", "    if len(__name__) >= 0:", "        " + t]
        elif w == "tc_nested_if_else":
            out += ["if TYPE_CHECKING:", "    if len(__name__) < 0:", "        pass", "    else:", "        " + t]
        elif w == "tc_try":
            out += ["if TYPE_CHECKING:", "    try:", "        " + t, "    except ImportError:", "        pass"]
        elif w == "tc_in_func":
            out += ["def _tc%d():" % k, "    if typing.TYPE_CHECKING:", "        if True:", "            " + t, "_tc%d()" % k]
        elif w == "tc_with_for":
            out += ["if TYPE_CHECKING:", "    for _j%d in range(1):" % k, "        if _j%d == 0:" % k, "            " + t]
        elif w == "tc_else_nested_if":
            out += ["if TYPE_CHECKING:", "    pass", "else:", "    if len(__name__) >= 0:", "        " + t]
        elif w == "elif2_body":
            out += ["if len(__name__) < 0:", "    pass", "elif len(__name__) < -1:", "    pass", "elif len(__name__) < -2:", "    " + t, "else:", "    pass"]
        elif w == "with_body":
            out += ["with open(__file__) as _fh%d:" % k, "    " + t]
        elif w == "for_body":
            out += ["for _i%d in range(1):" % k, "    " + t]
        out.append("")
    return "\n".join(out) + "\n"


def write_project(L, root):
    os.makedirs(root, exist_ok=True)
    with open(os.path.join(root, "requirements.txt"), "w") as f:
        f.write("")
    for m in L.mods:
        p = os.path.join(root, L.path(m))
        os.makedirs(os.path.dirname(p), exist_ok=True)
        with open(p, "w") as f:
            f.write(render_module(L, m))


RECORDER = r'''
import builtins, importlib, importlib.util, json, sys, types
root, mods = sys.argv[1], json.loads(sys.argv[2])
sys.path.insert(0, root)
log = []
real = builtins.__import__
def rec(name, globals=None, locals=None, fromlist=(), level=0):
    g = globals or {}
    if g.get("__name__") in mods:
        log.append((g.get("__name__"), g.get("__package__"), name, list(fromlist or ()), level))
    return real(name, globals, locals, fromlist, level)
builtins.__import__ = rec
errs = {}
for m in mods:
    try:
        importlib.import_module(m)
    except Exception as e:
        errs[m] = repr(e)
builtins.__import__ = real
out = {}
for importer, pkg, name, fromlist, level in log:
    try:
        base = importlib.util.resolve_name("." * level + name, pkg) if level else name
    except Exception:
        continue
    targets = []
    if fromlist:
        bm = sys.modules.get(base)
        for n in fromlist:
            full = base + "." + n
            if isinstance(getattr(bm, n, None), types.ModuleType) and full in sys.modules:
                targets.append(full)
            elif getattr(bm, n, None) is None and full in mods:
                # the attribute is absent afterwards (an import of the cycle failed and CPython removed the half-initialised submodule again):
                # importlib._handle_fromlist imports the submodule whenever the package has no such attribute, so the statement did bind it
                targets.append(full)
            else:
                obj = getattr(bm, n, None)
                src = getattr(obj, "__module__", None)
                targets.append(src if (src in mods and src != base) else base)
    else:
        targets.append(name)
    for t in targets:
        if t in mods and t != importer:
            out.setdefault(importer, set()).add(t)
print(json.dumps({"edges": {k: sorted(v) for k, v in out.items()}, "errors": errs}))
'''


def lean_line(L, A, stmts):
    mods = list(L.mods)
    pk = [m for m in mods if L.mods[m]["pkg"]]
    t = ["imports", str(len(mods))] + mods + [str(len(pk))] + pk + [str(len(L.exports))]
    for p, n, s in L.exports:
        t += [p, n, s]
    t += [A, str(len(stmts))]
    for st in stmts:
        t += ["1" if st["wrap"] in TC_WRAPS else "0", st["kind"], str(st["level"]), st["module"] or "-", ",".join(st["names"]) or "-"]
    return " ".join(t)


def run(tier, seed, replay=None):
    res = C.Result(PID, tier, seed)
    rng = random.Random(seed * 1000003 + 12)
    ps = C.prove(PID)
    C.proof_coverage(res, ps, "cd /verif/lean && lake build PV.Properties.C12 && #print axioms (audit)")
    res.assumptions += [
        "the oracle is the Lean specification of Python's resolution (PV.Imports.required/allowed); it is validated against CPython on every run: every generated module is "
        "really imported under an __import__ recorder and the recorded bindings must equal the specification for the statements CPython executes",
        "sandwich: every REQUIRED edge (the module each imported name binds to: submodule, re-export source, else the named module) must be reported, and every reported edge must "
        "be ALLOWED (required, or a package CPython imports on the way); only project modules count; the project root is the analysed directory (a requirements.txt marks it)",
    ]
    nlay = (60 if tier == "quick" else 600) * (1 if ps.ok else 4)
    hist = {"layouts": 0, "modules": 0, "statements": 0, "by_form": {}, "cpython_checked_modules": 0, "metric_rows": 0, "edges_expected": 0}
    layouts = [gen_layout(rng, reuse_names=(i % 4 != 3)) for i in range(nlay)]
    # namespace packages, systematically: every import form x every kind of importer (same specification, same CPython validation, same sandwich)
    layouts += ns_layouts()
    hist.update({"namespace_layouts": 0, "namespace_packages": 0, "namespace_modules": 0, "namespace_statements": 0, "namespace_edges_expected": 0, "namespace_systematic": {}})
    tmp = tempfile.mkdtemp(prefix="pv_c12_")
    nontrivial = set()
    try:
        # ---- the specification, per module ------------------------------------------------------------------------------------
        lines, owner = [], []
        for li, L in enumerate(layouts):
            for A, d in L.mods.items():
                lines.append(lean_line(L, A, d["stmts"]))
                owner.append((li, A, "all"))
                ex = [s for s in d["stmts"] if s["wrap"] in EXECUTED]
                lines.append(lean_line(L, A, ex))
                owner.append((li, A, "executed"))
        spec = {}
        if os.path.exists(C.driver_path()):
            for (li, A, what), out in zip(owner, C.driver_batch(lines)):
                r, a = out.split(" | ")
                spec[(li, A, what)] = (set(x for x in r[2:].split(",") if x != "-"), set(x for x in a[2:].split(",") if x != "-"))
        else:
            ps.ok = False
            ps.broken.append("driver missing")
        # ---- CPython validates the specification -------------------------------------------------------------------------------
        roots = []
        for li, L in enumerate(layouts):
            root = os.path.join(tmp, "l%d" % li, "proj")
            write_project(L, root)
            roots.append(root)
        for li, L in enumerate(layouts):
            if not spec:
                break
            p = subprocess.run([sys.executable, "-c", RECORDER, roots[li], json.dumps(list(L.mods))], capture_output=True, text=True, timeout=120)
            if p.returncode != 0:
                res.notes.append("CPython recorder failed on layout %d: %s" % (li, p.stderr[-200:]))
                continue
            rec = json.loads(p.stdout)
            for A in L.mods:
                if A in rec["errors"]:
                    continue
                hist["cpython_checked_modules"] += 1
                got = set(rec["edges"].get(A, []))
                want = spec[(li, A, "executed")][0]
                if got != want:
                    ps.ok = False
                    ps.broken.append("specification vs CPython: module %s of layout %d binds %s, the specification says %s" % (A, li, sorted(got), sorted(want)))
                    res.violation("correspondence (specification vs CPython): importing %s really binds project modules %s, PV.Imports.required says %s" % (A, sorted(got), sorted(want)),
                                  {"correspondence": "PV.Imports.required vs CPython __import__", "module": A, "source": render_module(L, A), "layout": sorted(L.mods)}, found_input=False)
        # ---- pyscn ----------------------------------------------------------------------------------------------------------------
        for li, L in enumerate(layouts):
            hist["layouts"] += 1
            rc, data, err = C.pyscn_json(["proj"], os.path.dirname(roots[li]), extra=["--select", "deps"])
            da = ((data or {}).get("system") or {}).get("DependencyAnalysis") if data else None
            files = {m: render_module(L, m) for m in L.mods}
            if not da:
                res.violation("analyze --select deps produced no dependency analysis: %s" % err[-300:], {"files": files})
                continue
            matrix = da.get("DependencyMatrix") or {}
            if set(matrix) != set(L.mods):
                res.violation("C12: modules of the graph are %s, the project's modules are %s" % (sorted(matrix), sorted(L.mods)),
                              {"signature": {"kind": "module-set"}, "files": files})
                continue
            if L.ns:
                hist["namespace_layouts"] += 1
                hist["namespace_packages"] += len(L.ns)
            if L.tag:
                hist["namespace_systematic"][L.tag] = hist["namespace_systematic"].get(L.tag, 0) + 1
            for A, d in L.mods.items():
                hist["modules"] += 1
                hist["statements"] += len(d["stmts"])
                in_ns = lambda m: any(m.startswith(q + ".") for q in L.ns)
                if in_ns(A):
                    hist["namespace_modules"] += 1
                for st in d["stmts"]:
                    form = "%s/level%d/%s" % ("import" if st["kind"] == "p" else "from", st["level"], "name" if st["names"] else "module")
                    hist["by_form"][form] = hist["by_form"].get(form, 0) + 1
                    if st["level"] == 0 and (st["module"] in L.ns or in_ns(st["module"])) or st["level"] > 0 and in_ns(A):
                        hist["namespace_statements"] += 1
                got = set(b for b, on in (matrix.get(A) or {}).items() if on)
                if (li, A, "all") not in spec:
                    continue
                req, alw = spec[(li, A, "all")]
                hist["edges_expected"] += len(req)
                hist["namespace_edges_expected"] += sum(1 for t in req if in_ns(t))
                if req:
                    nontrivial.add((li, A))
                missing, extra = req - got, got - alw
                if not missing and not extra:
                    continue
                # attribute the difference to single statements (each statement alone has its own required/allowed sets)
                cells = set()
                for st in d["stmts"]:
                    form = "%s/level%d/%s" % ("import" if st["kind"] == "p" else "from", st["level"], "name" if st["names"] else "module")
                    cells.add((form, st["wrap"]))
                bare = set(st["module"] for st in d["stmts"] if st.get("bare"))
                if d["pkg"] and missing and not extra and all(m.startswith(A + ".") for m in missing):
                    sig = {"kind": "init-own-submodule"}
                elif extra and not missing and all(("." in t and t.split(".")[-1] in bare and t not in alw) for t in extra):
                    sig = {"kind": "script-style-sibling"}
                else:
                    sig = {"kind": "edges", "missing": bool(missing), "extra": bool(extra), "init": d["pkg"]}
                k = C.classify(PID, sig)
                what = "C12: module %s imports %s; reported edges %s, required %s, allowed %s (missing %s, not allowed %s)" % (
                    A, [stmt_text(s) + " @" + s["wrap"] for s in d["stmts"]], sorted(got), sorted(req), sorted(alw), sorted(missing), sorted(extra))
                if k:
                    res.known_finding(k, "(%s)" % what[:300])
                else:
                    res.violation(what, {"signature": sig, "module": A, "files": files, "cells": sorted(cells), "namespace_packages": sorted(L.ns), "systematic": L.tag})
            # ---- other files / file order must not matter ---------------------------------------------------------------------------
            if li % 3 == 0:
                flist = sorted((os.path.join("proj", L.path(m)) for m in L.mods), reverse=True)
                rc2, data2, err2 = C.pyscn_json(flist, os.path.dirname(roots[li]), extra=["--select", "deps"])
                da2 = ((data2 or {}).get("system") or {}).get("DependencyAnalysis") if data2 else None
                hist["order_variants"] = hist.get("order_variants", 0) + 1
                if not da2 or (da2.get("DependencyMatrix") or {}) != matrix:
                    m2 = (da2 or {}).get("DependencyMatrix") or {}
                    diff = [(a, sorted(b for b, on in (matrix.get(a) or {}).items() if on), sorted(b for b, on in (m2.get(a) or {}).items() if on)) for a in sorted(set(matrix) | set(m2)) if (matrix.get(a) or {}) != (m2.get(a) or {})]
                    res.violation("C12: giving the same files explicitly in reverse order changes the graph: %s" % diff[:3], {"signature": {"kind": "file-order"}, "files": files})
            if li % 3 == 1:
                busy = [m for m, d in L.mods.items() if d["stmts"]]
                if len(busy) >= 2:
                    A = rng.choice(busy)
                    L2 = Layout()
                    L2.exports = L.exports
                    L2.mods = {m: dict(d, stmts=(d["stmts"] if (m == A or d["pkg"]) else [])) for m, d in L.mods.items()}
                    r2 = os.path.join(tmp, "iso%d" % li, "proj")
                    write_project(L2, r2)
                    rc3, data3, err3 = C.pyscn_json(["proj"], os.path.dirname(r2), extra=["--select", "deps"])
                    da3 = ((data3 or {}).get("system") or {}).get("DependencyAnalysis") if data3 else None
                    hist["isolation_variants"] = hist.get("isolation_variants", 0) + 1
                    a1 = sorted(b for b, on in (matrix.get(A) or {}).items() if on)
                    a2 = sorted(b for b, on in (((da3 or {}).get("DependencyMatrix") or {}).get(A) or {}).items() if on)
                    if a1 != a2:
                        res.violation("C12: the edges of %s change from %s to %s when the imports of the OTHER (non-package) modules are removed" % (A, a1, a2),
                                      {"signature": {"kind": "interference"}, "files": files, "module": A})
            # ---- metrics of the same report ---------------------------------------------------------------------------------------
            mm = da.get("ModuleMetrics") or {}
            names = sorted(matrix)
            idx = {n: i for i, n in enumerate(names)}
            edges = [(idx[a], idx[b]) for a in names for b, on in (matrix[a] or {}).items() if on and b in idx]
            for n in names:
                hist["metric_rows"] += 1
                m = mm.get(n) or {}
                fo = sum(1 for a, b in edges if a == idx[n])
                fi = sum(1 for a, b in edges if b == idx[n])
                inst = (fo / (fi + fo)) if fi + fo else 0.0
                bad = []
                if m.get("EfferentCoupling") != fo or m.get("AfferentCoupling") != fi:
                    bad.append("fan-out %s / fan-in %s, the matrix has out-degree %d / in-degree %d" % (m.get("EfferentCoupling"), m.get("AfferentCoupling"), fo, fi))
                if abs((m.get("Instability") or 0.0) - inst) > 1e-12:
                    bad.append("instability %r, fan-out/(fan-in+fan-out) = %r" % (m.get("Instability"), inst))
                ab = m.get("Abstractness") or 0.0
                dist = m.get("Distance") or 0.0
                if not (0.0 <= dist <= 1.0) or abs(dist - abs(ab + (m.get("Instability") or 0.0) - 1.0)) > 1e-12:
                    bad.append("distance %r is not |A + I - 1| within [0,1] (A=%r, I=%r)" % (dist, ab, m.get("Instability")))
                for b in bad:
                    res.violation("C12 metrics: module %s: %s" % (n, b), {"signature": {"kind": "metric", "what": b.split(" ")[0]}, "files": files, "module": n})
            # longest chain (on acyclic graphs the DFS value is the longest path; with cycles the closing edge is counted: not required by the property)
            adj = {i: [b for a, b in edges if a == i] for i in range(len(names))}
            color, cyc = {}, [False]

            def dfs(u):
                color[u] = 1
                best = 0
                for v in adj[u]:
                    if color.get(v) == 1:
                        cyc[0] = True
                    elif color.get(v) == 2:
                        best = max(best, 1 + depth[v])
                    else:
                        best = max(best, 1 + dfs(v))
                color[u] = 2
                depth[u] = best
                return best
            depth = {}
            for u in range(len(names)):
                if u not in color:
                    dfs(u)
            if not cyc[0] and da.get("MaxDepth") != (max(depth.values()) if depth else 0):
                res.violation("C12 metrics: MaxDepth %s, the longest import chain of the reported (acyclic) graph has %d edges" % (da.get("MaxDepth"), max(depth.values()) if depth else 0),
                              {"signature": {"kind": "metric", "what": "maxdepth"}, "files": files})
        # ---- MaxDepth on graph-shaped projects (cycles with tails, several components): model of the DFS + brute force --------------------
        ngraphs = 25 if tier == "quick" else 250
        for gi in range(ngraphs):
            n = rng.randint(2, 8)
            shape = rng.choice(["random", "cycle_tail_island", "dag", "two_cycles"])
            edges = set()
            if shape == "cycle_tail_island" and n >= 5:
                k = rng.randint(2, n - 3)
                for i in range(k):
                    edges.add((i, (i + 1) % k))
                for i in range(k, n - 2):
                    edges.add((i - 1 if i > k else rng.randrange(k), i))
                edges.add((n - 2, n - 1))
            elif shape == "dag":
                for a in range(n):
                    for b in range(a + 1, n):
                        if rng.random() < 0.35:
                            edges.add((a, b))
            else:
                for _ in range(rng.randint(1, 2 * n)):
                    a, b = rng.randrange(n), rng.randrange(n)
                    if a != b:
                        edges.add((a, b))
            groot = os.path.join(tmp, "g%d" % gi, "proj")
            os.makedirs(groot)
            open(os.path.join(groot, "requirements.txt"), "w").close()
            for a in range(n):
                with open(os.path.join(groot, "m%d.py" % a), "w") as f:
                    f.write("".join("import m%d\n" % b for (x, b) in sorted(edges) if x == a) + "def f%d():\n    return 1\n" % a)
            rc, data, err = C.pyscn_json(["proj"], os.path.dirname(groot), extra=["--select", "deps"])
            da = ((data or {}).get("system") or {}).get("DependencyAnalysis") if data else None
            hist["depth_graphs"] = hist.get("depth_graphs", 0) + 1
            if not da:
                res.violation("analyze --select deps produced no dependency analysis: %s" % err[-300:], {"edges": sorted(edges), "n": n})
                continue
            adj = {a: [b for (x, b) in sorted(edges) if x == a] for a in range(n)}

            def walk(u, path, d):
                if u in path:
                    return d
                best = d
                for v in adj[u]:
                    best = max(best, walk(v, path | {u}, d + 1))
                return best
            brute = max(walk(u, frozenset(), 0) for u in range(n))
            simple = [0]

            def longest(u, path, d):
                simple[0] = max(simple[0], d)
                for v in adj[u]:
                    if v not in path:
                        longest(v, path | {v}, d + 1)
            for u in range(n):
                longest(u, frozenset([u]), 0)
            if os.path.exists(C.driver_path()):
                mo = C.driver_batch(["deps %d %d %s" % (n, len(edges), " ".join("%d %d" % e for e in sorted(edges)))])[0].split("|")
                if int(mo[3]) != brute:
                    ps.ok = False
                    ps.broken.append("PV.Imports.maxDepth = %s, brute force over simple paths (+ closing edge) = %d on %s" % (mo[3], brute, sorted(edges)))
            acyclic = brute == simple[0]
            if da.get("MaxDepth") != brute:
                res.violation("C12 metrics: MaxDepth %s on the graph %s; the longest import chain has %d edges%s" % (da.get("MaxDepth"), sorted(edges), simple[0],
                              "" if acyclic else " (%d when the edge that closes a cycle is counted, as the depth search does)" % brute),
                              {"signature": {"kind": "metric", "what": "maxdepth"}, "n": n, "edges": sorted(edges), "shape": shape})
    finally:
        shutil.rmtree(tmp, ignore_errors=True)
    if not ps.ok and not any(fi for _, _, fi in res.violations):
        res.violation("proof obligation or tie broken: " + "; ".join(ps.broken)[:1500], {"broken": ps.broken}, found_input=False)
    res.coverage.update({
        "evaluations": hist["modules"] + hist["metric_rows"],
        "distinct_nontrivial": len(nontrivial),
        "rule": "generated layouts: 1-3 top-level modules, 1-3 packages (optionally with a sub-package), in about 7 of 10 layouts also PEP 420 namespace packages (directories without "
                "__init__.py, at top level or inside a regular package, optionally with a nested namespace or regular package) plus the systematic namespace layouts (one import form "
                "each: import ns.mod, from ns import mod, from ns.mod import f, from . import mod, from .. import mod, from .mod / ..mod import f, ... x nested directory namespace / "
                "regular x importer at top level / in a regular package / in the namespace package / in the nested package); "
                "module basenames re-used across packages in 3 of 4 layouts, __init__ "
                "re-exports; 0-3 import statements per module over 12 forms (import, import as, from pkg import submodule, from mod import name, from pkg import re-exported name, "
                "relative sibling / parent by dots, stdlib) x 16 placements (top level, function, nested function, try/else/except/finally, if/else, class body, with, for, "
                "TYPE_CHECKING, typing.TYPE_CHECKING, else of TYPE_CHECKING); non-trivial = module with at least one required edge",
        "samples": [{"module": A, "imports": [stmt_text(s) + " @" + s["wrap"] for s in d["stmts"]]} for A, d in list(layouts[0].mods.items())[:4]] if layouts else [],
        "traces_validated_against_impl": hist["cpython_checked_modules"],
        "distribution": hist,
    })
    return res.finish("proof")
