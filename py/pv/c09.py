"""C09 — LSH and batching never invent pairs and never lose exact duplicates (DESIGN.md §4 C09)."""
import json
import os
import random

from . import common as C
from . import cloneeng as E

PID = "C09"
LSH_GRID = [  # (bands, rows, hashes, threshold)
    (32, 4, 128, 0.5), (1, 1, 1, 0.0), (2, 4, 16, 0.5), (64, 2, 128, 1.0), (32, 4, 128, 0.0), (1, 128, 128, 0.5), (3, 7, 16, 0.3),
    (0, 0, 0, 0.5), (-1, -2, -3, -0.5), (32, 4, 128, 1.5), (5, 129, 128, 0.5), (2, 200, 128, 0.5), (4, 17, 16, 0.0),
]


def unordered_set(lst):
    return set(E.unordered(lst))


def sims_sorted(lst):
    return sorted(p["Sim"] for p in lst)


def run(tier, seed, replay=None):
    res = C.Result(PID, tier, seed)
    rng = random.Random(seed * 1000003 + 9)
    ps = C.prove(PID)
    C.proof_coverage(res, ps, "cd /verif/lean && lake build PV.Properties.C09 && #print axioms (audit)")
    res.assumptions += [
        "the measurement of a pair is a parameter of the model (see C08); its symmetry, needed by C09_batch_eq because batching visits some pairs as (later, earlier), "
        "is checked on the real code for every ordered pair of every generated project",
        "the MinHash family (a_i, b_i) is re-derived by the harness with the generator's recipe and checked against the real closures on probe values; FNV-1a and the "
        "family `(a*x ^ b) + a + b` are implemented in the Lean driver, so signatures, band keys and candidate sets are compared exactly",
        "exact duplicate = two fragments with identical prepared trees (same labels and shape); the hash QUALITY for near duplicates is not a property here",
    ]
    mult = 1 if ps.ok else 6
    nproj = (20 if tier == "quick" else 200) * mult
    hist = {"projects": 0, "batch_runs": 0, "truncated_runs": 0, "auto_runs": 0, "lsh_runs": 0, "duplicate_pairs_checked": 0, "fragments": 0, "lsh_region_zero_bands": 0}
    nontrivial = set()
    projects = [E.gen_project(rng, nbase=rng.randint(2, 6), nodes=[8, 12, 16]) for _ in range(nproj)]
    if replay:
        rp = json.load(open(replay))["replay"]
        if "files" in rp:
            pr = E.Project()
            pr.files = [(f["Path"], [f["Src"].split("\n")]) for f in rp["files"]]
            projects.insert(0, pr)
    # ---------------- batching ---------------------------------------------------------------------------------------------
    probe = C.harness_batch("clones", [{"Files": pr.sources(), "Req": {"DFA": False}} for pr in projects], jobs=14)
    cases = []
    for pr, g0 in zip(projects, probe):
        if "frags" not in g0:
            res.violation("harness error: %s" % g0.get("error"), {"files": pr.sources()})
            continue
        n = len(g0["frags"])
        hist["fragments"] += n
        sizes = sorted(set(b for b in [1, 2, 3, n - 1, n, n + 1, 100, 0, -5, rng.randint(1, max(2, n))] if True))
        req = {"DFA": rng.random() < 0.3}
        cases.append((pr, {"Files": pr.sources(), "Req": req, "Raw": True, "BatchSizes": sizes}, "full"))
        k = len(g0["std"])
        if k >= 2:
            mp = rng.choice([1, 2, max(1, k // 2), max(1, k - 1), k, k + 1])
            cases.append((pr, {"Files": pr.sources(), "Req": req, "Raw": True, "BatchSizes": sizes, "MaxPairs": mp, "BatchThreshold": rng.choice([1, 2, n, n + 1])}, "limited"))
    outs = C.harness_batch("clones", [c[1] for c in cases], jobs=14)
    lines, owner = [], []
    for ci, ((pr, inp, kind), g) in enumerate(zip(cases, outs)):
        if "frags" not in g:
            res.violation("harness error: %s" % g.get("error"), {"files": pr.sources()})
            continue
        pre = E.driver_prefix("batch", g)
        for bs in inp["BatchSizes"]:
            lines.append(" ".join(pre + [str(g["cfg"]["MaxClonePairs"]), str(bs)]))
            owner.append((ci, "batch", bs))
        cfg = g["cfg"]
        lines.append(" ".join(E.driver_prefix("auto", g) + [str(cfg["BatchSizeThreshold"]), str(cfg["LargeProjectSize"]), str(cfg["BatchSizeSmall"]), str(cfg["BatchSizeLarge"])]))
        owner.append((ci, "auto", None))
    model = C.driver_batch(lines) if (lines and os.path.exists(C.driver_path())) else None
    if model is None:
        ps.ok = False
        ps.broken.append("driver missing")
    mres = {}
    if model:
        for (ci, what, bs), out in zip(owner, model):
            mres[(ci, what, bs)] = E.parse_pairs(out)
    for ci, ((pr, inp, kind), g) in enumerate(zip(cases, outs)):
        if "frags" not in g:
            continue
        replay_obj = {"files": pr.sources(), "req": inp["Req"], "max_pairs": inp.get("MaxPairs"), "batch_threshold": inp.get("BatchThreshold")}
        raw = {(r["I"], r["J"]): r for r in g["raw"]}
        sym = all((r["OK"], r["Sim"], r["Dist"]) == (raw[(j, i)]["OK"], raw[(j, i)]["Sim"], raw[(j, i)]["Dist"]) for (i, j), r in raw.items() if i < j)
        if not sym:
            res.violation("C09: the measurement of a pair depends on which fragment comes first, so batched (which visits (later, earlier)) and unbatched detection differ",
                          dict(replay_obj, signature={"kind": "asymmetric-measure"}))
            continue
        std_all = unordered_set(g["std"])
        limit = g["cfg"]["MaxClonePairs"]
        truncated = len(g["std"]) > limit
        if g["std"]:
            nontrivial.add(ci)
        for bs in inp["BatchSizes"]:
            got = g["batch"][str(bs)]
            hist["batch_runs"] += 1
            gu = unordered_set(got)
            if len(gu) != len(got):
                res.violation("C09 batching (size %d): a pair is reported twice" % bs, dict(replay_obj, signature={"kind": "batch-duplicate"}, batch_size=bs))
            if not gu <= std_all:
                res.violation("C09 batching (size %d): reports a pair the exhaustive comparison does not report with the same similarity/type: %s" % (bs, sorted(gu - std_all)[:3]),
                              dict(replay_obj, signature={"kind": "batch-invented"}, batch_size=bs))
            if len(g["std"]) <= limit and gu != std_all:
                res.violation("C09 batching (size %d, no truncation: %d pairs <= limit %d): batched and unbatched detection differ: missing %s, extra %s"
                              % (bs, len(g["std"]), limit, sorted(std_all - gu)[:3], sorted(gu - std_all)[:3]),
                              dict(replay_obj, signature={"kind": "batch-differs"}, batch_size=bs))
            if truncated:
                hist["truncated_runs"] += 1
                want = sorted((p["Sim"] for p in g["std"]), key=E.hex2f, reverse=True)[:limit]
                if sorted(want) != sims_sorted(got):
                    res.violation("C09 batching (size %d, limit %d): the kept pairs are not the %d most similar ones: kept %s, best %s"
                                  % (bs, limit, limit, sorted(E.hex2f(x) for x in sims_sorted(got)), sorted(E.hex2f(x) for x in want)),
                                  dict(replay_obj, signature={"kind": "batch-topk"}, batch_size=bs))
            if model:
                m = mres[(ci, "batch", bs)]
                same = (sorted(m) == E.pairs_of(got)) if not truncated else (sorted(x.split(":")[3] for x in m) == sims_sorted(got))
                if not same:
                    res.violation("correspondence (batched detection, size %d): model %s vs implementation %s" % (bs, sorted(m)[:4], E.pairs_of(got)[:4]),
                                  dict(replay_obj, correspondence="PV.Clone.batched vs detectClonePairsWithBatchingContext", batch_size=bs), found_input=False)
        hist["auto_runs"] += 1
        au = unordered_set(g["auto"])
        if not au <= std_all:
            res.violation("C09: the detector's own path selection reports a pair the exhaustive comparison does not: %s" % sorted(au - std_all)[:3], dict(replay_obj, signature={"kind": "auto-invented"}))
        if not truncated and au != std_all:
            res.violation("C09: without truncation the detector's own path (batched when n > %d or n(n-1)/2 > %d) differs from exhaustive detection: missing %s"
                          % (g["cfg"]["BatchSizeThreshold"], limit, sorted(std_all - au)[:3]), dict(replay_obj, signature={"kind": "auto-differs"}))
        if model:
            m = mres[(ci, "auto", None)]
            same = (set("%d:%d:%s" % (min(int(a), int(b)), max(int(a), int(b)), ":".join(r)) for a, b, *r in (x.split(":") for x in m)) == au) if not truncated \
                else (sorted(x.split(":")[3] for x in m) == sims_sorted(g["auto"]))
            if not same:
                res.violation("correspondence (path selection + sort/limit): model %s vs implementation %s" % (sorted(m)[:4], E.pairs_of(g["auto"])[:4]),
                              dict(replay_obj, correspondence="PV.Clone.detectAuto vs detectClonePairsWithContext"), found_input=False)
    hist["projects"] = len(projects)
    # ---------------- LSH ----------------------------------------------------------------------------------------------------
    lsh_cases = []
    for pi, pr in enumerate(projects[: (12 if tier == "quick" else 120) * mult]):
        grid = [LSH_GRID[0]] + rng.sample(LSH_GRID[1:], 3 if tier == "quick" else 6)
        for (b, r, h, t) in grid:
            lsh_cases.append((pr, {"Files": pr.sources(), "Req": {"DFA": False, "LSHBands": b, "LSHRows": r, "LSHHash": h, "LSHThr": t}, "Raw": True, "LSH": True}))
    # many identical fragments: all their band buckets fill up together
    for copies in ([70] if tier == "quick" else [66, 70, 101, 130]):
        pr = E.Project()
        body = ["def same_%d(x):" % 0, "    total = 0", "    for item in range(x):", "        if item > 3:", "            total += item * 2", "        else:", "            total -= 1",
                "    print(total)", "    return total"]
        pr.files = [("many.py", [[ln.replace("same_0", "same_%d" % k) for ln in body] for k in range(copies)])]
        lsh_cases.append((pr, {"Files": pr.sources(), "Req": {"DFA": False, "MinNodes": 5, "MinLines": 5, "LSHBands": 32, "LSHRows": 4, "LSHHash": 128, "LSHThr": 0.5}, "Raw": True, "LSH": True}))
    louts = C.harness_batch("clones", [c[1] for c in lsh_cases], jobs=14)
    llines, lown = [], []
    for ci, ((pr, inp), g) in enumerate(zip(lsh_cases, louts)):
        if "frags" not in g or "lsh" not in g:
            res.violation("harness error: %s" % g.get("error"), {"files": pr.sources(), "req": inp["Req"]})
            continue
        L = g["lsh"]
        if not L["family_ok"]:
            ps.ok = False
            ps.broken.append("MinHash family: the recipe (seed 0x5eed1234cafebabe, a|1, (a*x ^ b) + a + b) no longer describes the real hash functions")
            continue
        cfg = g["cfg"]
        t = E.driver_prefix("lsh", g) + [str(cfg["LSHBands"]), str(cfg["LSHRows"]), cfg["LSHThr"], str(len(L["a"]))] + L["a"] + L["b"]
        for fs in L["feats"]:
            t.append(str(len(fs)))
            t += fs
        llines.append(" ".join(t))
        lown.append(ci)
    lmodel = C.driver_batch(llines) if (llines and os.path.exists(C.driver_path())) else None
    lm = dict(zip(lown, lmodel)) if lmodel else {}
    for ci, ((pr, inp), g) in enumerate(zip(lsh_cases, louts)):
        if "frags" not in g or "lsh" not in g:
            continue
        hist["lsh_runs"] += 1
        req = inp["Req"]
        replay_obj = {"files": pr.sources(), "req": req}
        L, frags = g["lsh"], g["frags"]
        std_all = unordered_set(g["std"])
        on = g["report_on"]["detector"]
        onu = unordered_set(on)
        nh = len(L["a"])
        rows = req["LSHRows"] if req["LSHRows"] > 0 else 4
        zero_bands = nh < rows
        if zero_bands:
            hist["lsh_region_zero_bands"] += 1
        if not onu <= std_all:
            res.violation("C09 LSH (bands=%s rows=%s hashes=%s thr=%s): reports a pair the exhaustive comparison does not report with the same similarity and type: %s"
                          % (req["LSHBands"], req["LSHRows"], req["LSHHash"], req["LSHThr"], sorted(onu - std_all)[:3]), dict(replay_obj, signature={"kind": "lsh-invented"}))
        # exact duplicates the exhaustive path reports must survive
        if len(g["std"]) <= g["cfg"]["MaxClonePairs"]:
            for p in g["std"]:
                a, b = frags[p["I"]], frags[p["J"]]
                if a["TreeKey"] == b["TreeKey"]:
                    hist["duplicate_pairs_checked"] += 1
                    key = E.unordered([p])[0]
                    if key not in onu:
                        sig = {"kind": "lsh-lost-duplicate", "fewer_hashes_than_rows": zero_bands}
                        k = C.classify(PID, sig)
                        if k:
                            res.known_finding(k, "(bands=%s rows=%s hashes=%s)" % (req["LSHBands"], req["LSHRows"], req["LSHHash"]))
                        else:
                            res.violation("C09 LSH (bands=%s rows=%s hashes=%s thr=%s): the pair of structurally identical fragments %s:%d-%d / %s:%d-%d is reported by the "
                                          "exhaustive comparison and lost with LSH" % (req["LSHBands"], req["LSHRows"], req["LSHHash"], req["LSHThr"], a["Path"], a["S"], a["E"], b["Path"], b["S"], b["E"]),
                                          dict(replay_obj, signature=sig))
                        break
        if ci in lm:
            Pm, Cm, Sm = lm[ci].split(" | ")
            msigs = [x.split(",") if x else [] for x in Sm[2:].split(";")] if frags else []
            if frags and msigs != L["sigs"]:
                bad = [k for k in range(len(frags)) if k >= len(msigs) or msigs[k] != L["sigs"][k]]
                res.violation("correspondence (MinHash): signature of fragment %d differs between model and implementation" % bad[0],
                              dict(replay_obj, correspondence="PV.Clone.signature (hashFam, fnv64) vs MinHasher.ComputeSignature"), found_input=False)
                continue
            mc = {}
            for item in Cm[2:].split(";"):
                if item:
                    i, js = item.split(":")
                    mc[int(i)] = sorted(int(x) for x in js.split(",") if x != "")
            ic = {i: sorted(c or []) for i, c in enumerate(L["cands"] or [])}
            if frags and mc != ic:
                res.violation("correspondence (LSH index): candidate sets differ between model and implementation, e.g. %s"
                              % [(i, mc.get(i), ic.get(i)) for i in ic if mc.get(i) != ic.get(i)][:2],
                              dict(replay_obj, correspondence="PV.Clone.isCand/bandKeys vs LSHIndex.FindCandidates"), found_input=False)
                continue
            if len(frags) > 1 and sorted(E.parse_pairs(Pm[2:])) != E.pairs_of(on) and len(on) < g["cfg"]["MaxClonePairs"]:
                res.violation("correspondence (LSH detection): model %s vs implementation %s" % (sorted(E.parse_pairs(Pm[2:]))[:4], E.pairs_of(on)[:4]),
                              dict(replay_obj, correspondence="PV.Clone.lshDetect vs DetectClonesWithLSH"), found_input=False)
    if not ps.ok and not any(fi for _, _, fi in res.violations):
        res.violation("proof obligation or tie broken: " + "; ".join(ps.broken)[:1500],
                      {"broken": ps.broken, "note": "no fragment set on which batching/LSH invents a pair, loses an exact duplicate or differs from exhaustive detection was found"},
                      found_input=False)
    res.coverage.update({
        "evaluations": hist["batch_runs"] + hist["auto_runs"] + hist["lsh_runs"],
        "distinct_nontrivial": len(nontrivial),
        "rule": "generated projects (see C08; 2-6 base functions with verbatim / noisy / renamed / mutated copies, nested compound statements are fragments too); per project "
                "batch sizes {1,2,3,n-1,n,n+1,100,0,-5,random} with the default pair limit and with a limit below/at/above the number of pairs, forced path selection with "
                "BatchSizeThreshold in {1,2,n,n+1}; LSH grid of (bands, rows, hashes, threshold) incl. defaults, 0/negative values, threshold outside [0,1], rows > hashes; "
                "non-trivial = a fragment set with at least one reported pair",
        "samples": [{"batch_sizes": cases[0][1]["BatchSizes"], "pairs": len(outs[0].get("std", []))}] if cases else [],
        "traces_validated_against_impl": hist["batch_runs"] + hist["lsh_runs"],
        "distribution": hist,
    })
    return res.finish("proof")
