"""C14 — LCOM4 = number of connected components of the method graph (DESIGN.md §4 C14)."""
import ast
import json
import os
import random
import re
import shutil
import tempfile

from . import common as C

PID = "C14"

# statement templates; {E} is an expression that mentions self.<attr> (or calls self.<method>())
POSITIONS = {
    "assign_value": "v = {E}", "assign_target": "{A} = 1", "augassign": "{A} += 1", "return": "return {E}", "call_arg": "print({E})",
    "keyword_arg": "print(end={E})", "if_cond": "if {E}:\n{I}    pass", "elif_cond": "if v:\n{I}    pass\n{I}elif {E}:\n{I}    pass",
    "while_cond": "while {E}:\n{I}    break", "for_iter": "for k in {E}:\n{I}    pass", "binop_left": "v = {E} + 1", "binop_right": "v = 1 + {E}",
    "unary_minus": "v = -{E}", "unary_not": "v = not {E}", "compare": "v = {E} < 3", "boolop": "v = {E} and 1", "subscript_object": "v = {E}[0]",
    "subscript_index": "v = [1][{E}]", "subscript_target": "{A}[0] = 1", "with_item": "with {E}:\n{I}    pass", "with_item_as": "with {E} as fh:\n{I}    pass",
    "fstring": "v = f\"{{E}}\"", "fstring_spec": "v = f\"x {{E}!r:>10} y\"", "fstring_nested": "v = f\"{v:{{E}}}\"", "else_body": "if v:\n{I}    pass\n{I}else:\n{I}    w = {E}", "except_body": "try:\n{I}    pass\n{I}except Exception:\n{I}    w = {E}",
    "finally_body": "try:\n{I}    pass\n{I}finally:\n{I}    w = {E}", "try_body": "try:\n{I}    w = {E}\n{I}except Exception:\n{I}    pass",
    "loop_else": "for k in v:\n{I}    pass\n{I}else:\n{I}    w = {E}", "list_literal": "v = [{E}]", "dict_value": "v = {1: {E}}", "tuple": "v = ({E}, 1)",
    "lambda_body": "v = lambda: {E}", "comp_element": "v = [{E} for k in v]", "comp_iter": "v = [k for k in {E}]", "comp_cond": "v = [k for k in v if {E}]",
    "ifexp": "v = {E} if v else 0", "assert": "assert {E}", "del": "del {A}", "raise": "raise ValueError({E})", "nested_def": "def inner():\n{I}    return {E}",
    "walrus": "if (w := {E}):\n{I}    pass", "starred": "print(*{E})", "attr_chain": "v = {E}.real.imag", "yield": "yield {E}", "await": "v = await {E}",
    "match_subject": "match {E}:\n{I}    case 1:\n{I}        pass", "case_body": "match v:\n{I}    case 1:\n{I}        w = {E}", "annotated": "w: int = {E}",
    "selfcall_arg": "v = self.sink({E})", "selfcall_kwarg": "v = self.sink(k={E})", "selfcall_arg2": "self.sink(1, {E})", "selfattr_call_arg": "self.items.append({E})",
    "nested_call_arg": "print(len({E}))", "method_chain": "v = {E}.strip().lower()", "dict_key": "v = {{E}: 1}", "set_literal": "v = {{E}, 2}",
    "nested_def_default": "def inner(q={E}):\n{I}    return q", "comp_nested": "v = [[{E} for k in v] for j in v]", "ifexp_cond": "v = 1 if {E} else 0",
    "compare_right": "v = 3 < {E}", "boolop_right": "v = 1 and {E}", "call_kw_in_return": "return dict(a={E})", "dictcomp_value": "v = {k: {E} for k in v}",
    "genexp_arg": "print(sum({E} for k in v))", "call_on_call": "v = {E}.get(1)(2)", "starstar": "print(**{E})", "selfcall_in_selfcall_attr": "v = self.sink({E}).real",
    "return_tuple": "return 1, {E}", "slice": "v = v[{E}:]", "call_func_attr": "v = {E}.append(1)", "global_stmt_after": "v = 0\n{I}w = {E}",
    # positions reported by a second-round reviewer of the unchanged tree
    "yield_from": "yield from {E}", "dict_unpack": "v = {**{E}}", "list_unpack": "v = [*{E}]", "set_unpack": "v = {*{E}, 1}", "tuple_unpack": "v = (*{E}, 1)",
    "with_as_target": "with open(v) as {A}:\n{I}    pass", "for_target": "for {A} in v:\n{I}    pass", "parenthesised": "v = ({E})", "match_value_pattern": "match v:\n{I}    case {A}:\n{I}        pass",
    "nested_def_decorator": "@{E}\n{I}def inner():\n{I}    return 1", "nested_class_base": "class Local({E}):\n{I}    pass", "nested_class_keyword": "class Local(metaclass={E}):\n{I}    pass",
    "typed_default_param": "def inner(q: int = {E}):\n{I}    return q", "return_annotation_inner": "def inner() -> {E}:\n{I}    return 1", "tuple_assign_target": "{A}, w = 1, 2",
    "chained_assign": "w = u = {E}", "augassign_value": "v += {E}", "assert_msg": "assert v, {E}", "raise_from": "raise ValueError(1) from {E}", "except_type": "try:\n{I}    pass\n{I}except {E}:\n{I}    pass",
    "while_else": "while v:\n{I}    break\n{I}else:\n{I}    w = {E}", "elif3_body": "if v == 1:\n{I}    pass\n{I}elif v == 2:\n{I}    pass\n{I}elif v == 3:\n{I}    w = {E}", "try_else": "try:\n{I}    pass\n{I}except Exception:\n{I}    pass\n{I}else:\n{I}    w = {E}",
    "except_star_body": "try:\n{I}    pass\n{I}except* ValueError:\n{I}    w = {E}", "case_guard": "match v:\n{I}    case 1 if {E}:\n{I}        pass", "async_for_iter": "async for k in {E}:\n{I}    pass",
    "async_with_item": "async with {E} as fh:\n{I}    pass", "slice_upper_step": "v = v[1:{E}:2]", "conditional_lambda_default": "v = lambda q={E}: q", "print_to_file_kw": "print(1, file={E})",
    "set_comp": "v = {{E} for k in v}", "dict_comp_key": "v = {{E}: k for k in v}", "comp_second_iter": "v = [k for j in v for k in {E}]", "comp_two_ifs": "v = [k for k in v if k if {E}]",
    "string_format_call": "v = \"{}\".format({E})", "percent_format": "v = \"%s\" % {E}", "matmul": "v = v @ {E}", "in_operator": "v = 1 in {E}", "is_operator": "v = {E} is None",
    # positions reported by a fourth-round reviewer of the unchanged tree
    "fstring_concat_second": "v = \"text \" f\"{{E}}\"", "fstring_concat_third": "v = (\"a \"\n{I}     \"b \"\n{I}     f\"{{E}}\")", "fstring_concat_first": "v = f\"{{E}}\" \" tail\"",
    "fstring_concat_raw_first": "v = r\"a\\d \" f\"{{E}} x\"",
    "subscript_tuple": "v = v[0, {E}]", "expr_tuple_stmt": "1, {E}", "subscript_tuple_target": "v[{E}, 0] = 1",
    # the access written next to the BARE instance: a call that also receives `self` itself as an argument (explicit base-class call, observer registration,
    # visitor dispatch) or any other expression that mentions the bare name; the mention is another argument, a keyword, the receiver, or nested deeper
    "base_call_self_arg": "Base.__init__(self, {E})", "base_call_self_kwarg": "Base.configure(self, option={E})", "receiver_of_call_passing_self": "{E}.subscribe(self)",
    "call_self_then_nested_arg": "register(self, [{E}])", "call_arg_then_self": "v = register({E}, self)", "selfcall_passing_self": "v = self.sink(self, {E})",
    "return_base_call_self": "return Base.run(self, {E})", "call_self_keyword_only": "register(owner=self, value={E})", "super_two_arg": "super(Base, self).__init__({E})",
    "call_self_middle": "v = register(1, self, 2, k={E})", "call_passing_self_in_arg": "print(register(self), {E})", "arg_of_call_in_call_passing_self": "register(self, len({E}))",
    "tuple_with_self": "v = (self, {E})", "return_self_and": "return self, {E}", "boolop_with_self": "v = {E} or self", "ifexp_self_body": "v = self if {E} else None",
    "compare_with_self": "v = self == {E}", "dict_self_key": "v = {self: {E}}",
    "global_then_use": "global G\n{I}G = {E}", "nonlocal_free": "w = [{E}][0]", "return_parenthesised": "return ({E})", "return_await_free": "return [{E}, 2][0]",
}
# positions in which the bare name `self` stands next to the mention (argument of the same call, element of the same display, operand of the same operator)
BARE_SELF_POSITIONS = ("base_call_self_arg", "base_call_self_kwarg", "receiver_of_call_passing_self", "call_self_then_nested_arg", "call_arg_then_self", "selfcall_passing_self",
                       "return_base_call_self", "call_self_keyword_only", "super_two_arg", "call_self_middle", "call_passing_self_in_arg", "arg_of_call_in_call_passing_self",
                       "tuple_with_self", "return_self_and", "boolop_with_self", "ifexp_self_body", "compare_with_self", "dict_self_key")
BARE_SELF_RE = re.compile(r"[(,=]\s*self\s*[,)]")
ASYNC_ONLY = {"await", "async_for_iter", "async_with_item"}
# positions whose mention is a TARGET (store / delete context): only an attribute can stand there, not a call
TARGET_POSITIONS = tuple(k for k, v in POSITIONS.items() if "{A}" in v)
# expression wrappers applied at random around a load-context mention (nesting of expression forms)
WRAPS = ["self.sink({E})", "self.sink(k={E})", "len({E})", "({E}, 1)", "[{E}]", "{E}.real", "-{E}", "not {E}", "({E} + 1)", "self.items.get({E})", "(lambda: {E})()",
         "({E} if v else 0)", "str({E}).strip()", "{1: {E}}", "v[{E}]", "f\"{{E}}\"", "self.sink(self.sink({E}))", "print(end={E})",
         # wrappers that hand the bare instance to the same call
         "Base.wrap(self, {E})", "{E}.bind(self)", "self.sink(self, {E})", "register(self, key={E})"]


def method_src(name, stmts, deco=None, is_async=False, first="self"):
    out = []
    if deco:
        out.append("    @%s" % deco)
    out.append("    %sdef %s(%s, v=None):" % ("async " if is_async else "", name, first))
    for pos, expr, attr in stmts:
        I = "        "
        t = POSITIONS[pos].replace("{E}", expr).replace("{A}", attr).replace("{I}", I)
        out.append(I + t)
    out.append("        return None")
    return "\n".join(out)


def gen_class(rng, idx, positions=None):
    nm = rng.randint(0, 6)
    attrs = ["a%d" % i for i in range(rng.randint(1, 5))]
    methods = []
    names = ["m%d" % i for i in range(nm)]
    if names and rng.random() < 0.4:
        # an attribute NAMED like a method of the class, read or written without a call (`Thread(target=self.m1)`, `self.m1 = None`): a common attribute
        # of the methods that mention it, but not a call edge to m1
        attrs += rng.sample(names, min(len(names), rng.randint(1, 2)))
    for i, name in enumerate(names):
        stmts = []
        for _ in range(rng.randint(0, 3)):
            pos = rng.choice(positions or list(POSITIONS))
            if rng.random() < 0.3 and names:
                callee = rng.choice(names + ["helper"])
                # the call through self may itself receive the bare instance, before or after other arguments
                expr, attr = "self.%s(%s)" % (callee, rng.choice(["", "", "", "self", "self, v", "v, self"])), "self.%s" % rng.choice(attrs)
                if pos in TARGET_POSITIONS:
                    expr = attr
            else:
                a = rng.choice(attrs)
                expr, attr = "self.%s" % a, "self.%s" % a
            if pos not in TARGET_POSITIONS + ("fstring", "fstring_spec", "fstring_nested", "fstring_concat_second", "fstring_concat_third", "fstring_concat_first", "fstring_concat_raw_first"):
                while rng.random() < 0.35:
                    w = rng.choice(WRAPS)
                    if '"' in w and '"' in expr:
                        continue
                    expr = w.replace("{E}", expr)
            stmts.append((pos, expr, attr))
        is_async = any(p in ASYNC_ONLY for p, _, _ in stmts) or rng.random() < 0.1
        deco = rng.choice([None, None, None, None, "staticmethod", "classmethod", "property", "functools.wraps(print)",
                           # stacked decorators: the exclusion must not depend on what is stacked above or below, nor on how that decorator is spelled
                           "functools.cache\n    @staticmethod", "staticmethod\n    @functools.cache", "functools.lru_cache(maxsize=None)\n    @classmethod",
                           "classmethod\n    @functools.wraps(print)", "functools.wraps(print)\n    @functools.wraps(len)"])
        first = "self"
        if deco == "staticmethod":
            first = "self"   # still named self on purpose: exclusion must come from the decorator
        if deco == "classmethod":
            first = "self"
        methods.append(method_src(name, stmts, deco, is_async, first))
    body = "\n\n".join(methods) if methods else "    pass"
    if rng.random() < 0.3:
        body = "    shared = 0\n\n" + body
    return "class K%d:\n%s\n" % (idx, body)


def reference(src):
    """CPython's view of every class: instance methods, their self attributes and self calls"""
    out = []
    tree = ast.parse(src)
    for node in ast.walk(tree):
        if not isinstance(node, ast.ClassDef):
            continue
        methods, excluded, order = {}, 0, []
        for st in node.body:
            if not isinstance(st, (ast.FunctionDef, ast.AsyncFunctionDef)):
                continue
            names = []
            for d in st.decorator_list:
                if isinstance(d, ast.Name):
                    names.append(d.id)
                elif isinstance(d, ast.Call) and isinstance(d.func, ast.Name):
                    names.append(d.func.id)
            if "classmethod" in names or "staticmethod" in names:
                excluded += 1
                continue
            attrs, calls = set(), set()
            for n in ast.walk(st):
                if isinstance(n, ast.Attribute) and isinstance(n.value, ast.Name) and n.value.id == "self":
                    attrs.add(n.attr)
                if isinstance(n, ast.Call) and isinstance(n.func, ast.Attribute) and isinstance(n.func.value, ast.Name) and n.func.value.id == "self":
                    calls.add(n.func.attr)
            if st.name in methods:
                order.remove(st.name)
            methods[st.name] = {"attrs": sorted(attrs), "calls": sorted(calls)}   # a later def with the same name replaces the earlier
            order.append(st.name)
        out.append({"name": node.name, "start": node.lineno, "end": node.end_lineno, "methods": methods, "excluded": excluded})
    return out


def only_in_with_item(src, class_line, method, attr):
    """True iff every `self.<attr>` in that method sits in the context expression of a with item"""
    tree = ast.parse(src)
    for node in ast.walk(tree):
        if isinstance(node, ast.ClassDef) and node.lineno == class_line:
            defs = [st for st in node.body if isinstance(st, (ast.FunctionDef, ast.AsyncFunctionDef)) and st.name == method]
            if not defs:
                return False
            st = defs[-1]
            inside = set()
            for w in ast.walk(st):
                if isinstance(w, (ast.With, ast.AsyncWith)):
                    for it in w.items:
                        for n in ast.walk(it.context_expr):
                            inside.add(id(n))
            found = False
            for n in ast.walk(st):
                if isinstance(n, ast.Attribute) and isinstance(n.value, ast.Name) and n.value.id == "self" and n.attr == attr:
                    found = True
                    if id(n) not in inside:
                        return False
            return found
    return False


def lean_line(methods):
    names = sorted(methods)
    idx = {n: i for i, n in enumerate(names)}
    aid = {}
    attrs, calls = [], []
    for n in names:
        a = []
        for x in methods[n]["attrs"]:
            aid.setdefault(x, len(aid))
            a.append(aid[x])
        attrs.append(",".join(map(str, a)) or "-")
        calls.append(",".join(str(idx[c]) for c in methods[n]["calls"] if c in idx) or "-")
    return "lcom %d %s %s" % (len(names), " ".join(attrs), " ".join(calls)), names


def parse_model(out, names):
    k, gs = out.split("|")
    groups = sorted(sorted(names[int(x)] for x in g.split(",")) for g in gs.split(";") if g)
    return int(k), groups


def run(tier, seed, replay=None):
    res = C.Result(PID, tier, seed)
    lost_positions = set(f["signature"]["position"] for f in C.known_findings() if f.get("property") == PID and f.get("status") == "known"
                         and (f.get("signature") or {}).get("kind") == "position")
    usable = [p_ for p_ in POSITIONS if p_ not in lost_positions]
    rng = random.Random(seed * 1000003 + 14)
    ps = C.prove(PID)
    C.proof_coverage(res, ps, "cd /verif/lean && lake build PV.Properties.C14 && #print axioms (audit)")
    res.assumptions += [
        "CPython's ast is the reference for which self attributes / self calls a method contains (any position); the real pipeline's per-method sets "
        "(parser + LCOM walker) are compared with it (parser glue), and the real LCOM4 / groups with the proved model on BOTH sets",
        "an instance method is a def directly in the class body without @classmethod/@staticmethod; `self` is the literal name",
    ]
    nrand = (400 if tier == "quick" else 4000) * (1 if ps.ok else 6)
    srcs, tags = [], []
    # position matrix: one class per position × {attribute access, self call}; expected partition {m_use, m_set} | {m_other}
    for pos in POSITIONS:
        # "call_self": the self-call that links the two methods hands the bare instance to the callee (`self.visit(self)`); run on the positions that are not
        # registered as lost (those are attributed by the attr/call cells)
        for kind in ("attr", "call", "call_self"):
            expr = {"attr": "self.target", "call": "self.m_set()", "call_self": "self.m_set(self)"}[kind]
            if kind != "attr" and pos in TARGET_POSITIONS:
                continue
            if kind == "call_self" and pos in lost_positions:
                continue
            use = method_src("m_use", [(pos, expr, "self.target")], None, pos in ASYNC_ONLY)
            setter = method_src("m_set", [("assign_target", "self.target", "self.target")] if kind == "attr" else [("assign_value", "self.unrelated", "self.unrelated")])
            other = method_src("m_other", [("assign_value", "self.elsewhere", "self.elsewhere")])
            srcs.append("class Matrix:\n%s\n\n%s\n\n%s\n" % (use, setter, other))
            tags.append(("matrix", pos, kind))
    # all set partitions of 4 methods realised through attributes / calls
    def partitions(xs):
        if not xs:
            yield []
            return
        first, rest = xs[0], xs[1:]
        for p in partitions(rest):
            yield [[first]] + p
            for i in range(len(p)):
                yield p[:i] + [[first] + p[i]] + p[i + 1:]
    for p in partitions(["m0", "m1", "m2", "m3"]):
        for via in ("attr", "call"):
            ms = []
            for gi, grp in enumerate(p):
                for j, m in enumerate(grp):
                    if via == "attr":
                        st = [("assign_value", "self.g%d" % gi, "self.g%d" % gi)]
                    else:
                        st = [("assign_value", "self.%s()" % grp[(j + 1) % len(grp)], "self.own_%s" % m)] if len(grp) > 1 else [("assign_value", "self.own_%s" % m, "self.own_%s" % m)]
                    ms.append(method_src(m, st))
            srcs.append("class P:\n%s\n" % "\n\n".join(ms))
            tags.append(("partition", len(p), via))
    # duplicate method names (property getter/setter)
    srcs.append("class Dup:\n    @property\n    def x(self, v=None):\n        return self._a\n\n    @x.setter\n    def x(self, v=None):\n        self._b = v\n\n"
                "    def uses_a(self, v=None):\n        return self._a\n\n    def uses_b(self, v=None):\n        return self._b\n")
    tags.append(("dup-method-name", "", ""))
    # classes that CONTAIN a class with methods (same method names on both levels, attributes shared by name only): the methods of the inner class are not
    # methods of the outer one, and vice versa
    srcs.append("class Pipeline:\n    def __init__(self, v=None):\n        self.stages = []\n\n    def add(self, v=None):\n        self.stages.append(v)\n\n"
                "    def execute(self, v=None):\n        return self.stages\n\n    class Stage:\n        def __init__(self, v=None):\n            self.name = v\n\n"
                "        def run(self, v=None):\n            return self.name\n\n        def transform(self, v=None):\n            return self.other\n")
    tags.append(("nested-class-methods", "", ""))
    srcs.append("class Outer:\n    class Meta:\n        def label(self, v=None):\n            return self.x\n\n    def a(self, v=None):\n        return self.x\n\n"
                "    def b(self, v=None):\n        return self.y\n\n    class Cfg:\n        def a(self, v=None):\n            return self.y\n")
    tags.append(("nested-class-methods", "", ""))
    srcs.append("class Holder:\n    def only(self, v=None):\n        return self.p\n\n    class Inner:\n        def first(self, v=None):\n            return self.p\n\n"
                "        def second(self, v=None):\n            return self.q\n")
    tags.append(("nested-class-methods", "", ""))
    for i in range(nrand):
        # random classes are built from the positions that are NOT registered as lost (each of those is run on its own in the matrix and printed as a
        # KNOWN-FINDING there): a random class mixing a lost position with others could not be attributed
        srcs.append("import functools\n\n" + gen_class(rng, i, positions=usable))
        tags.append(("random", "", ""))
    go = C.harness_batch("lcom", [{"Src": s} for s in srcs])
    refs = []
    for s in srcs:
        try:
            refs.append(reference(s))
        except SyntaxError as e:
            refs.append(None)
    lines, where = [], []
    for si, (g, ref) in enumerate(zip(go, refs)):
        if "classes" not in g or ref is None:
            continue
        for ci, c in enumerate(g["classes"] or []):
            ln, names = lean_line(c["methods"])
            lines.append(ln)
            where.append((si, ci, "impl", names))
            rc = [r for r in ref if r["start"] == c["start"]]
            if rc:
                ln2, names2 = lean_line(rc[0]["methods"])
                lines.append(ln2)
                where.append((si, ci, "ref", names2))
    outs = C.driver_batch(lines) if (lines and os.path.exists(C.driver_path())) else None
    if outs is None:
        ps.ok = False
        ps.broken.append("driver missing")
    model = {}
    if outs:
        for (si, ci, which, names), o in zip(where, outs):
            model[(si, ci, which)] = parse_model(o, names) if "|" in o else None
    hist = {"classes": 0, "lcom_values": {}, "glue_mismatch_positions": {}, "matrix_cells": 0, "bare_self_cells": 0, "random_with_bare_self_sibling": 0}
    nontrivial, diffs = set(), 0
    for si, (g, ref, tag) in enumerate(zip(go, refs, tags)):
        if ref is None:
            res.notes.append("CPython rejected a generated class (%s)" % (tag,))
            continue
        if "classes" not in g:
            res.violation("generated class rejected: %s" % (g.get("parse_error") or g.get("error")), {"source": srcs[si]})
            continue
        for ci, c in enumerate(g["classes"] or []):
            hist["classes"] += 1
            rc = [r for r in ref if r["start"] == c["start"]]
            if not rc:
                res.violation("class at line %d is unknown to CPython's ast" % c["start"], {"source": srcs[si]})
                continue
            rc = rc[0]
            if "lcom4" not in c:
                res.violation("C14: class %s has no LCOM result" % c["name"], {"source": srcs[si]})
                continue
            v = str(min(c["lcom4"], 6))
            hist["lcom_values"][v] = hist["lcom_values"].get(v, 0) + 1
            if c["lcom4"] > 1:
                nontrivial.add(si)
            info = {"source": srcs[si], "tag": list(tag), "reported": {"lcom4": c["lcom4"], "groups": c["groups"]}}
            # (a) algorithm tie: the real LCOM4/groups vs the proved model on the REAL per-method sets
            mi = model.get((si, ci, "impl"))
            got = (c["lcom4"], sorted(sorted(x) for x in (c["groups"] or [])))
            if mi is not None and mi != got:
                diffs += 1
                res.violation("C14: LCOM4/groups %s differ from the components %s of the method graph built from the analyzer's OWN attribute/call sets" % (got, mi),
                              dict(info, impl_sets=c["methods"]))
                continue
            if c["excluded_reported"] != rc["excluded"] or c["total"] != len(rc["methods"]) + rc["excluded"]:
                res.violation("C14: %s: excluded/total methods %s/%s, CPython sees %s excluded and %s distinct instance methods" % (
                    c["name"], c["excluded_reported"], c["total"], rc["excluded"], len(rc["methods"])), info)
                continue
            # (b) end to end: the proved model on CPython's sets
            mr = model.get((si, ci, "ref"))
            if mr is not None and mr != got:
                # find the position that was lost (parser glue)
                lost = []
                for m, sets in rc["methods"].items():
                    have = c["methods"].get(m, {"attrs": [], "calls": []})
                    for a in sets["attrs"]:
                        if a not in have["attrs"]:
                            lost.append((m, "attr", a))
                    for a in sets["calls"]:
                        if a not in have["calls"]:
                            lost.append((m, "call", a))
                if tag[0] == "matrix":
                    sig = {"kind": "position", "position": tag[1], "access": tag[2]}
                elif tag[0] == "dup-method-name":
                    sig = {"kind": "dup-method-name"}
                else:
                    # random class: is every lost access written ONLY as a with-item (the one position known to be lost)?
                    only_with = bool(lost) and all(only_in_with_item(srcs[si], c["start"], m, a) for (m, _, a) in lost)
                    sig = {"kind": "position", "position": "with_item", "access": "attr"} if only_with else {"kind": "lost-access"}
                k = C.classify(PID, sig)
                if k:
                    res.known_finding(k, "(LCOM4 %s, components by CPython's view %s; lost: %s)" % (got[0], mr[0], lost[:2]))
                    hist["glue_mismatch_positions"][tag[1]] = hist["glue_mismatch_positions"].get(tag[1], 0) + 1
                else:
                    res.violation("C14: LCOM4/groups %s but the method graph by CPython's view of the class has components %s (accesses the pipeline lost: %s)" % (got, mr, lost[:4]),
                                  dict(info, signature=sig, lost=lost))
        if tag[0] == "matrix":
            hist["matrix_cells"] += 1
            if tag[1] in BARE_SELF_POSITIONS or tag[2] == "call_self":
                hist["bare_self_cells"] += 1
        elif tag[0] == "random" and BARE_SELF_RE.search(srcs[si]):
            hist["random_with_bare_self_sibling"] += 1
    # ---- several files through the real CLI: the value of a class is the value it has when its file is analysed alone -------------------------------
    import shutil
    import tempfile
    tmpd = tempfile.mkdtemp(prefix="pv_c14_")
    try:
        proj = os.path.join(tmpd, "proj")
        os.makedirs(proj)
        chosen = [si for si, g in enumerate(go) if "classes" in g and g["classes"] and refs[si] is not None][-(60 if tier == "quick" else 300):]
        for k, si in enumerate(chosen):
            with open(os.path.join(proj, "f%03d.py" % k), "w") as f:
                f.write(srcs[si])
        with open(os.path.join(tmpd, "cfg.toml"), "w") as f:
            f.write("[lcom]\nlow_threshold = 2\n")
        rc_, data, err = C.pyscn_json(["proj"], tmpd, extra=["--select", "lcom", "--config", os.path.join(tmpd, "cfg.toml")])
        hist["cli_classes"] = 0
        if chosen and (data is None or not data.get("lcom")):
            res.violation("analyze --select lcom produced no lcom section on the multi-file project: %s" % err[-300:], {"files": len(chosen)})
        elif chosen:
            got = {}
            for c in data["lcom"]["Classes"] or []:
                got[(os.path.basename(c["FilePath"]), c["StartLine"])] = c["Metrics"]["LCOM4"]
            for k, si in enumerate(chosen):
                for c in go[si]["classes"]:
                    if "lcom4" not in c:
                        continue
                    hist["cli_classes"] += 1
                    v = got.get(("f%03d.py" % k, c["start"]))
                    if v != c["lcom4"]:
                        res.violation("C14 (several files, real CLI): class %s of f%03d.py is reported with LCOM4 %s; analysed alone it has %d" % (c["name"], k, v, c["lcom4"]),
                                      {"signature": {"kind": "multi-file"}, "source": srcs[si], "position_in_project": k, "files": len(chosen)})
    finally:
        shutil.rmtree(tmpd, ignore_errors=True)
    if not ps.ok and not any(fi for _, _, fi in res.violations):
        res.violation("proof obligation or tie broken: " + "; ".join(ps.broken)[:1500], {"broken": ps.broken, "note": "no class violating C14 beyond known findings was found"},
                      found_input=False)
    res.coverage.update({
        "evaluations": hist["classes"],
        "distinct_nontrivial": len(nontrivial),
        "rule": "position matrix: %d statement/expression positions (incl. %d where the bare instance is a sibling of the access: explicit base-class calls, "
                "observer registration, displays) × {attribute, self-call, self-call passing the instance}; all 15 set partitions of 4 methods realised through attributes and through "
                "calls; duplicate method names; random classes (0-6 methods, decorators incl. static/class/property, async, calls to missing methods); "
                "non-trivial = class with LCOM4 > 1" % (len(POSITIONS), len(BARE_SELF_POSITIONS)),
        "exhaustive": True,
        "exhaustive_note": "the position matrix and the partitions of 4 methods are run completely on every run",
        "samples": [{"source": srcs[0], "reported": go[0].get("classes", [{}])[0].get("lcom4")}],
        "traces_validated_against_impl": hist["classes"] - diffs,
        "distribution": hist,
    })
    return res.finish("proof")
