"""C07 — tree edit distance is the true minimum edit cost (DESIGN.md §4 C07)."""
import itertools
import json
import os
import random

from . import common as C

PID = "C07"
SHIPPED = ["default", "python", "weighted", "python_bp"]
# + two asymmetric weightings (insert != delete) of the harness: the argument order matters for them
MODELS = SHIPPED + ["weighted_asym", "weighted_asym2"]
POOL = ["FunctionDef(f)", "FunctionDef(g)", "AsyncFunctionDef(f)", "ClassDef(A)", "Arguments", "Arg(x)", "If", "For", "AsyncFor",
        "While", "Return", "BinOp(+)", "UnaryOp", "Call", "Attribute(a)", "List", "Tuple", "Name(x)", "Name(y)", "Constant(1)",
        "Constant(2)", "Assign", "Expr", "Decorator", "AnnAssign", "IfExp", "ListComp", "GeneratorExp", "Call(Field()",
        # labels that contain the separators a key or a cache might be built with
        "x", "x|x", "x|x|x", "Name(a)|Name(b)", "a:b", "a:b:a", "Constant(a)|Constant(b", "p,q", "p", "q,p"]


# trees are nested tuples (label, (children...))
def all_trees(n, labels):
    """all ordered labelled trees with exactly n nodes"""
    if n == 1:
        for l in labels:
            yield (l, ())
        return
    for l in labels:
        for forest in all_forests(n - 1, labels):
            yield (l, forest)


def all_forests(n, labels):
    if n == 0:
        yield ()
        return
    for k in range(1, n + 1):
        for first in all_trees(k, labels):
            for rest in all_forests(n - k, labels):
                yield (first,) + rest


def size(t):
    return 1 + sum(size(c) for c in t[1])


def preorder(t, out):
    out.append({"L": t[0], "A": len(t[1])})
    for c in t[1]:
        preorder(c, out)
    return out


def rand_tree(rng, n, labels, shape="random"):
    if n <= 1:
        return (rng.choice(labels), ())
    rest = n - 1
    kids = []
    if shape == "left":       # deep left spine
        kids = [rand_tree(rng, rest, labels, shape)]
    elif shape == "star":
        kids = [(rng.choice(labels), ()) for _ in range(rest)]
    elif shape == "right":    # caterpillar to the right
        k = min(rest, 2)
        if k == 2 and rest >= 2:
            kids = [(rng.choice(labels), ()), rand_tree(rng, rest - 1, labels, shape)]
        else:
            kids = [rand_tree(rng, rest, labels, shape)]
    else:
        while rest > 0:
            k = rng.randint(1, rest)
            kids.append(rand_tree(rng, k, labels, shape))
            rest -= k
    return (rng.choice(labels), tuple(kids))


def mutate(rng, t, labels):
    """one random edit: relabel / delete a node / insert a node"""
    nodes = []

    def walk(x, path):
        nodes.append(path)
        for i, c in enumerate(x[1]):
            walk(c, path + (i,))
    walk(t, ())
    path = rng.choice(nodes)
    op = rng.randrange(3)

    def apply(x, p):
        if not p:
            if op == 0:
                return [(rng.choice(labels), x[1])]
            if op == 1 and path:      # delete: children move up
                return list(x[1])
            ks = list(x[1])           # insert a node adopting a run of children
            i = rng.randint(0, len(ks))
            j = rng.randint(i, len(ks))
            return [(x[0], tuple(ks[:i] + [(rng.choice(labels), tuple(ks[i:j]))] + ks[j:]))]
        ks = list(x[1])
        ks[p[0]:p[0] + 1] = apply(ks[p[0]], p[1:])
        return [(x[0], tuple(ks))]
    return apply(t, path)[0]


# ---- independent reference: Zhang-Shasha in Python (search aid only) -------------------------
def zs(t1, t2, dele, ins, ren):
    def prep(t):
        labels, lml = [], []

        def rec(x):
            first = None
            for c in x[1]:
                f = rec(c)
                if first is None:
                    first = f
            idx = len(labels)
            labels.append(x[0])
            lml.append(idx if first is None else first)
            return lml[idx]
        rec(t)
        n = len(labels)
        kr = [i for i in range(n) if not any(lml[j] == lml[i] for j in range(i + 1, n))]
        return labels, lml, kr
    A, la, ka = prep(t1)
    B, lb, kb = prep(t2)
    td = [[0] * len(B) for _ in A]
    for i in ka:
        for j in kb:
            li, lj = la[i], lb[j]
            m, n = i - li + 2, j - lj + 2
            fd = [[0] * n for _ in range(m)]
            for x in range(1, m):
                fd[x][0] = fd[x - 1][0] + dele[A[li + x - 1]]
            for y in range(1, n):
                fd[0][y] = fd[0][y - 1] + ins[B[lj + y - 1]]
            for x in range(1, m):
                for y in range(1, n):
                    a, b = li + x - 1, lj + y - 1
                    if la[a] == li and lb[b] == lj:
                        fd[x][y] = min(fd[x - 1][y] + dele[A[a]], fd[x][y - 1] + ins[B[b]], fd[x - 1][y - 1] + ren[(A[a], B[b])])
                        td[a][b] = fd[x][y]
                    else:
                        fd[x][y] = min(fd[x - 1][y] + dele[A[a]], fd[x][y - 1] + ins[B[b]], fd[la[a] - li][lb[b] - lj] + td[a][b])
    return td[len(A) - 1][len(B) - 1]


def to_units(x):
    u = round(x * 1000)
    if abs(x * 1000 - u) > 1e-6:
        raise ValueError("cost %r is not a multiple of 0.001" % x)
    return u


def lean_line(t1, t2, labels, r):
    L = len(labels)
    idx = {l: i for i, l in enumerate(labels)}
    toks = [str(L)] + [str(to_units(x)) for x in r["del"]] + [str(to_units(x)) for x in r["ins"]]
    for row in r["ren"]:
        toks += [str(to_units(x)) for x in row]
    for t in (t1, t2):
        po = preorder(t, [])
        toks.append(str(len(po)))
        for nd in po:
            toks += [str(idx[nd["L"]]), str(nd["A"])]
    return "ted " + " ".join(toks)


def labels_of(*ts):
    s = set()

    def rec(x):
        s.add(x[0])
        for c in x[1]:
            rec(c)
    for t in ts:
        rec(t)
    return sorted(s)


def run(tier, seed, replay=None):
    res = C.Result(PID, tier, seed)
    rng = random.Random(seed * 1000003 + 7)
    ps = C.prove(PID)
    C.proof_coverage(res, ps, "cd /verif/lean && lake build PV.Properties.C07 && #print axioms (audit)")
    res.assumptions += [
        "the model `ted` is the textbook forest-edit-distance recursion; that it equals the minimum over all edit SCRIPTS (Tai) is not re-proved",
        "cost tables (insert/delete per label, rename per label pair) are read from the real cost models per case (external parameters of the model)",
        "exact model comparison only for small trees (the recursion is exponential); larger trees: metamorphic laws on the implementation + an "
        "independent Python Zhang-Shasha (search aid, not proof)",
        "Go's float sums are compared with the exact value within 1e-6 per node",
    ]
    mult = 1 if ps.ok else (8 if tier == "quick" else 40)
    small, large = [], []
    cdir = os.path.join(C.ROOT, "corpus", PID)
    if os.path.isdir(cdir):
        for fn in sorted(os.listdir(cdir)):
            if fn.endswith(".json"):
                d = json.load(open(os.path.join(cdir, fn)))
                small.append((tt(d["t1"]), tt(d["t2"])))
    if replay:
        rp = json.load(open(replay))["replay"]
        if "t1" in rp:
            (small if size(tt(rp["t1"])) + size(tt(rp["t2"])) <= 16 else large).append((tt(rp["t1"]), tt(rp["t2"])))
    # second small alphabet: labels that are concatenations of one another with a separator
    sep3 = ["x", "x|x", "x|x|x"]
    trees_sep = [t for n in (1, 2, 3) for t in all_trees(n, sep3)]
    small += [(rng.choice(trees_sep), rng.choice(trees_sep)) for _ in range(1500 if tier == "quick" else 15000)]
    small += [(t, t) for t in trees_sep if size(t) == 3][: 400]
    two = ["Name(x)", "If"]
    trees4 = [t for n in (1, 2, 3, 4) for t in all_trees(n, two)]
    exhaustive_n = 4
    if tier == "quick" and ps.ok:
        trees3 = [t for t in trees4 if size(t) <= 3]
        small += list(itertools.product(trees3, trees3))                      # complete for ≤3 nodes
        small += [(rng.choice(trees4), rng.choice(trees4)) for _ in range(3000)]
        exhaustive_n = 3
    else:
        small += list(itertools.product(trees4, trees4))                      # complete for ≤4 nodes (10404 pairs)
    nrand = (1500 if tier == "quick" else 15000) * mult
    for _ in range(nrand):
        n = rng.randint(1, 8)
        labels = rng.sample(POOL, rng.randint(2, 6))
        t1 = rand_tree(rng, n, labels, rng.choice(["random", "left", "star", "right"]))
        if rng.random() < 0.6:
            t2 = t1
            for _ in range(rng.randint(0, 3)):
                t2 = mutate(rng, t2, labels)
            if size(t2) > 8:
                t2 = rand_tree(rng, rng.randint(1, 8), labels)
        else:
            t2 = rand_tree(rng, rng.randint(1, 8), labels, rng.choice(["random", "left", "star", "right"]))
        small.append((t1, t2))
    nlarge = (120 if tier == "quick" else 1200) * mult
    maxn = 60 if tier == "quick" else 200
    for _ in range(nlarge):
        n = rng.randint(9, maxn)
        labels = rng.sample(POOL, rng.randint(2, 10))
        t1 = rand_tree(rng, n, labels, rng.choice(["random", "random", "left", "star", "right"]))
        t2 = t1
        if rng.random() < 0.7:
            for _ in range(rng.randint(0, 6)):
                t2 = mutate(rng, t2, labels)
        else:
            t2 = rand_tree(rng, rng.randint(9, maxn), labels)
        large.append((t1, t2))
    pairs = small + large
    reqs = []
    for t1, t2 in pairs:
        reqs.append({"T1": preorder(t1, []), "T2": preorder(t2, []), "Labels": labels_of(t1, t2)})
    go = C.harness_batch("ted", reqs)
    # model on the small pairs, every cost model
    lines, where = [], []
    for pi, ((t1, t2), r) in enumerate(zip(small, go)):
        if "error" in r:
            continue
        for m in MODELS:
            try:
                lines.append(lean_line(t1, t2, labels_of(t1, t2), r[m]))
                where.append((pi, m))
            except ValueError as e:
                res.violation("cost model %s: %s" % (m, e), {"t1": t1, "t2": t2})
    model = C.driver_batch(lines) if (lines and os.path.exists(C.driver_path())) else None
    if model is None:
        ps.ok = False
        ps.broken.append("driver missing: correspondence not run")
    diffs, nontrivial = 0, set()
    hist = {"small_pairs": len(small), "large_pairs": len(large), "d>0": 0, "asymmetric_cost_tables": 0, "max_nodes": 0}

    def report(pi, m, what, extra=None):
        t1, t2 = pairs[pi]
        res.violation("C07 fails (%s cost model, |T1|=%d, |T2|=%d): %s" % (m, size(t1), size(t2), what),
                      dict({"t1": t1, "t2": t2, "cost_model": m, "impl": go[pi][m]}, **(extra or {})))

    if model is not None:
        for (pi, m), out in zip(where, model):
            r = go[pi][m]
            fields = out.split()
            d, sn, sd, n1, n2 = (int(x) for x in fields[:5])
            if len(fields) >= 8:
                hist["mirror_compared"] = hist.get("mirror_compared", 0) + 1
                # the verified Zhang-Shasha mirror must give the proved value, and the REAL tree preparation must equal the mirror's
                if int(fields[5]) != d:
                    diffs += 1
                    report(pi, m, "Zhang-Shasha mirror %s differs from the specification %s (contradicts C07_zs_correct: stale driver?)" % (fields[5], d), {"model": out})
                for which, fld in (("prep1", fields[6]), ("prep2", fields[7])):
                    pr = go[pi].get(which)
                    if pr is not None:
                        impl = ",".join(str(x) for x in pr["lml"]) + "/" + ",".join(str(x) for x in pr["keyroots"])
                        if impl != fld:
                            diffs += 1
                            report(pi, m, "tree preparation (left-most leaves / key roots) of apted_tree.go `%s` differs from the verified mirror's `%s`" % (impl, fld), {"model": out})
            tol = 1e-6 * (n1 + n2)
            if abs(r["d12"] * 1000 - d) > tol:
                diffs += 1
                report(pi, m, "implementation distance %.6f, minimum edit cost (model) %.3f" % (r["d12"], d / 1000.0), {"model": out})
            elif abs(r["s12"] - sn / sd) > 1e-9 or r["n1"] != n1 or r["n2"] != n2:
                diffs += 1
                report(pi, m, "similarity %.9f, model %d/%d" % (r["s12"], sn, sd), {"model": out})
    # metamorphic laws + independent reference on all pairs
    for pi, ((t1, t2), r) in enumerate(zip(pairs, go)):
        if "error" in r:
            res.violation("harness: " + r["error"], {"t1": t1, "t2": t2})
            continue
        labels = labels_of(t1, t2)
        hist["max_nodes"] = max(hist["max_nodes"], size(t1), size(t2))
        for m in MODELS:
            x = r[m]
            if x["d12"] > 0:
                hist["d>0"] += 1
                nontrivial.add((pi, m))
            dele = dict(zip(labels, x["del"]))
            ins = dict(zip(labels, x["ins"]))
            ren = {(a, b): x["ren"][i][j] for i, a in enumerate(labels) for j, b in enumerate(labels)}
            sym = all(abs(dele[l] - ins[l]) < 1e-12 for l in labels) and all(abs(ren[(a, b)] - ren[(b, a)]) < 1e-12 for a in labels for b in labels)
            if not sym:
                hist["asymmetric_cost_tables"] += 1
            tol = 1e-9 * (x["n1"] + x["n2"] + 1)
            if x.get("attached_vs_detached"):
                report(pi, m, "a subtree compared IN PLACE (it has a parent and siblings) differs from a detached copy of itself: %s" % x["attached_vs_detached"])
            elif abs(x["d12_again"] - x["d12"]) > tol:
                report(pi, m, "history dependence: d(T1,T2)=%r, and %r when asked again after an inner subtree of T1 was compared on its own (d_sub=%r)"
                       % (x["d12"], x["d12_again"], x["d_sub"]), {"session": ["d(T1,T2)", "d(T2,T1)", "d(T1,T1)", "d(sub(T1),T2')", "d(T1,T2)"]})
            elif abs(x["d_copy"]) > tol and all(abs(ren[(a, a)]) < 1e-12 for a in labels):
                report(pi, m, "distance of a tree to a fresh copy of itself is %r (after its subtree had been compared on its own)" % x["d_copy"])
            elif abs(x["d11"]) > tol:
                report(pi, m, "distance of a tree to itself is %r" % x["d11"])
            elif abs(x["s11"] - 1.0) > 1e-12:
                report(pi, m, "similarity of a tree to itself is %r" % x["s11"])
            elif sym and abs(x["d12"] - x["d21"]) > tol:
                report(pi, m, "asymmetric: d(T1,T2)=%r d(T2,T1)=%r under a symmetric cost model" % (x["d12"], x["d21"]))
            elif not (0.0 <= x["s12"] <= 1.0):
                report(pi, m, "similarity %r outside [0,1]" % x["s12"])
            else:
                def tot(t, tab):
                    return tab[t[0]] + sum(tot(c, tab) for c in t[1])
                ub = tot(t1, dele) + tot(t2, ins)
                if x["d12"] > ub + tol:
                    report(pi, m, "distance %r exceeds delete-all + insert-all %r" % (x["d12"], ub))
                elif pi >= len(small) and size(t1) * size(t2) <= 2500:
                    ref = zs(t1, t2, dele, ins, ren)
                    if abs(ref - x["d12"]) > 1e-6 * (x["n1"] + x["n2"]):
                        report(pi, m, "implementation %r, independent Zhang-Shasha reference %r" % (x["d12"], ref))
    # --- true minimum over edit SCRIPTS: a script may relabel a node and then delete it, so for a cost model that violates the
    # triangle inequality the minimum script cost is the mapping distance under the METRIC CLOSURE of the costs (over the label pool:
    # an upper bound of the true minimum).  If that is strictly below pyscn's distance, pyscn does not report the minimum.
    nclos = 200 if tier == "quick" else 2000
    clos_pairs = []
    for _ in range(nclos):
        labels = rng.sample(POOL, rng.randint(2, 5))
        t1 = rand_tree(rng, rng.randint(1, 6), labels)
        t2 = mutate(rng, t1, labels) if rng.random() < 0.7 else rand_tree(rng, rng.randint(1, 6), labels)
        clos_pairs.append((t1, t2))
    clos_pairs.append((("Name(x)", (("FunctionDef(f)", ()),)), ("Name(x)", ())))
    cgo = C.harness_batch("ted", [{"T1": preorder(a, []), "T2": preorder(b, []), "Labels": sorted(set(POOL) | set(labels_of(a, b)))} for a, b in clos_pairs])
    hist["closure_pairs"] = len(clos_pairs)
    hist["non_metric_hits"] = {}
    for (t1, t2), r in zip(clos_pairs, cgo):
        if "error" in r:
            continue
        labels = sorted(set(POOL) | set(labels_of(t1, t2)))
        for m in SHIPPED:      # the metric-closure question is about the cost models pyscn ships, not about the harness's own weightings
            x = r[m]
            L = len(labels)
            ren = [row[:] for row in x["ren"]]
            for k in range(L):
                for i in range(L):
                    for j in range(L):
                        if ren[i][k] + ren[k][j] < ren[i][j]:
                            ren[i][j] = ren[i][k] + ren[k][j]
            dele = [min(ren[i][j] + x["del"][j] for j in range(L)) for i in range(L)]
            ins = [min(x["ins"][i] + ren[i][j] for i in range(L)) for j in range(L)]
            dd = dict(zip(labels, dele))
            ii = dict(zip(labels, ins))
            rr = {(a, b): ren[i][j] for i, a in enumerate(labels) for j, b in enumerate(labels)}
            best = zs(t1, t2, dd, ii, rr)
            if best < x["d12"] - 1e-6:
                sig = {"kind": "non-metric-cost-model", "cost_model": m}
                k = C.classify(PID, sig)
                hist["non_metric_hits"][m] = hist["non_metric_hits"].get(m, 0) + 1
                if k:
                    res.known_finding(k, "(e.g. %s vs %s under `%s`: pyscn %.3f, an edit script of cost %.3f exists)" % (show(t1), show(t2), m, x["d12"], best))
                else:
                    res.violation("C07 fails (%s cost model): pyscn reports distance %.3f but an edit script of cost %.3f exists (relabel-then-delete "
                                  "is cheaper than delete: the cost model violates the triangle inequality)" % (m, x["d12"], best),
                                  {"signature": sig, "t1": t1, "t2": t2, "cost_model": m, "impl": x["d12"], "script_cost_upper_bound": best})
    if not ps.ok and not any(f for _, _, f in res.violations):
        res.violation("proof obligation or tie broken: " + "; ".join(ps.broken)[:1500],
                      {"broken": ps.broken, "note": "no tree pair on which the implementation violates C07 was found in %d pairs" % len(pairs)},
                      found_input=False)
    res.coverage.update({
        "evaluations": len(pairs) * len(MODELS),
        "distinct_nontrivial": len(nontrivial),
        "rule": "all ordered pairs of ordered trees with ≤%d nodes over 2 labels; random pairs ≤8 nodes over realistic label pools (exact "
                "comparison with the proved model `ted`, 4 cost models); random pairs up to %d nodes incl. spines/stars/caterpillars and "
                "1-6 random edits (metamorphic laws + independent reference); non-trivial = (pair, cost model) with distance > 0" % (exhaustive_n, maxn),
        "exhaustive": True,
        "exhaustive_note": "complete for trees with ≤%d nodes over a 2-letter alphabet; sampled beyond" % exhaustive_n,
        "samples": [{"t1": pairs[len(small) - 1][0], "t2": pairs[len(small) - 1][1], "python": go[len(small) - 1].get("python", {}).get("d12")}],
        "traces_validated_against_impl": (len(where) - diffs) if model is not None else 0,
        "distribution": hist,
    })
    return res.finish("proof")


def show(t):
    return t[0] + ("(" + ",".join(show(c) for c in t[1]) + ")" if t[1] else "")


def tt(x):
    """JSON list form back to nested tuples"""
    return (x[0], tuple(tt(c) for c in x[1]))
