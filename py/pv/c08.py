"""C08 — clone reports: verbatim copies are found, every reported pair is justified, order does not matter (DESIGN.md §4 C08)."""
import json
import math
import os
import random
import shutil
import tempfile
import time

from . import common as C
from . import cloneeng as E

PID = "C08"


def config_from(rng, sims, sizes, lines):
    """a threshold configuration accepted by validation, biased to sit exactly on observed similarities"""
    cand = set([1.0, 0.95, 0.9, 0.85, 0.8, 0.75, 0.7, 0.65, 0.6, 0.5, 0.3, 0.1, 0.0])
    for s in sims:
        cand.update([s, math.nextafter(s, 2.0), math.nextafter(s, -1.0)])
    cand = sorted(x for x in cand if 0.0 <= x <= 1.0)
    while True:
        ts = sorted(rng.sample(cand, 4), reverse=True)
        if ts[0] > ts[1] > ts[2] > ts[3]:
            break
    req = {"T1": ts[0], "T2": ts[1], "T3": ts[2], "T4": ts[3]}
    req["Sim"] = rng.choice(cand + [0.0, ts[3], ts[2]])
    if rng.random() < 0.5:
        req["MinSim"] = rng.choice(cand)
    if rng.random() < 0.5:
        req["MaxSim"] = rng.choice([c for c in cand if c >= req.get("MinSim", 0.0)])
    req["Types"] = sorted(rng.sample([1, 2, 3, 4], rng.randint(1, 4)))
    req["MinNodes"] = rng.choice([1, 5, 10] + [s + d for s in sizes[:6] for d in (0, 1)])
    req["MinLines"] = rng.choice([1, 3, 5] + [s + d for s in lines[:6] for d in (0, 1)])
    req["MaxDist"] = rng.choice([0.0, 50.0, 50.0, 5.0, 1.0])
    req["DFA"] = rng.random() < 0.5
    return req


def floor_large(req, tag):
    """projects with a large fragment: the statements inside it (hundreds of blocks of 2-4 lines) stay below the minimum size, otherwise every one of them
    is a fragment and the number of pairs explodes (a bound on the cost of the run, not on the property)"""
    if tag.startswith("L"):
        req["MinLines"] = max(req["MinLines"], 5)
    return req


def check_case(res, hist, pr, req, tag, g, lean_out, nontrivial):
    """all oracles on one harness response (+ the model's answer for it)"""
    cfg, frags = g["cfg"], g["frags"]
    replay = {"files": pr.sources(), "req": req, "tag": tag}
    if g.get("invalid"):
        res.violation("generated configuration rejected by validation: %s" % g["invalid"], replay)
        return
    if g["parse_errors"]:
        res.violation("generated file rejected by the parser: %s" % g["parse_errors"], replay)
        return
    f = E.hex2f
    n = len(frags)
    hist["fragments"] += n
    raw = {(r["I"], r["J"]): r for r in g.get("raw") or []}
    # ---- hypotheses of the theorems, checked on the real measurement --------------------------------------------------------
    for (i, j), r in raw.items():
        if i < j:
            q = raw[(j, i)]
            if r["OK"] and frags[i]["Type"].startswith("Async") != frags[j]["Type"].startswith("Async"):
                hist["sync_async_pairs_measured"] += 1
            if (r["OK"], r["Sim"], r["Dist"]) != (q["OK"], q["Sim"], q["Dist"]):
                res.violation("C08 order: the measurement of a pair depends on which fragment comes first: (%d,%d) -> %s, (%d,%d) -> %s"
                              % (i, j, (r["OK"], f(r["Sim"]), f(r["Dist"])), j, i, (q["OK"], f(q["Sim"]), f(q["Dist"]))),
                              dict(replay, signature={"kind": "asymmetric-measure"}, frag_a=frags[i], frag_b=frags[j]))
                return
    # ---- model correspondence --------------------------------------------------------------------------------------------
    std_u = E.pairs_of(g["std"])
    if lean_out is not None:
        d, r = lean_out.split(" | ")
        model_d, model_r = E.parse_pairs(d[2:]), E.parse_pairs(r[2:])
        if model_d != std_u:
            res.violation("correspondence (clone pairs): exhaustive detection differs from the model: impl-only %s, model-only %s"
                          % (sorted(set(std_u) - set(model_d))[:4], sorted(set(model_d) - set(std_u))[:4]),
                          dict(replay, correspondence="PV.Clone.standard vs detectClonePairsStandardWithContext"), found_input=False)
        rep = g["report_off"]
        if len(g["std"]) <= cfg["MaxClonePairs"] and not rep["use_lsh"] and n <= cfg["BatchSizeThreshold"]:
            key = {(fr["Path"], fr["S"], fr["E"]): k for k, fr in enumerate(frags)}
            impl_r = sorted("%d:%d:%d:%s:%s" % (key[(p["P1"], p["S1"], p["E1"])], key[(p["P2"], p["S2"], p["E2"])], p["Type"], p["SimB"], p["DistB"]) for p in rep["reported"])
            if impl_r != model_r:
                res.violation("correspondence (clone report): reported pairs differ from the model: impl-only %s, model-only %s"
                              % (sorted(set(impl_r) - set(model_r))[:4], sorted(set(model_r) - set(impl_r))[:4]),
                              dict(replay, correspondence="PV.Clone.report vs CloneService (detect + filterClonePairs)"), found_input=False)
    # ---- every reported pair is justified -----------------------------------------------------------------------------------
    t4, sim_thr = f(cfg["T4"]), f(cfg["Sim"])
    eff = sim_thr if sim_thr > 0 else t4
    lo, hi = f(cfg["MinSim"]), f(cfg["MaxSim"])
    byloc = {}
    for fr in frags:
        byloc[(fr["Path"], fr["S"], fr["E"])] = fr
    rep = g["report_cfg"]["reported"]
    hist["reported_pairs"] += len(rep)
    if rep:
        nontrivial.add(tag)
    for p in rep:
        bad = []
        if p["Sim"] < eff:
            bad.append("similarity %r below the reporting threshold %r" % (p["Sim"], eff))
        if p["Sim"] < lo or p["Sim"] > hi:
            bad.append("similarity %r outside the requested range [%r,%r]" % (p["Sim"], lo, hi))
        if p["Type"] != E.band(cfg, p["Sim"]):
            bad.append("type %d does not match the band of similarity %r (bands %r)" % (p["Type"], p["Sim"], [f(cfg[k]) for k in ("T1", "T2", "T3", "T4")]))
        if p["Type"] not in cfg["Types"]:
            bad.append("type %d is not enabled (%s)" % (p["Type"], cfg["Types"]))
        a, b = byloc.get((p["P1"], p["S1"], p["E1"])), byloc.get((p["P2"], p["S2"], p["E2"]))
        if a is None or b is None:
            bad.append("a reported fragment is not one of the extracted fragments")
        else:
            for x in (a, b):
                if x["Size"] < cfg["MinNodes"] or x["Lines"] < cfg["MinLines"]:
                    bad.append("fragment %s:%d-%d (size %d, %d lines) is below the minimum size (%d nodes, %d lines)"
                               % (x["Path"], x["S"], x["E"], x["Size"], x["Lines"], cfg["MinNodes"], cfg["MinLines"]))
        if p["P1"] == p["P2"] and not (p["E1"] < p["S2"] or p["E2"] < p["S1"]):
            bad.append("the two fragments overlap in %s: %d-%d and %d-%d" % (p["P1"], p["S1"], p["E1"], p["S2"], p["E2"]))
        if f(cfg["MaxDist"]) > 0 and p["Dist"] > f(cfg["MaxDist"]):
            bad.append("distance %r above max_edit_distance" % p["Dist"])
        for what in bad:
            res.violation("C08 justified: reported pair %s:%d-%d / %s:%d-%d: %s" % (p["P1"], p["S1"], p["E1"], p["P2"], p["S2"], p["E2"], what),
                          dict(replay, signature={"kind": "unjustified", "what": what.split(" ")[0]}, pair=p))
    # ---- verbatim copies ------------------------------------------------------------------------------------------------
    if 1 in cfg["Types"] and lo <= 1.0 <= hi and len(g["std"]) < cfg["MaxClonePairs"]:
        repset = {}
        for p in rep:
            repset[frozenset([(p["P1"], p["S1"]), (p["P2"], p["S2"])])] = p
        for (pa, ka), (pb, kb) in pr.planted:
            sa, sb = pr.fn_span(pa, ka), pr.fn_span(pb, kb)
            fa = [x for x in frags if x["Path"] == pa and x["S"] == sa[0] and x["Type"] in ("FunctionDef", "ClassDef")]
            fb = [x for x in frags if x["Path"] == pb and x["S"] == sb[0] and x["Type"] in ("FunctionDef", "ClassDef")]
            if not fa or not fb:
                # below the configured minimum size nothing is required — but the two copies have the same tree: when one of them IS a fragment and the
                # other, placed under an except / finally clause, is not, the placement hid it
                pl = [pr.offset.get(k_, (0, None))[1] for k_ in ((pa, ka), (pb, kb))]
                missing = (pb, sb) if fa else (pa, sa)
                # (the copies have the same tree, hence the same node count; their LINE counts differ when one rendering carries comment / blank lines)
                if (fa or fb) and any(pl) and missing[1][1] - missing[1][0] + 1 >= cfg["MinLines"]:
                    hist["placement_checked"] = hist.get("placement_checked", 0) + 1
                    res.violation("C08 verbatim: the copy at %s:%d placed under `%s` is not extracted as a fragment although the same definition at %s is (so the pair cannot be reported)"
                                  % (missing[0], missing[1][0], [x for x in pl if x][0], "%s:%d" % ((pa, sa[0]) if fa else (pb, sb[0]))),
                                  dict(replay, signature={"kind": "verbatim-not-a-fragment", "placement": [x for x in pl if x][0]}))
                continue
            hist["planted_checked"] += 1
            if pr.offset.get((pa, ka)) or pr.offset.get((pb, kb)):
                hist["placement_checked"] = hist.get("placement_checked", 0) + 1
            big = max(fa[0]["Size"], fb[0]["Size"])
            hist["planted_by_tree_size"]["<=500" if big <= 500 else "501-2000" if big <= 2000 else ">2000"] += 1
            if fa[0]["Type"] == "ClassDef":
                hist["planted_classes_checked"] += 1
            p = repset.get(frozenset([(pa, sa[0]), (pb, sb[0])]))
            heavy = max(fa[0]["Lines"], fb[0]["Lines"]) > 2 * min(fa[0]["Lines"], fb[0]["Lines"])
            sig = {"kind": "verbatim-missed", "line_ratio_over_2": heavy}
            if p is None:
                k = C.classify(PID, sig)
                if k:
                    res.known_finding(k, "(%s:%d vs %s:%d, %d vs %d lines)" % (pa, sa[0], pb, sb[0], fa[0]["Lines"], fb[0]["Lines"]))
                else:
                    res.violation("C08 verbatim: the copy %s:%d-%d of %s:%d-%d (same code up to whitespace/comments, %d nodes) is not reported"
                                  % (pb, fb[0]["S"], fb[0]["E"], pa, fa[0]["S"], fa[0]["E"], fa[0]["Size"]), dict(replay, signature=sig, a=fa[0], b=fb[0]))
            elif p["Sim"] != 1.0 or p["Dist"] != 0.0 or p["Type"] != 1:
                res.violation("C08 verbatim: the copy %s:%d of %s:%d is reported with similarity %r, distance %r, type %d (expected 1.0, 0, Type-1)"
                              % (pb, sb[0], pa, sa[0], p["Sim"], p["Dist"], p["Type"]), dict(replay, signature={"kind": "verbatim-wrong-values"}, pair=p))


def unordered_report(g):
    out = []
    for p in g["report_cfg"]["reported"]:
        a, b = (p["P1"], p["S1"], p["E1"]), (p["P2"], p["S2"], p["E2"])
        if b < a:
            a, b = b, a
        out.append((a, b, p["SimB"], p["DistB"], p["Type"]))
    return sorted(out)


def run(tier, seed, replay=None):
    res = C.Result(PID, tier, seed)
    rng = random.Random(seed * 1000003 + 8)
    ps = C.prove(PID)
    C.proof_coverage(res, ps, "cd /verif/lean && lake build PV.Properties.C08 && #print axioms (audit)")
    res.assumptions += [
        "the measurement of a pair (size/line pre-filters, Jaccard pre-filter, classifier gate, APTED similarity and distance) is a parameter of the model; "
        "its symmetry is a hypothesis of C08_order and is checked on the real code for every ordered pair of every generated project; identity (distance 0, "
        "similarity 1 for identical trees) is C07's theorem and is checked here on planted copies",
        "verbatim = the same function (or class) text up to blank lines, comment lines, trailing comments and indentation width, same name, placed in the same file, another file or another directory",
        "for verbatim copies of large fragments (more than 500 nodes) the property's own clause is checked on the report (pair present, similarity 1.0, distance 0, Type-1) together with "
        "all other oracles; their distance is not recomputed by the exact model (the measurement is a parameter of the clone model)",
    ]
    mult = 1 if ps.ok else 6
    nproj = (40 if tier == "quick" else 400) * mult
    hist = {"projects": 0, "configs": 0, "fragments": 0, "reported_pairs": 0, "planted_checked": 0, "order_variants": 0, "cli_runs": 0,
            "async_twins": 0, "projects_with_async_twins": 0, "sync_async_pairs_measured": 0, "large_projects": 0, "large_projects_dropped": 0,
            "planted_by_tree_size": {"<=500": 0, "501-2000": 0, ">2000": 0}, "planted_classes_checked": 0, "regenerated_over_quick_cap": 0}
    phases = {}
    t_last = [res.t0]

    def phase(name):
        now = time.time()
        phases[name] = round(phases.get(name, 0.0) + now - t_last[0], 1)
        t_last[0] = now
    phase("prove")
    nontrivial = set()
    cases = []      # (project, req, tag)
    projects = []
    if replay:
        rp = json.load(open(replay))["replay"]
        if "files" in rp:
            pr = E.Project()
            pr.files = [(f["Path"], [f["Src"].split("\n")]) for f in rp["files"]]
            cases.append((pr, rp.get("req", {}), "replay"))
    # quick tier: the cost of one project grows with the fourth power of its text (pairs x tree sizes) and a handful of the largest ones used to take most
    # of the run; they are regenerated (same generator, same dimensions) until the text is below a cap. The thorough tier has no cap.
    cap = 9000 if tier == "quick" else None
    twin_projects = []
    for i in range(nproj):
        for attempt in range(40):
            pr = E.gen_project(rng, heavy_noise=(i % 10 == 9))
            # every third project: sync/async twins (a function and its coroutine variant: `async def`, `async for`, `async with`)
            tw = E.add_async_twins(pr, rng, rng.choice([1, 2])) if i % 3 == 1 else 0
            if cap is None or sum(len(f["Src"]) for f in pr.sources()) <= cap:
                break
            hist["regenerated_over_quick_cap"] += 1
        hist["async_twins"] += tw
        if tw:
            twin_projects.append(pr)
        hist["projects_with_async_twins"] += 1 if tw else 0
        projects.append(pr)
        cases.append((pr, {}, "p%d/default" % i))
    # LARGE fragments: a function or class whose compared tree has more than 500 nodes (the detector measures such pairs on a path of its own, and above
    # 2000 nodes on a third one), verbatim in two or three places. The exact regular path is far too slow at that size (minutes per pair at 500 nodes), so
    # a probe first measures the size of the large fragment alone (one fragment, nothing to compare) and projects whose large fragment is not above 500
    # nodes are dropped. What is demanded of these pairs is what the property states for verbatim copies, through the same oracles as everywhere else.
    large = []
    for k in range((4 if tier == "quick" else 24) * mult):
        bucket = k % 4
        target = rng.randint(540, 640) if bucket in (0, 1) else rng.randint(700, 1700) if bucket == 2 else rng.randint(2100, 2500)
        large.append(E.gen_large_project(rng, target, as_class=(bucket == 1)))
    probe = E.harness_pool("clones", [{"Files": [{"Path": "probe.py", "Src": "\n".join(max((fn for _, fns in pr.files for fn in fns), key=len)) + "\n"}],
                                       "Req": {}, "Skip": ["auto", "report_off"]} for pr in large], jobs=14)
    for k, (pr, g) in enumerate(zip(large, probe)):
        top = max([x["Size"] for x in g.get("frags", [])] or [0])
        if top <= 500:
            hist["large_projects_dropped"] += 1
            continue
        hist["large_projects"] += 1
        projects.append(pr)
        cases.append((pr, {}, "L%d/default" % k))
    phase("generate")

    def weight(c):
        return sum(len(f["Src"]) for f in c[0].sources()) ** 2

    def full(cs):
        # `auto` is not read by this property; the service sequence without LSH is run once when the configured sequence does not use LSH either
        return E.harness_pool("clones", [{"Files": pr.sources(), "Req": req, "Raw": True, "Skip": ["auto"], "ShareReport": True} for pr, req, _ in cs],
                              jobs=14, weights=[weight(c) for c in cs])
    first = full(cases)
    phase("round1")
    # second round: configurations sitting on the observed similarities
    cases2 = []
    for (pr, _, tag), g in zip(cases, first):
        if "frags" not in g:
            continue
        sims = sorted(set(E.hex2f(r["Sim"]) for r in g["raw"] if r["OK"]))
        sizes = sorted(set(x["Size"] for x in g["frags"]))
        lines = sorted(set(x["Lines"] for x in g["frags"]))
        for k in range(2 if tier == "quick" else 4):
            cases2.append((pr, floor_large(config_from(rng, sims, sizes, lines), tag), tag.split("/")[0] + "/cfg%d" % k))
    second = full(cases2)
    phase("round2")
    allc = list(zip(cases, first)) + list(zip(cases2, second))
    lines_ = []
    for (pr, req, tag), g in allc:
        if "error" in g:
            res.violation("harness error: %s" % g["error"], {"files": pr.sources(), "req": req})
            continue
        lines_.append(" ".join(E.driver_prefix("std", g)))
    lean = C.driver_batch(lines_) if (lines_ and os.path.exists(C.driver_path())) else None
    phase("lean_driver")
    if lean is None:
        ps.ok = False
        ps.broken.append("driver missing")
    k = 0
    for (pr, req, tag), g in allc:
        if "error" in g:
            continue
        hist["configs"] += 1
        check_case(res, hist, pr, req, tag, g, lean[k] if lean else None, nontrivial)
        k += 1
    hist["projects"] = len(projects)
    phase("oracles")
    # ---- third round: the SAME oracles on the batched comparison path (the path the service takes above 50 fragments; here the threshold is lowered so that
    # small projects take it) — a pair must be justified whichever path produced it ----------------------------------------------------------------------
    cases3 = []
    r1 = list(zip(cases, first))
    for (pr, _, tag), g in r1[: (40 if tier == "quick" else 400)] + [x for x in r1[(40 if tier == "quick" else 400):] if x[0][2].startswith("L")]:
        if "frags" not in g or len(g["frags"]) < 4:
            continue
        sims = sorted(set(E.hex2f(r["Sim"]) for r in g["raw"] if r["OK"]))
        req3 = floor_large(config_from(rng, sims, sorted(set(x["Size"] for x in g["frags"])), sorted(set(x["Lines"] for x in g["frags"]))), tag)
        if rng.random() < 0.7 and len(sims) > 1:
            # reporting threshold strictly inside the band structure: above the lowest type threshold
            req3["Sim"] = rng.choice([x for x in sims if x > req3["T4"]] or [req3["T1"]])
        cases3.append((pr, req3, tag.split("/")[0] + "/batched"))
    third = E.harness_pool("clones", [{"Files": pr.sources(), "Req": req, "Raw": False, "BatchThreshold": 2, "BatchSizes": [], "Skip": ["auto", "report_off"]}
                                      for pr, req, _ in cases3], jobs=14, weights=[weight(c) for c in cases3])
    hist["batched_path_configs"] = 0
    for (pr, req, tag), g in zip(cases3, third):
        if "error" in g or "frags" not in g:
            continue
        hist["configs"] += 1
        hist["batched_path_configs"] += 1
        check_case(res, hist, pr, req, tag, g, None, nontrivial)
    phase("round3_batched")
    # ---- order of files / fragments ----------------------------------------------------------------------------------------
    perm_cases, perm_ref = [], []
    for (pr, req, tag), g in allc[: ((60 if tier == "quick" else 600) + hist["large_projects"])]:
        if "frags" not in g or len(g["std"]) >= g["cfg"]["MaxClonePairs"]:
            continue
        src = pr.sources()
        for variant in range(2):
            s2 = list(src)
            rng.shuffle(s2)
            perm_cases.append({"Files": s2, "Req": req, "Reverse": variant == 1, "Skip": ["std", "auto", "report_off"]})     # only report_cfg is read
            perm_ref.append((pr, req, tag, g))
    perm_out = E.harness_pool("clones", perm_cases, jobs=14, weights=[sum(len(f["Src"]) for f in c["Files"]) ** 2 for c in perm_cases])
    phase("order")
    for inp, (pr, req, tag, g), h in zip(perm_cases, perm_ref, perm_out):
        hist["order_variants"] += 1
        if "frags" not in h:
            res.violation("harness error on a permuted project: %s" % h.get("error"), {"files": inp["Files"], "req": req})
            continue
        a, b = unordered_report(g), unordered_report(h)
        if a != b:
            res.violation("C08 order: the set of reported pairs changes with the order of files/fragments: only in the original order %s, only in the permuted order %s"
                          % ([x for x in a if x not in b][:3], [x for x in b if x not in a][:3]),
                          {"signature": {"kind": "order"}, "files": pr.sources(), "permuted": inp["Files"], "reverse": inp["Reverse"], "req": req})
    # ---- the real CLI on a few projects: same pairs as in process, file order by renaming -------------------------------------
    tmp = tempfile.mkdtemp(prefix="pv_c08_")
    try:
        ncli = 4 if tier == "quick" else 40
        # a few ordinary projects, plus one with a sync/async twin and one with a large fragment
        cli = allc[:ncli] + [x for x in r1[ncli:] if x[0][0] in twin_projects][:1] + [x for x in r1[ncli:] if x[0][2].startswith("L")][:1]
        for ci, ((pr, req, tag), g) in enumerate(cli):
            if "frags" not in g:
                continue
            outs = []
            for variant in range(2):
                root = os.path.join(tmp, "c%d_%d" % (ci, variant))
                proj = os.path.join(root, "proj")
                ren = {}
                for f in pr.sources():
                    # variant 1 reverses the alphabetical order of directories and files
                    parts = f["Path"].split("/")
                    if variant == 1:
                        parts = [("z%02d_" % (25 - (ord(x[0]) - 97))) + x for x in parts]
                    p2 = "/".join(parts)
                    ren[p2] = f["Path"]
                    os.makedirs(os.path.dirname(os.path.join(proj, p2)) or proj, exist_ok=True)
                    with open(os.path.join(proj, p2), "w") as fh:
                        fh.write(f["Src"])
                with open(os.path.join(root, "cfg.toml"), "w") as fh:
                    fh.write("[clones]\nmin_lines = %d\nmin_nodes = %d\n" % (g["cfg"]["MinLines"], g["cfg"]["MinNodes"]))
                rc, data, err = C.pyscn_json(["proj"], root, extra=["--select", "clones", "--config", os.path.join(root, "cfg.toml")])
                hist["cli_runs"] += 1
                if data is None or not data.get("clone"):
                    res.violation("analyze --select clones produced no clone section: %s" % err[-300:], {"files": pr.sources()})
                    outs.append(None)
                    continue
                got = []
                for p in data["clone"].get("clone_pairs") or []:
                    a = (ren[os.path.relpath(p["clone1"]["location"]["file_path"], proj) if os.path.isabs(p["clone1"]["location"]["file_path"]) else p["clone1"]["location"]["file_path"].split("proj/", 1)[-1]],
                         p["clone1"]["location"]["start_line"], p["clone1"]["location"]["end_line"])
                    b = (ren[os.path.relpath(p["clone2"]["location"]["file_path"], proj) if os.path.isabs(p["clone2"]["location"]["file_path"]) else p["clone2"]["location"]["file_path"].split("proj/", 1)[-1]],
                         p["clone2"]["location"]["start_line"], p["clone2"]["location"]["end_line"])
                    if b < a:
                        a, b = b, a
                    got.append((a, b, E.f2hex(p["similarity"]), p["type"]))
                outs.append(sorted(got))
            if outs[0] is not None and outs[1] is not None and outs[0] != outs[1]:
                res.violation("C08 order (CLI): renaming files so that they are visited in the opposite order changes the reported pairs: %s vs %s"
                              % ([x for x in outs[0] if x not in outs[1]][:3], [x for x in outs[1] if x not in outs[0]][:3]),
                              {"signature": {"kind": "order-cli"}, "files": pr.sources()})
    finally:
        shutil.rmtree(tmp, ignore_errors=True)
    phase("cli")
    hist["phase_seconds"] = phases
    if not ps.ok and not any(fi for _, _, fi in res.violations):
        res.violation("proof obligation or tie broken: " + "; ".join(ps.broken)[:1500],
                      {"broken": ps.broken, "note": "no project on which a reported pair is unjustified, a verbatim copy is missed or the order matters was found in %d configurations" % hist["configs"]},
                      found_input=False)
    res.coverage.update({
        "evaluations": hist["configs"] + hist["order_variants"] + hist["cli_runs"],
        "distinct_nontrivial": len(nontrivial),
        "rule": "generated projects (1-4 files in up to 3 directories, 2-5 base functions of 14-50 statements each rendered 1-3 times as verbatim / comment+blank noise / "
                "re-indented / renamed identifiers+literals / one statement added or dropped; every third project also holds 1-2 sync/async twins: the coroutine "
                "variant of one of its functions with `async def` / `async for` / `async with`; quick tier: projects above 9000 characters are regenerated); "
                "plus 4 (thorough 24) projects in which a LARGE function or class (compared tree of 501-2000 nodes, and above 2000 nodes) appears verbatim / with "
                "comment noise / re-indented in 2-3 places next to ordinary copied functions (large fragments of 500 nodes or less are not generated: the exact "
                "comparison takes minutes per pair there); per project the default configuration and 2 (thorough 4) validated "
                "configurations whose thresholds sit exactly on, one ulp above and one ulp below observed similarities, random enabled types, size minima on observed "
                "sizes; every project also with files shuffled and fragments reversed; CLI on renamed copies; non-trivial = a configuration with at least one reported pair",
        "samples": [{"project": cases[0][0].sources()[0]["Src"][:600], "reported": first[0].get("report_cfg", {}).get("reported", [])[:3]}] if cases else [],
        "traces_validated_against_impl": hist["configs"],
        "distribution": hist,
    })
    return res.finish("proof")
