"""C06 — no input crashes or hangs the analyser, and a bad file never hides the others (DESIGN.md §4 C06)."""
import glob
import json
import os
import random
import shutil
import subprocess
import tempfile
import time

from . import common as C
from . import pygen

PID = "C06"
CRASH_MARKS = ("panic:", "goroutine ", "fatal error", "SIGSEGV", "runtime error", "stack overflow")


def valid_module(rng, idx):
    g = pygen.Gen(rng, max_depth=3, max_len=4, max_nodes=40)
    fs = [g.function("fn%d_%d" % (idx, k)) for k in range(rng.randint(1, 3))]
    src = pygen.render_module(fs, random.Random(rng.randrange(10 ** 6)), cosmetics=True, prelude=True)[0]
    src += "\nclass Holder%d:\n    dep: E0 = None\n\n    def get(self):\n        return self.x\n\n    def put(self, v):\n        self.x = v\n" % idx
    return src


def malformed_stream(rng, valid_sources, n):
    """(label, bytes) — syntactically invalid Python, truncated and binary data, odd encodings, very deep / very long inputs"""
    out = [("empty", b""), ("whitespace", b"   \n\t\n  \n"), ("nul bytes", b"x = 1\x00\x00\ny = 2\n"), ("only nul", b"\x00" * 64),
           ("utf-16 with BOM", "def f(a):\n    return a\n".encode("utf-16")), ("utf-8 BOM", b"\xef\xbb\xbfdef f(a):\n    return a\n"),
           ("latin-1 bytes", "s = 'caf\xe9'\n".encode("latin-1")), ("invalid utf-8", b"def f():\n    return '\xff\xfe\xfd'\n"),
           ("unterminated string", b"s = 'abc\ndef f():\n    pass\n"), ("unterminated triple quote", b'"""docstring\ndef f():\n    pass\n'),
           ("stray indent", b"  x = 1\n y = 2\n"), ("tabs and spaces", b"def f():\n\tif 1:\n        return 1\n"), ("def without body", b"def f(:\n  (((\n"),
           ("lone keywords", b"else:\nelif x:\nexcept:\nfinally:\ncase 1:\n"), ("elif chain broken", b"if a:\n    pass\nelif\nelif b:\n    pass\n"),
           ("match soup", b"match x:\n    case\n    case _ if:\n"), ("decorator only", b"@decorator\n"), ("class without name", b"class :\n    pass\n"),
           ("CRLF line ends", b"def f(a):\r\n    if a:\r\n        return 1\r\n    return 2\r\n"), ("CR only", b"def f(a):\r    return a\r"),
           ("form feed", b"def f(a):\n\x0c    return a\n"), ("backslash at EOF", b"x = 1 + \\"), ("very long line", b"x = [" + b"1, " * 200000 + b"]\n"),
           ("deep parens", b"x = " + b"(" * 3000 + b"1" + b")" * 3000 + b"\n"), ("deep parens unclosed", b"x = " + b"(" * 5000 + b"\n"),
           ("deep brackets", b"x = " + b"[" * 2000 + b"]" * 2000 + b"\n"), ("attribute chain", b"x = a" + b".b" * 20000 + b"\n"),
           ("call chain", b"x = f" + b"()" * 5000 + b"\n"), ("binary op chain", b"x = 1" + b" + 1" * 20000 + b"\n"),
           ("unary chain", b"x = " + b"not " * 3000 + b"y\n"), ("string concat chain", b"x = 'a'" + b" 'a'" * 20000 + b"\n"),
           ("lambda nest", b"x = " + b"lambda: " * 2000 + b"1\n"), ("subscript chain", b"x = a" + b"[0]" * 5000 + b"\n"),
           ("comprehension nest", b"x = " + b"[" * 300 + b"1" + b" for a in b]" * 300 + b"\n"),
           ("nested blocks 90", "".join("    " * i + "if a:\n" for i in range(90)).encode() + b"    " * 90 + b"pass\n"),
           ("nested blocks 400", "".join(" " * i + "if a:\n" for i in range(400)).encode() + b" " * 400 + b"pass\n"),
           ("nested defs 200", "".join(" " * i + "def f%d():\n" % i for i in range(200)).encode() + b" " * 200 + b"return 1\n"),
           ("nested classes 200", "".join(" " * i + "class C%d:\n" % i for i in range(200)).encode() + b" " * 200 + b"x = 1\n"),
           ("nested try 150", "".join(" " * i + "try:\n" for i in range(150)).encode() + b" " * 150 + b"pass\n" + "".join(" " * i + "except E:\n" + " " * (i + 1) + "pass\n" for i in range(149, -1, -1)).encode()),
           ("elif chain 3000", b"def f(a):\n    if a == 0:\n        return 0\n" + "".join("    elif a == %d:\n        return %d\n" % (i, i) for i in range(1, 3000)).encode()),
           ("many functions", "".join("def f%d(a):\n    if a:\n        return 1\n    return 2\n\n" % i for i in range(4000)).encode()),
           ("many statements", b"def f(a):\n" + b"    a += 1\n" * 60000 + b"    return a\n"),
           ("huge f-string", b"x = f\"" + b"{a}" * 5000 + b"\"\n"), ("nested f-string", b"x = f\"{f'{f\"{1}\"}'}\"\n"),
           ("with chain", b"with " + b", ".join(b"open(x%d) as f%d" % (i, i) for i in range(2000)) + b":\n    pass\n"),
           ("decorator stack", b"".join(b"@d%d\n" % i for i in range(3000)) + b"def f():\n    pass\n"),
           ("return outside function + break outside loop", b"return 1\nbreak\ncontinue\nyield 2\nawait x\n"),
           ("global soup", b"global\nnonlocal\ndel\nassert\nraise from\nimport\nfrom import\n"), ("random high bytes", bytes(range(128, 256)) * 4)]
    while len(out) < n:
        src = rng.choice(valid_sources).encode()
        kind = rng.choice(["truncate", "flip", "delete", "insert", "dup", "shuffle_lines", "random"])
        if kind == "truncate":
            out.append(("truncated", src[:rng.randrange(len(src))]))
        elif kind == "flip":
            b = bytearray(src)
            for _ in range(rng.randint(1, 8)):
                b[rng.randrange(len(b))] = rng.randrange(256)
            out.append(("bytes flipped", bytes(b)))
        elif kind == "delete":
            i = rng.randrange(len(src))
            out.append(("span deleted", src[:i] + src[i + rng.randint(1, 40):]))
        elif kind == "insert":
            i = rng.randrange(len(src))
            out.append(("token inserted", src[:i] + rng.choice([b"(", b")", b":", b"'''", b"\"", b"\\", b"\n\t", b" def ", b" else: ", b"\x00", b"\xff", b"{", b"]"]) + src[i:]))
        elif kind == "dup":
            i = rng.randrange(len(src))
            out.append(("span duplicated", src[:i] + src[max(0, i - 30):i] * 3 + src[i:]))
        elif kind == "shuffle_lines":
            ls = src.split(b"\n")
            rng.shuffle(ls)
            out.append(("lines shuffled", b"\n".join(ls)))
        else:
            out.append(("random bytes", bytes(rng.randrange(256) for _ in range(rng.randint(1, 400)))))
    return out[:n]


def run_cli(args, cwd, timeout):
    t0 = time.time()
    try:
        p = subprocess.run([os.path.join(C.BUILD, "pyscn")] + args, cwd=cwd, stdout=subprocess.PIPE, stderr=subprocess.PIPE, timeout=timeout,
                           preexec_fn=lambda: __import__("resource").setrlimit(__import__("resource").RLIMIT_AS, (8 << 30, 8 << 30)))
        return p.returncode, p.stdout.decode("utf-8", "replace"), p.stderr.decode("utf-8", "replace"), time.time() - t0
    except subprocess.TimeoutExpired:
        return None, "", "", time.time() - t0


def per_file(d, fname_filter):
    """the parts of a report that belong to files accepted by fname_filter, canonical and order-free"""
    out = {}
    cx = (d.get("complexity") or {}).get("Functions") or []
    out["complexity"] = sorted((f["FilePath"], f["Name"], f["StartLine"], f["Metrics"]["Complexity"], f["RiskLevel"]) for f in cx if fname_filter(f["FilePath"]))
    dc = (d.get("dead_code") or {}).get("files") or []
    out["dead_code"] = sorted((f["file_path"], fn["name"], x["location"]["start_line"], x["location"]["end_line"], x["severity"])
                              for f in dc if fname_filter(f["file_path"]) for fn in f["functions"] for x in fn["findings"])
    for sec, val in (("cbo", lambda c: c["Metrics"]["CouplingCount"]), ("lcom", lambda c: c["Metrics"]["LCOM4"])):
        out[sec] = sorted((c["FilePath"], c["Name"], c["StartLine"], val(c), c["RiskLevel"]) for c in ((d.get(sec) or {}).get("Classes") or []) if fname_filter(c["FilePath"]))
    cl = (d.get("clone") or {}).get("clone_pairs") or []
    out["clones"] = sorted(tuple(sorted([(p["clone1"]["location"]["file_path"], p["clone1"]["location"]["start_line"]), (p["clone2"]["location"]["file_path"], p["clone2"]["location"]["start_line"])])) + (p["type"],)
                           for p in cl if fname_filter(p["clone1"]["location"]["file_path"]) and fname_filter(p["clone2"]["location"]["file_path"]))
    return out


def run(tier, seed, replay=None):
    res = C.Result(PID, tier, seed)
    rng = random.Random(seed * 1000003 + 6)
    ps = C.prove(PID)
    C.proof_coverage(res, ps, "cd /verif/lean && lake build PV.Properties.C06 && #print axioms (audit)")
    res.assumptions += [
        "PARTIAL: isolation and the exit-status logic are proved over the model and tied by fact tables; crash-freedom and the time bound are properties of the runtime (tree-sitter's C code, "
        "cgo, Go's stack and allocator, the algorithms' running time) that the model cannot exhibit — they are SEARCHED here with a malformed stream, not proved",
        "time bound used by the search: 20 s + 40 microseconds per byte of input per run (a linear envelope far above the times measured on valid input of the same size), address space limited to 8 GiB",
    ]
    nbad = 90 if tier == "quick" else 900
    hist = {"alone_runs": 0, "mixed_runs": 0, "by_kind": {}, "exit0": 0, "exit1": 0, "max_seconds": 0.0, "slowest": "", "selection_format_runs": 0}
    nontrivial = set()
    tmp = tempfile.mkdtemp(prefix="pv_c06_")
    try:
        good = {("good%d.py" % i): valid_module(rng, i) for i in range(4)}
        good["pkg/inner.py"] = valid_module(rng, 9)
        bad = malformed_stream(rng, list(good.values()), nbad)
        if replay:
            rp = json.load(open(replay))["replay"]
            if "hex" in rp:
                bad.insert(0, ("replay", bytes.fromhex(rp["hex"])))
        # reference: the good project alone
        ref_root = os.path.join(tmp, "ref")
        for fn, src in good.items():
            p = os.path.join(ref_root, "proj", fn)
            os.makedirs(os.path.dirname(p), exist_ok=True)
            with open(p, "w") as f:
                f.write(src)
        rc, ref, err = C.pyscn_json(["proj"], ref_root)
        if ref is None:
            res.violation("analyze failed on the reference project of valid files: %s" % err[-300:], {"files": good})
            return res.finish("other")
        ref_parts = per_file(ref, lambda p: True)
        for bi, (label, data) in enumerate(bad):
            hist["by_kind"][label] = hist["by_kind"].get(label, 0) + 1
            limit = 20.0 + 40e-6 * len(data)
            info = {"kind": label, "size": len(data), "hex": data[:4096].hex(), "truncated_in_replay": len(data) > 4096}
            # ---- alone ----------------------------------------------------------------------------------------------------------
            root = os.path.join(tmp, "a%d" % bi)
            os.makedirs(os.path.join(root, "proj"))
            with open(os.path.join(root, "proj", "bad.py"), "wb") as f:
                f.write(data)
            sel = rng.choice([[], [], ["--select", "complexity"], ["--select", "deadcode"], ["--select", "clones"], ["--select", "cbo,lcom"], ["--select", "deps"]])
            fmt = rng.choice(["--json", "--json", "--yaml", "--csv", "--html", None])
            args = ["analyze", "--no-open"] + ([fmt] if fmt else []) + sel + ["proj"]
            rc, so, se, secs = run_cli(args, root, limit + 60)
            hist["alone_runs"] += 1
            if sel or fmt != "--json":
                hist["selection_format_runs"] += 1
            if secs > hist["max_seconds"]:
                hist["max_seconds"], hist["slowest"] = round(secs, 2), label
            sig = None
            if rc is None:
                sig, what = {"kind": "hang", "input": label}, "does not terminate within %.0f s" % (limit + 60)
            elif any(m in se or m in so for m in CRASH_MARKS):
                sig, what = {"kind": "crash", "input": label}, "crashes: %s" % [ln for ln in (se + so).split("\n") if any(m in ln for m in CRASH_MARKS)][:2]
            elif rc not in (0, 1):
                sig, what = {"kind": "exit-status", "input": label}, "exits with status %d" % rc
            elif secs > limit:
                sig, what = {"kind": "slow", "input": label}, "takes %.1f s for %d bytes (bound %.1f s)" % (secs, len(data), limit)
            if rc in (0, 1):
                hist["exit%d" % rc] += 1
            if sig:
                k = C.classify(PID, sig)
                msg = "C06: `pyscn %s` on a file of kind `%s` (%d bytes) %s" % (" ".join(args), label, len(data), what)
                if k:
                    res.known_finding(k, "(%s)" % msg[:250])
                else:
                    res.violation(msg, dict(info, signature=sig, args=args, stderr=se[-800:]))
                continue
            nontrivial.add(label)
            # ---- mixed into the project of valid files --------------------------------------------------------------------------------------
            if bi % (2 if tier == "quick" else 3) == 0:
                root = os.path.join(tmp, "m%d" % bi)
                shutil.copytree(os.path.join(ref_root, "proj"), os.path.join(root, "proj"))
                where = rng.choice(["aaa_bad.py", "good2_bad.py", "zzz_bad.py", "pkg/bad.py"])
                with open(os.path.join(root, "proj", where), "wb") as f:
                    f.write(data)
                rc, so, se, secs = run_cli(["analyze", "--json", "--no-open", "proj"], root, limit + 120)
                hist["mixed_runs"] += 1
                got = glob.glob(os.path.join(root, ".pyscn", "reports", "*.json"))
                if rc is None or any(m in se for m in CRASH_MARKS) or rc not in (0, 1):
                    res.violation("C06: analysing the valid project with one extra file of kind `%s` at %s: %s" % (label, where, "no termination" if rc is None else "exit %s / crash: %s" % (rc, se[-200:])),
                                  dict(info, signature={"kind": "mixed-crash", "input": label}, where=where))
                elif not got:
                    res.violation("C06: with one extra file of kind `%s` (%s) no report is written at all (exit %d): the bad file hides every other file: %s" % (label, where, rc, se[-200:]),
                                  dict(info, signature={"kind": "hides-all", "input": label}, where=where, files=good))
                else:
                    d = json.load(open(got[0]))
                    parts = per_file(d, lambda p: not p.endswith("bad.py"))
                    for sec in ("complexity", "dead_code", "cbo", "lcom", "clones"):
                        if parts[sec] != ref_parts[sec]:
                            miss = [x for x in ref_parts[sec] if x not in parts[sec]][:2]
                            extra = [x for x in parts[sec] if x not in ref_parts[sec]][:2]
                            sig = {"kind": "isolation", "section": sec}
                            k = C.classify(PID, sig)
                            msg = "C06 isolation: one extra file of kind `%s` at %s changes the %s results of the OTHER files: lost %s, new %s" % (label, where, sec, miss, extra)
                            if k:
                                res.known_finding(k, "(%s)" % msg[:250])
                            else:
                                res.violation(msg, dict(info, signature=sig, where=where, files=good))
                            break
                shutil.rmtree(root, ignore_errors=True)
            shutil.rmtree(os.path.join(tmp, "a%d" % bi), ignore_errors=True)
    finally:
        shutil.rmtree(tmp, ignore_errors=True)
    if not ps.ok and not any(fi for _, _, fi in res.violations):
        res.violation("proof obligation or tie broken: " + "; ".join(ps.broken)[:1500], {"broken": ps.broken}, found_input=False)
    res.coverage.update({
        "evaluations": hist["alone_runs"] + hist["mixed_runs"],
        "distinct_nontrivial": len(nontrivial),
        "rule": "malformed stream: 50 hand-picked shapes (empty, NUL, BOMs, UTF-16, invalid UTF-8, unterminated strings, broken blocks, CR/CRLF, nesting of parens/brackets/blocks/defs/"
                "classes/try up to several thousand levels, chains of attributes/calls/operators/elif/decorators up to 20000 links, 60000-line function, 4000 functions) + byte-level "
                "mutations of valid generated modules (truncate, flip, delete, insert token, duplicate span, shuffle lines, random bytes); each file alone under a random analysis selection and "
                "output format, every second one also mixed into a project of 5 valid files at a random position (per-file results of the valid files must equal the reference run)",
        "samples": [{"kind": l, "size": len(b), "head_hex": b[:48].hex()} for l, b in bad[:3] + bad[50:52]],
        "traces_validated_against_impl": hist["mixed_runs"],
        "distribution": hist,
    })
    return res.finish("proof")
