"""C06 — no input crashes or hangs the analyser, and a bad file never hides the others (DESIGN.md §4 C06)."""
import glob
import json
import os
import random
import resource
import shutil
import subprocess
import tempfile
import time
from concurrent.futures import ThreadPoolExecutor

from . import common as C
from . import pygen

PID = "C06"
JOBS = max(1, int(os.environ.get("PV_C06_JOBS", "4")))     # independent CLI invocations of the malformed stream in flight at a time
CRASH_MARKS = ("panic:", "goroutine ", "fatal error", "SIGSEGV", "runtime error", "stack overflow")


def valid_module(rng, idx):
    g = pygen.Gen(rng, max_depth=3, max_len=4, max_nodes=40)
    fs = [g.function("fn%d_%d" % (idx, k)) for k in range(rng.randint(1, 3))]
    src = pygen.render_module(fs, random.Random(rng.randrange(10 ** 6)), cosmetics=True, prelude=True)[0]
    src += "\nclass Holder%d:\n    dep: E0 = None\n\n    def get(self):\n        return self.x\n\n    def put(self, v):\n        self.x = v\n" % idx
    return src


# ---- very deep but BALANCED nesting whose only defect is local to the innermost level -------------------------------------------------------------
# (kind of nesting: opening text, closing text); every level is properly closed, so a syntax error in the innermost operand stays a small ERROR/MISSING
# node at the bottom of the tree instead of turning the whole file into one top-level ERROR node
NEST = {"list": ("[", "]"), "paren": ("(", ")"), "tuple": ("(0, ", ")"), "dict value": ("{0: ", "}"), "call argument": ("f(", ")"), "keyword argument": ("f(k=", ")"),
        "operand": ("1 + (", ")"), "subscript": ("a[", "]"), "lambda body": ("(lambda: ", ")"), "conditional": ("(1 if a else ", ")")}
DEFECTS = {"two atoms side by side": "1 2", "operator without operand": "1 +", "stray character": "1 $ 2", "leading comma": ", 1", "keyword out of place": "1 for"}
WRAPS = {"return value": "def table(a, f):\n    return %s\n", "module-level assignment": "a = f = 0\nx = %s\n", "default argument": "def table(a, f, d=%s):\n    return d\n",
         "statement inside 30 nested blocks": "a = f = 0\n" + "".join(" " * i + ("if a:\n", "while a:\n", "for i in a:\n")[i % 3] for i in range(30)) + " " * 30 + "x = %s\n"}
TREE_LEVELS = {"list": 1, "paren": 1, "tuple": 1, "dict value": 2, "call argument": 2, "keyword argument": 3, "operand": 2, "subscript": 1, "lambda body": 2, "conditional": 2}
# levels of nesting per kind: shallow, medium, just below and just above 1000 levels of the syntax tree (the recursion limit the code base uses in its tree utilities;
# one nesting is 1 to 3 tree levels, see TREE_LEVELS), far above it. Where the defect really sits is measured (hist first_syntax_error_tree_depth).
DEEP_DEPTHS = lambda kind: (30, 450, 975 // TREE_LEVELS[kind], 1040 // TREE_LEVELS[kind], 2600)


def deep_expr(levels, inner):
    return "".join(NEST[k][0] for k in levels) + inner + "".join(NEST[k][1] for k in reversed(levels))


def deep_local_defects(rng):
    """(label, bytes): balanced nesting of every kind x depth with ONE local defect in the innermost operand (kind x depth covered, defect and position in the
    file rotated), the same nesting without the defect, and randomly mixed nestings of random depth"""
    out = []
    kinds, defects, wraps = list(NEST), list(DEFECTS), list(WRAPS)
    for ki, kind in enumerate(kinds):
        for di, depth in enumerate(DEEP_DEPTHS(kind)):
            d, w = defects[(ki + di) % len(defects)], wraps[(ki + 2 * di + ki // 4) % len(wraps)]
            out.append(("deep nesting, local defect: %s x%d, %s, %s" % (kind, depth, d, w), (WRAPS[w] % deep_expr([kind] * depth, DEFECTS[d])).encode()))
        depth, w = (1100, 2600)[ki % 2], wraps[ki % len(wraps)]
        out.append(("deep nesting, valid: %s x%d, %s" % (kind, depth, w), (WRAPS[w] % deep_expr([kind] * depth, "1")).encode()))
    for _ in range(8):
        depth = rng.randint(100, 3000)
        run, levels = rng.choice([1, 1, 7, 60]), []
        while len(levels) < depth:
            levels += [rng.choice(kinds)] * run
        d, w = rng.choice(defects), rng.choice(wraps)
        out.append(("deep nesting, local defect: mixed kinds x%d, %s, %s" % (depth, d, w), (WRAPS[w] % deep_expr(levels[:depth], DEFECTS[d])).encode()))
    return out


def malformed_stream(rng, valid_sources, n):
    """(label, bytes) — syntactically invalid Python, truncated and binary data, odd encodings, very deep / very long inputs"""
    out = [("empty", b""), ("whitespace", b"   \n\t\n  \n"), ("nul bytes", b"x = 1\x00\x00\ny = 2\n"), ("only nul", b"\x00" * 64),
           ("utf-16 with BOM", "def f(a):\n    return a\n".encode("utf-16")), ("utf-8 BOM", b"\xef\xbb\xbfdef f(a):\n    return a\n"),
           ("latin-1 bytes", "s = 'caf\xe9'\n".encode("latin-1")), ("invalid utf-8", b"def f():\n    return '\xff\xfe\xfd'\n"),
           ("unterminated string", b"s = 'abc\ndef f():\n    pass\n"), ("unterminated triple quote", b'"""docstring\ndef f():\n    pass\n'),
           ("stray indent", b"  x = 1\n y = 2\n"), ("tabs and spaces", b"def f():\n\tif 1:\n        return 1\n"), ("def without body", b"def f(:\n  (((\n"),
           ("lone keywords", b"else:\nelif x:\nexcept:\nfinally:\ncase 1:\n"), ("elif chain broken", b"if a:\n    pass\nelif\nelif b:\n    pass\n"),
           ("match soup", b"match x:\n    case\n    case _ if:\n"), ("decorator only", b"@decorator\n"), ("class without name", b"class :\n    pass\n"),
           ("CRLF line ends", b"def f(a):\r\n    if a:\r\n        return 1\r\n    return 2\r\n"), ("CR only", b"def f(a):\r    return a\r"),
           ("form feed", b"def f(a):\n\x0c    return a\n"), ("backslash at EOF", b"x = 1 + \\"), ("very long line", b"x = [" + b"1, " * 200000 + b"]\n"),
           ("deep parens", b"x = " + b"(" * 3000 + b"1" + b")" * 3000 + b"\n"), ("deep parens unclosed", b"x = " + b"(" * 5000 + b"\n"),
           ("deep brackets", b"x = " + b"[" * 2000 + b"]" * 2000 + b"\n"), ("attribute chain", b"x = a" + b".b" * 20000 + b"\n"),
           ("call chain", b"x = f" + b"()" * 5000 + b"\n"), ("binary op chain", b"x = 1" + b" + 1" * 20000 + b"\n"),
           ("unary chain", b"x = " + b"not " * 3000 + b"y\n"), ("string concat chain", b"x = 'a'" + b" 'a'" * 20000 + b"\n"),
           ("lambda nest", b"x = " + b"lambda: " * 2000 + b"1\n"), ("subscript chain", b"x = a" + b"[0]" * 5000 + b"\n"),
           ("comprehension nest", b"x = " + b"[" * 300 + b"1" + b" for a in b]" * 300 + b"\n"),
           ("nested blocks 90", "".join("    " * i + "if a:\n" for i in range(90)).encode() + b"    " * 90 + b"pass\n"),
           ("nested blocks 400", "".join(" " * i + "if a:\n" for i in range(400)).encode() + b" " * 400 + b"pass\n"),
           ("nested defs 200", "".join(" " * i + "def f%d():\n" % i for i in range(200)).encode() + b" " * 200 + b"return 1\n"),
           ("nested classes 200", "".join(" " * i + "class C%d:\n" % i for i in range(200)).encode() + b" " * 200 + b"x = 1\n"),
           ("nested try 150", "".join(" " * i + "try:\n" for i in range(150)).encode() + b" " * 150 + b"pass\n" + "".join(" " * i + "except E:\n" + " " * (i + 1) + "pass\n" for i in range(149, -1, -1)).encode()),
           ("elif chain 3000", b"def f(a):\n    if a == 0:\n        return 0\n" + "".join("    elif a == %d:\n        return %d\n" % (i, i) for i in range(1, 3000)).encode()),
           ("many functions", "".join("def f%d(a):\n    if a:\n        return 1\n    return 2\n\n" % i for i in range(4000)).encode()),
           ("many statements", b"def f(a):\n" + b"    a += 1\n" * 60000 + b"    return a\n"),
           ("huge f-string", b"x = f\"" + b"{a}" * 5000 + b"\"\n"), ("nested f-string", b"x = f\"{f'{f\"{1}\"}'}\"\n"),
           ("with chain", b"with " + b", ".join(b"open(x%d) as f%d" % (i, i) for i in range(2000)) + b":\n    pass\n"),
           ("decorator stack", b"".join(b"@d%d\n" % i for i in range(3000)) + b"def f():\n    pass\n"),
           ("return outside function + break outside loop", b"return 1\nbreak\ncontinue\nyield 2\nawait x\n"),
           ("global soup", b"global\nnonlocal\ndel\nassert\nraise from\nimport\nfrom import\n"), ("random high bytes", bytes(range(128, 256)) * 4)]
    # large non-Python text saved as .py (tree-sitter's error recovery is the slow path; a time limit added there must not leak into the next file)
    js = ";".join("function f%d(a,b){var c=a?b:{k:[1,2,%d],s:'x%d'};return c&&c.k.map(function(v){return v*%d})}" % (i, i, i, i) for i in range(4000))
    sql = "\n".join("INSERT INTO t%d (id, name, payload) VALUES (%d, 'name%d', '{\"a\": [%d, %d]}');" % (i % 7, i, i, i, i * 3) for i in range(6000))
    unit = b"function f(a){if(a){return a+1;}else{var b=a||0;for(var i=0;i<b;i++){g(i);}}}\n"
    out += [("JS functions one per line 330 KB (slow error recovery)", unit * (330 * 1024 // len(unit))), ("minified JS 450 KB", js.encode()[:450000]), ("SQL dump 450 KB", sql.encode()[:450000]),
            ("CSV 300 KB", ("\n".join(",".join(str((i * j) % 97) for j in range(40)) for i in range(3000))).encode()[:300000]),
            ("base64 blob 400 KB", __import__("base64").b64encode(bytes((i * 7919) % 256 for i in range(300000)))[:400000])]
    # every clause kind with a body that holds only a comment, no body at all, or no header expression — the shapes
    # tree-sitter recovers from with nodes whose expected fields are missing (F38: comment-only `elif` body panicked)
    clauses = [("if a:", None), ("if a:", "elif b:"), ("if a:", "else:"), ("for i in a:", None), ("for i in a:", "else:"), ("while a:", None),
               ("while a:", "else:"), ("try:", "except E:"), ("try:", "except E as e:"), ("try:", "finally:"), ("try:", "except* E:"), ("with a as b:", None),
               ("def g():", None), ("class K:", None), ("match a:", None), ("match a:", "case 1:"), ("async def g():", None), ("async for i in a:", None),
               ("async with a as b:", None), ("if a:", "elif:"), ("while:", None), ("for in a:", None), ("try:", "except E:+else:"), ("try:", "except E:+finally:")]
    for first, second in clauses:
        for defect in ("comment", "missing", "blank"):
            filler = {"comment": "        # only a comment\n", "missing": "", "blank": "\n\n"}[defect]
            for wrap in (True, False):
                ind = "    " if wrap else ""
                lines = ("def f(a, b):\n" if wrap else "")
                if second is None:
                    lines += ind + first + "\n" + filler.replace("        ", ind + "    ")
                else:
                    lines += ind + first + "\n" + ind + "    x = 1\n"
                    parts = second.split("+")
                    for k, hdr in enumerate(parts):
                        lines += ind + hdr + "\n" + (filler.replace("        ", ind + "    ") if k == len(parts) - 1 else ind + "    y = 2\n")
                lines += ind + "return 2\n" if wrap else "z = 3\n"
                out.append(("%s body of `%s`%s" % (defect, second or first, " in def" if wrap else ""), lines.encode()))
    out += deep_local_defects(rng)
    while len(out) < n:
        src = rng.choice(valid_sources).encode()
        kind = rng.choice(["truncate", "flip", "delete", "insert", "dup", "shuffle_lines", "random", "body_commented", "body_commented"])
        if kind == "body_commented":
            ls = src.split(b"\n")
            heads = [i for i, l in enumerate(ls) if l.rstrip().endswith(b":")]
            if heads:
                i = rng.choice(heads)
                ind = len(ls[i]) - len(ls[i].lstrip())
                j = i + 1
                while j < len(ls) and (not ls[j].strip() or len(ls[j]) - len(ls[j].lstrip()) > ind):
                    j += 1
                repl = rng.choice([[b" " * (ind + 4) + b"# body removed"], [], [b""], [b" " * (ind + 4) + b"..."[:0] + b"#"]])
                out.append(("block body replaced by comment/nothing", b"\n".join(ls[:i + 1] + repl + ls[j:])))
                continue
            kind = "truncate"
        if kind == "truncate":
            out.append(("truncated", src[:rng.randrange(len(src))]))
        elif kind == "flip":
            b = bytearray(src)
            for _ in range(rng.randint(1, 8)):
                b[rng.randrange(len(b))] = rng.randrange(256)
            out.append(("bytes flipped", bytes(b)))
        elif kind == "delete":
            i = rng.randrange(len(src))
            out.append(("span deleted", src[:i] + src[i + rng.randint(1, 40):]))
        elif kind == "insert":
            i = rng.randrange(len(src))
            out.append(("token inserted", src[:i] + rng.choice([b"(", b")", b":", b"'''", b"\"", b"\\", b"\n\t", b" def ", b" else: ", b"\x00", b"\xff", b"{", b"]"]) + src[i:]))
        elif kind == "dup":
            i = rng.randrange(len(src))
            out.append(("span duplicated", src[:i] + src[max(0, i - 30):i] * 3 + src[i:]))
        elif kind == "shuffle_lines":
            ls = src.split(b"\n")
            rng.shuffle(ls)
            out.append(("lines shuffled", b"\n".join(ls)))
        else:
            out.append(("random bytes", bytes(rng.randrange(256) for _ in range(rng.randint(1, 400)))))
    return out[:n]


CLAUSES = ["if", "elif1", "elif2", "elif3", "else", "for", "for_else", "while", "while_else", "try", "except", "except2", "try_else", "finally", "with", "def", "class",
           "case1", "case2", "async_for", "async_with", "nested_elif_try"]
STMTS = {
    "import": "import os.path as osp", "import_multi": "import os, sys as system, json", "from_import": "from collections import OrderedDict as OD, deque", "from_rel": "from . import sibling",
    # relative imports that reach the top-level package and beyond it (valid syntax; CPython only refuses them when executed)
    "from_rel_mod": "from .sibling import X", "from_rel2": "from .. import sibling", "from_rel3": "from ...shared.util import helper as h", "from_rel9": "from ......... import deep",
    "from_star": "from os.path import *" , "return": "return a", "raise": "raise ValueError(a)", "assign": "a = b + 1", "augassign": "a += 1", "annassign": "a: int = 1", "expr_call": "print(a, b)",
    "def": "def inner(x):\n    return x", "class": "class Inner:\n    y = 1", "lambda": "f = lambda x: x + a", "listcomp": "c = [x for x in range(a) if x]", "dictcomp": "c = {x: x for x in range(a)}",
    "genexp": "c = sum(x for x in range(a))", "with": "with open(a) as fh:\n    b = fh.read()", "assert": "assert a, b", "del": "del a", "global": "global G", "pass": "pass", "fstring": "c = f\"{a!r:>{b}}\"",
    "walrus": "if (n := a) > 1:\n    b = n", "ternary": "c = a if b else None", "try_in": "try:\n    import json\nexcept ImportError:\n    json = None", "yield": "yield a", "await": "await a",
    "starred": "c, *d = a", "decorated": "@staticmethod\ndef deco():\n    return 1", "match": "match a:\n    case [x, *rest]:\n        b = x\n    case {\"k\": v}:\n        b = v\n    case _:\n        b = 0",
    "type_checking": "if TYPE_CHECKING:\n    import typing", "docstring": "\"\"\"doc\"\"\"", "semicolons": "a = 1; b = 2; return a", "nonlocal_def": "def inner2():\n    nonlocal a\n    a = 2",
}


def shape_cell(clause, stmt):
    """a VALID function whose clause `clause` contains the statement `stmt` (positions x statement kinds, the same matrix idea as C02/C12/C13)"""
    body = STMTS[stmt]
    is_async = stmt == "await" or clause.startswith("async")
    ind = lambda txt, n: "\n".join(" " * n + l for l in txt.split("\n"))
    B = lambda n: ind(body, n)
    t = {
        "if": "    if a:\n%s\n" % B(8),
        "elif1": "    if a:\n        pass\n    elif b:\n%s\n" % B(8),
        "elif2": "    if a:\n        pass\n    elif b:\n        pass\n    elif a > b:\n%s\n" % B(8),
        "elif3": "    if a:\n        pass\n    elif b:\n        pass\n    elif a > b:\n        pass\n    elif a < b:\n%s\n    else:\n        pass\n" % B(8),
        "else": "    if a:\n        pass\n    else:\n%s\n" % B(8),
        "for": "    for i in range(3):\n%s\n" % B(8),
        "for_else": "    for i in range(3):\n        pass\n    else:\n%s\n" % B(8),
        "while": "    while a:\n%s\n        break\n" % B(8),
        "while_else": "    while a:\n        break\n    else:\n%s\n" % B(8),
        "try": "    try:\n%s\n    except Exception:\n        pass\n" % B(8),
        "except": "    try:\n        pass\n    except Exception:\n%s\n" % B(8),
        "except2": "    try:\n        pass\n    except ValueError:\n        pass\n    except (KeyError, OSError) as e:\n%s\n" % B(8),
        "try_else": "    try:\n        pass\n    except Exception:\n        pass\n    else:\n%s\n" % B(8),
        "finally": "    try:\n        pass\n    finally:\n%s\n" % B(8),
        "with": "    with open(b) as fh2:\n%s\n" % B(8),
        "def": "    def nested(a, b):\n%s\n" % B(8),
        "class": "    class Nested:\n        def m(self, a, b):\n%s\n" % B(12),
        "case1": "    match a:\n        case 1:\n%s\n        case _:\n            pass\n" % B(12),
        "case2": "    match a:\n        case 1:\n            pass\n        case [x, y] if x:\n%s\n" % B(12),
        "async_for": "    async for i in b:\n%s\n" % B(8),
        "async_with": "    async with b as fh3:\n%s\n" % B(8),
        "nested_elif_try": "    if a:\n        pass\n    elif b:\n        pass\n    elif a > b:\n        try:\n            for i in range(2):\n                if i:\n                    pass\n                elif a:\n                    pass\n                elif b:\n%s\n        finally:\n            pass\n" % B(20),
    }[clause]
    head = "%sdef cell_%s_%s(a, b):\n" % ("async " if is_async else "", clause, stmt)
    return "from typing import TYPE_CHECKING\nG = 0\n\n" + head + t + "    return b\n"


def shape_matrix():
    """{file name: source} — every (clause, statement) cell inside a function and at module level; only cells CPython compiles are kept"""
    out = {}
    for c in CLAUSES:
        for st in STMTS:
            src = shape_cell(c, st)
            variants = {"fn": src}
            lines = src.split("\n")
            k = next(i for i, l in enumerate(lines) if l.startswith(("def ", "async def ")))
            variants["mod"] = "\n".join(lines[:k] + ["a = 1", "b = 2"] + [l[4:] for l in lines[k + 1:-2]]) + "\n"
            for v, text in variants.items():
                try:
                    compile(text, "cell", "exec")
                except SyntaxError:
                    continue
                out["%s_%s_%s.py" % (v, c, st)] = text
    return out


def shape_run(files, root, timeout):
    """analyse the given cells as one project; returns None when fine, else a description"""
    shutil.rmtree(root, ignore_errors=True)
    os.makedirs(os.path.join(root, "proj"))
    open(os.path.join(root, "proj", "sibling.py"), "w").write("X = 1\n")
    # a root marker makes `proj` the project root, so `from .. import x` in a top-level module reaches above it;
    # the relative-import cells are also placed two packages deep
    open(os.path.join(root, "proj", "requirements.txt"), "w").write("")
    for fn, text in files.items():
        open(os.path.join(root, "proj", fn), "w").write(text)
        if "_from_rel" in fn:
            d = os.path.join(root, "proj", "pkg", "inner")
            os.makedirs(d, exist_ok=True)
            for dd in (os.path.join(root, "proj", "pkg"), d):
                open(os.path.join(dd, "__init__.py"), "w").write("")
            open(os.path.join(d, "sibling.py"), "w").write("X = 1\n")
            open(os.path.join(d, fn), "w").write(text)
    rc, so, se, secs = run_cli(["analyze", "--json", "--no-open", "--min-complexity", "1", "proj"], root, timeout)
    shutil.rmtree(root, ignore_errors=True)
    if rc is None:
        return "does not terminate within %d s" % timeout
    if any(m in se or m in so for m in CRASH_MARKS):
        return "crashes: %s" % [ln for ln in (se + so).split("\n") if any(m in ln for m in CRASH_MARKS)][:2]
    if rc not in (0, 1):
        return "exits with status %d" % rc
    return None


def _limit_address_space():
    resource.setrlimit(resource.RLIMIT_AS, (8 << 30, 8 << 30))


def run_cli(args, cwd, timeout):
    t0 = time.time()
    try:
        p = subprocess.run([os.path.join(C.BUILD, "pyscn")] + args, cwd=cwd, stdout=subprocess.PIPE, stderr=subprocess.PIPE, timeout=timeout, preexec_fn=_limit_address_space)
        return p.returncode, p.stdout.decode("utf-8", "replace"), p.stderr.decode("utf-8", "replace"), time.time() - t0
    except subprocess.TimeoutExpired:
        return None, "", "", time.time() - t0


def error_strings(report, needle):
    """the strings that sit under a key named ...error.../...warning... of the JSON report and contain `needle`"""
    found = set()

    def errs(x, path):
        if isinstance(x, dict):
            for k, v in x.items():
                errs(v, path + [k])
        elif isinstance(x, list):
            for v in x:
                errs(v, path)
        elif isinstance(x, str) and needle in x and any(("rror" in k or "arning" in k) for k in path):
            found.add(x)
    errs(report, [])
    return found


def stderr_lines(se, needle):
    return {ln.strip() for ln in se.split("\n") if needle in ln}


def per_file(d, fname_filter):
    """the parts of a report that belong to files accepted by fname_filter, canonical and order-free"""
    out = {}
    cx = (d.get("complexity") or {}).get("Functions") or []
    out["complexity"] = sorted((f["FilePath"], f["Name"], f["StartLine"], f["Metrics"]["Complexity"], f["RiskLevel"]) for f in cx if fname_filter(f["FilePath"]))
    dc = (d.get("dead_code") or {}).get("files") or []
    out["dead_code"] = sorted((f["file_path"], fn["name"], x["location"]["start_line"], x["location"]["end_line"], x["severity"])
                              for f in dc if fname_filter(f["file_path"]) for fn in f["functions"] for x in fn["findings"])
    for sec, val in (("cbo", lambda c: c["Metrics"]["CouplingCount"]), ("lcom", lambda c: c["Metrics"]["LCOM4"])):
        out[sec] = sorted((c["FilePath"], c["Name"], c["StartLine"], val(c), c["RiskLevel"]) for c in ((d.get(sec) or {}).get("Classes") or []) if fname_filter(c["FilePath"]))
    cl = (d.get("clone") or {}).get("clone_pairs") or []
    out["clones"] = sorted(tuple(sorted([(p["clone1"]["location"]["file_path"], p["clone1"]["location"]["start_line"]), (p["clone2"]["location"]["file_path"], p["clone2"]["location"]["start_line"])])) + (p["type"],)
                           for p in cl if fname_filter(p["clone1"]["location"]["file_path"]) and fname_filter(p["clone2"]["location"]["file_path"]))
    return out


def run(tier, seed, replay=None):
    res = C.Result(PID, tier, seed)
    rng = random.Random(seed * 1000003 + 6)
    ps = C.prove(PID)
    C.proof_coverage(res, ps, "cd /verif/lean && lake build PV.Properties.C06 && #print axioms (audit)")
    res.assumptions += [
        "PARTIAL: isolation and the exit-status logic are proved over the model and tied by fact tables; crash-freedom and the time bound are properties of the runtime (tree-sitter's C code, "
        "cgo, Go's stack and allocator, the algorithms' running time) that the model cannot exhibit — they are SEARCHED here with a malformed stream, not proved",
        "'cannot be parsed' is judged by the tree-sitter Python grammar (the third-party grammar pyscn itself is built on), asked directly through the harness command `tsparse`, together with pyscn's own parser gate: "
        "text that CPython rejects but this grammar accepts is not counted as unparseable",
        "time bound used by the search: 20 s + 40 microseconds per byte of input per run (a linear envelope far above the times measured on valid input of the same size), address space limited to 8 GiB",
    ]
    nbad = (280 if tier == "quick" else 1200) + len(deep_local_defects(random.Random(0)))     # the deep-nesting family comes on top of the stream
    hist = {"alone_runs": 0, "mixed_runs": 0, "by_kind": {}, "exit0": 0, "exit1": 0, "max_seconds": 0.0, "slowest": "", "selection_format_runs": 0}
    nontrivial = set()
    tmp = tempfile.mkdtemp(prefix="pv_c06_")
    try:
        good = {("good%d.py" % i): valid_module(rng, i) for i in range(4)}
        good["pkg/inner.py"] = valid_module(rng, 9)
        bad = malformed_stream(rng, list(good.values()), nbad)
        if replay:
            rp = json.load(open(replay))["replay"]
            if "hex" in rp:
                bad.insert(0, ("replay", bytes.fromhex(rp["hex"])))
        # reference: the good project alone
        ref_root = os.path.join(tmp, "ref")
        for fn, src in good.items():
            p = os.path.join(ref_root, "proj", fn)
            os.makedirs(os.path.dirname(p), exist_ok=True)
            with open(p, "w") as f:
                f.write(src)
        rc, ref, err = C.pyscn_json(["proj"], ref_root)
        if ref is None:
            res.violation("analyze failed on the reference project of valid files: %s" % err[-300:], {"files": good})
            return res.finish("other")
        ref_parts = per_file(ref, lambda p: True)
        phase_t0 = time.time()
        hist["phase_seconds"] = {"proofs and reference run": round(phase_t0 - res.t0, 1)}
        # ---- time bound proportional to the input size: t(4n) against 4 t(n) per input family (complexity analysis only: one parse + CFGs) -----------------
        fam = {
            "valid functions": lambda n: ("def f%d(a):\n    if a:\n        return 1\n    return 2\n\n" * 1).encode() * 0 + "".join("def f%d(a):\n    if a:\n        return 1\n    return 2\n\n" % i for i in range(n // 50)).encode(),
            "valid statements in one function": lambda n: b"def f(a):\n" + b"    a += 1\n" * (n // 11) + b"    return a\n",
            "JS functions one per line": lambda n: unit_js * (n // len(unit_js)),
            "unclosed brackets": lambda n: b"x = [\n" + b"  (1, [2, {3: (4,\n" * (n // 18),
            "random printable": lambda n: bytes(random.Random(n).choice(b"abcdef (){}[]:;,.=+-*/'\"\n\t#@") for _ in range(n)),
        }
        unit_js = b"function f(a){if(a){return a+1;}else{var b=a||0;for(var i=0;i<b;i++){g(i);}}}\n"
        # one very WIDE statement: a single if/elif chain of N clauses in one function (generated dispatch code), against the same number of branches written as
        # N separate `if` statements (same size in bytes). Sizes: 10 000 and 40 000 clauses (0.4 / 1.6 MB), where a cost per clause that grows with the length
        # of the chain is no longer hidden by the start-up time.
        fam["one if/elif chain in one function"] = lambda n: (b"def dispatch(a):\n    if a == 10000:\n        return 10000\n" + "".join(
            "    elif a == %d:\n        return %d\n" % (i, i) for i in range(10001, 10000 + max(2, n // 41))).encode() + b"    else:\n        return -1\n")
        fam["separate ifs in one function"] = lambda n: (b"def dispatch(a):\n" + "".join(
            "    if a == %d:\n        return %d\n" % (i, i) for i in range(10000, 10000 + max(2, n // 39))).encode() + b"    return -1\n")
        # the same idea for the other statements that hold an unbounded flat list of parts
        fam["one try with N except clauses"] = lambda n: ("def f(a):\n    try:\n        a()\n" + "".join("    except E%d:\n        return %d\n" % (i, i) for i in range(10000, 10000 + max(2, n // 38)))).encode()
        fam["one match with N cases"] = lambda n: ("def f(a):\n    match a:\n" + "".join("        case %d:\n            return %d\n" % (i, i) for i in range(10000, 10000 + max(2, n // 46)))).encode()
        fam["one boolean expression with N operands"] = lambda n: ("def f(a):\n    return (" + " or\n        ".join("a == %d" % i for i in range(10000, 10000 + max(2, n // 22))) + ")\n").encode()
        wide = ["one if/elif chain in one function", "separate ifs in one function", "one try with N except clauses", "one match with N cases", "one boolean expression with N operands"]
        fam_sizes = {name: (410000, 1640000) for name in wide}
        same_size_reference = {"one if/elif chain in one function": "separate ifs in one function"}
        hist["scaling"] = {}
        hist["scaling_sizes"] = {}
        hist["scaling_remeasured"] = []
        raw_times = {}

        def measure(name, n):
            root = os.path.join(tmp, "scale")
            shutil.rmtree(root, ignore_errors=True)
            os.makedirs(os.path.join(root, "proj"))
            data = fam[name](n)
            with open(os.path.join(root, "proj", "big.py"), "wb") as f:
                f.write(data)
            rc, so, se, secs = run_cli(["analyze", "--json", "--no-open", "--select", "complexity", "proj"], root, 600)
            shutil.rmtree(root, ignore_errors=True)
            return len(data), (secs if rc is not None else 600.0)

        # proportional would be x4; x8 leaves a factor 2 for noise and cache effects; below 3 s nothing is concluded
        trips = lambda t_small, t_large: t_large > 3.0 and t_large > 8.0 * max(t_small, 0.05)
        for name, mk in fam.items():
            sizes = fam_sizes.get(name, (150 * 1024, 600 * 1024))
            pairs = [measure(name, n) for n in sizes]
            real, times = [p[0] for p in pairs], [p[1] for p in pairs]
            sig = {"kind": "superlinear", "family": name}
            k = C.classify(PID, sig)
            if trips(*times) and not k:
                # not a known finding: a load peak of the machine during one of the two runs must not count; both sizes are measured again, the smaller time counts
                hist["scaling_remeasured"].append(name)
                times = [min(t, measure(name, n)[1]) for t, n in zip(times, sizes)]
            hist["scaling"][name] = [round(t, 2) for t in times]
            hist["scaling_sizes"][name] = real
            raw_times[name] = times
            kib = [r // 1024 for r in real]
            if trips(*times):
                msg = "C06 time bound: %s: %.1f s for %d KiB but %.1f s for %d KiB (x%.1f for x%.1f input; `analyze --select complexity`)" % (
                    name, times[0], kib[0], times[1], kib[1], times[1] / max(times[0], 0.05), real[1] / max(real[0], 1))
                if k:
                    res.known_finding(k, "(%s)" % msg)
                else:
                    res.violation(msg, {"signature": sig, "family": name, "sizes": real, "seconds": times, "head_hex": mk(400)[:200].hex()})
        # the envelope calibrated on valid input of the same size class (DESIGN.md, C06 oracle): the same branches in the same number of bytes, written as one
        # statement, must not cost a multiple of what they cost as N statements (x8 and 3 s: the same noise allowance as above, re-measured before it counts)
        hist["same_size_ratio"] = {}
        for name, refname in same_size_reference.items():
            t, tr = raw_times[name][1], raw_times[refname][1]
            sig = {"kind": "slower-than-same-size-input", "family": name, "reference": refname}
            k = C.classify(PID, sig)
            if trips(tr, t) and not k:
                hist["scaling_remeasured"].append("%s / %s" % (name, refname))
                if name not in hist["scaling_remeasured"]:         # (a family measured twice above is not measured a third time)
                    t = min(t, measure(name, fam_sizes[name][1])[1])
                if refname not in hist["scaling_remeasured"]:
                    tr = min(tr, measure(refname, fam_sizes[refname][1])[1])
            hist["same_size_ratio"]["%s / %s" % (name, refname)] = round(t / max(tr, 0.05), 2)
            if trips(tr, t):
                msg = "C06 time bound: %s: %.1f s for %d KiB, but %.1f s for valid input of the same size with the same branches (%s, %d KiB): x%.1f (`analyze --select complexity`)" % (
                    name, t, hist["scaling_sizes"][name][1] // 1024, tr, refname, hist["scaling_sizes"][refname][1] // 1024, t / max(tr, 0.05))
                if k:
                    res.known_finding(k, "(%s)" % msg)
                else:
                    res.violation(msg, {"signature": sig, "family": name, "reference": refname, "sizes": hist["scaling_sizes"][name], "seconds": [raw_times[name][0], t], "reference_seconds": [raw_times[refname][0], tr],
                                        "head_hex": fam[name](400)[:200].hex()})
        hist["phase_seconds"]["scaling probes"] = round(time.time() - phase_t0, 1)
        phase_t0 = time.time()
        # ---- valid Python of any shape: the clause x statement matrix (all analyses, incl. the import graph) ---------------------------------------
        cells = shape_matrix()
        hist["shape_cells"] = len(cells)
        # the matrix is analysed in 8 slices side by side (each slice is one project with all analyses); a failing slice is bisected below
        allnames = sorted(cells)
        slices = [allnames[k::8] for k in range(8)]
        with ThreadPoolExecutor(8) as ex:
            outcomes = list(ex.map(lambda kv: shape_run({n: cells[n] for n in kv[1]}, os.path.join(tmp, "shapes%d" % kv[0]), 240), enumerate(slices)))
        hist["shape_slices"] = len(slices)
        what = next((o for o in outcomes if o), None)
        if what:
            names = sorted(slices[[bool(o) for o in outcomes].index(True)])
            while len(names) > 1:            # bisect to one failing cell (a failure that needs two files keeps the larger set)
                half = names[:len(names) // 2]
                if shape_run({n: cells[n] for n in half}, os.path.join(tmp, "shapes"), 40):
                    names = half
                elif shape_run({n: cells[n] for n in names[len(half):]}, os.path.join(tmp, "shapes"), 40):
                    names = names[len(half):]
                else:
                    break
            sig = {"kind": "valid-shape", "cells": names[:3]}
            k = C.classify(PID, sig)
            msg = "C06: `pyscn analyze` on VALID Python %s: %s" % (names[:3], shape_run({n: cells[n] for n in names}, os.path.join(tmp, "shapes"), 40) or what)
            if k:
                res.known_finding(k, "(%s)" % msg[:250])
            else:
                res.violation(msg, {"signature": sig, "files": {n: cells[n] for n in names[:8]}})
        else:
            nontrivial.add("valid shape matrix")
        hist["phase_seconds"]["shape matrix"] = round(time.time() - phase_t0, 1)
        phase_t0 = time.time()
        # ---- which of the inputs cannot be parsed? Two independent answers, their union is used: --------------------------------------------------------
        # (a) pyscn's own parser gate (parser.Parse, asked in process; only inputs that are valid UTF-8 and small enough to go through the line protocol);
        # (b) the tree-sitter Python grammar asked DIRECTLY (harness command `tsparse`: a fresh tree-sitter parser, root.HasError(); nothing of pyscn's code on
        #     the path) on the very bytes of every input — a gate that lets some syntax errors through cannot hide them from this one.
        # A leading UTF-8 byte-order mark is not a syntax error in Python: for (b) such a file counts as unparseable only if it also is without the mark.
        unparseable = set()
        askable = []
        for bi, (label, data) in enumerate(bad):
            if len(data) <= 200000 and b"\x00" not in data:
                try:
                    askable.append((bi, data.decode("utf-8")))
                except UnicodeDecodeError:
                    pass
        try:
            ans = C.harness_batch("cfg", [{"Src": t, "Path": "bad.py", "AST": False} for _, t in askable])
            unparseable = {bi for (bi, _), a in zip(askable, ans) if "parse_error" in a}
        except Exception:
            unparseable = set()
        hist["rejected_by_the_parser"] = len(unparseable)
        ts_dir = os.path.join(tmp, "ts")
        os.makedirs(ts_dir)
        for bi, (label, data) in enumerate(bad):
            with open(os.path.join(ts_dir, "%d.py" % bi), "wb") as f:
                f.write(data[3:] if data.startswith(b"\xef\xbb\xbf") else data)
        ts_ans = C.harness_batch("tsparse", [{"Path": os.path.join(ts_dir, "%d.py" % bi)} for bi in range(len(bad))], jobs=JOBS)
        shutil.rmtree(ts_dir, ignore_errors=True)
        ts_unparseable = {bi for bi, a in enumerate(ts_ans) if a.get("has_error") is True}
        hist["rejected_by_tree_sitter_directly"] = len(ts_unparseable)
        hist["tree_sitter_direct_no_answer"] = sum(1 for a in ts_ans if "has_error" not in a)
        hist["rejected_only_by_pyscn_gate"] = len(unparseable - ts_unparseable)
        hist["rejected_only_by_tree_sitter_directly_among_those_put_to_both"] = len((ts_unparseable & {bi for bi, _ in askable}) - unparseable)
        depths = [a.get("error_depth", -1) for bi, a in enumerate(ts_ans) if bi in ts_unparseable]
        hist["first_syntax_error_tree_depth"] = {"0-9": sum(1 for d in depths if 0 <= d < 10), "10-99": sum(1 for d in depths if 10 <= d < 100), "100-899": sum(1 for d in depths if 100 <= d < 900),
                                                 "900-999": sum(1 for d in depths if 900 <= d < 1000), "1000-1099": sum(1 for d in depths if 1000 <= d < 1100),
                                                 "1100-2999": sum(1 for d in depths if 1100 <= d < 3000), "3000+": sum(1 for d in depths if d >= 3000), "max": max(depths + [-1])}
        hist["deep_nesting_inputs"] = {"local defect": sum(1 for l, _ in bad if l.startswith("deep nesting, local defect")), "valid": sum(1 for l, _ in bad if l.startswith("deep nesting, valid")),
                                       "local defect rejected by tree-sitter directly": sum(1 for bi, (l, _) in enumerate(bad) if l.startswith("deep nesting, local defect") and bi in ts_unparseable),
                                       "valid accepted by tree-sitter directly": sum(1 for bi, (l, _) in enumerate(bad) if l.startswith("deep nesting, valid") and bi not in ts_unparseable)}
        unparseable |= ts_unparseable
        hist["unparseable"] = len(unparseable)
        hist["unparseable_and_reported"] = 0
        hist["mixed_unparseable_and_reported"] = 0
        hist["remeasured_alone_after_time_excess"] = 0

        hist["phase_seconds"]["parseability oracles"] = round(time.time() - phase_t0, 1)
        phase_t0 = time.time()
        # ---- what pyscn says about a VALID file of the same name (control): a message that a valid file gets as well (today: the class metrics' "No classes found
        # in file" warning) does not report that a file cannot be parsed, so it does not count as the report the property asks for
        WHERES = ["aaa_bad.py", "good2_bad.py", "zzz_bad.py", "pkg/bad.py", "good1_bad.py"]
        ctl = os.path.join(tmp, "ctl_a")
        os.makedirs(os.path.join(ctl, "proj"))
        open(os.path.join(ctl, "proj", "bad.py"), "w").write("x = 1\n")
        rc, cj, cerr = C.pyscn_json(["proj"], ctl)
        noise_alone = (error_strings(cj, "bad.py") if cj is not None else set()) | stderr_lines(cerr or "", "bad.py")
        ctl = os.path.join(tmp, "ctl_m")
        shutil.copytree(os.path.join(ref_root, "proj"), os.path.join(ctl, "proj"))
        for w in WHERES:
            open(os.path.join(ctl, "proj", w), "w").write("x = 1\n")
        rc, cj, cerr = C.pyscn_json(["proj"], ctl)
        noise_mixed = (error_strings(cj, "bad.py") if cj is not None else set()) | stderr_lines(cerr or "", "bad.py")
        hist["messages_a_valid_file_of_the_same_name_gets_too"] = sorted(noise_alone | noise_mixed)[:12]
        # ---- the plan (all random choices, drawn in stream order), the runs (independent CLI invocations, JOBS at a time), the verdicts (in stream order) ------
        plan = []
        for bi, (label, data) in enumerate(bad):
            sel = rng.choice([[], [], ["--select", "complexity"], ["--select", "deadcode"], ["--select", "clones"], ["--select", "cbo,lcom"], ["--select", "deps"]])
            fmt = rng.choice(["--json", "--json", "--yaml", "--csv", "--html", None])
            where = None
            if bi % (2 if tier == "quick" else 3) == 0 or " KB" in label:
                where = rng.choice(WHERES[:4]) if " KB" not in label else WHERES[4]   # big files: always with successors
            plan.append({"sel": sel, "fmt": fmt, "args": ["analyze", "--no-open"] + ([fmt] if fmt else []) + sel + ["proj"], "where": where, "limit": 20.0 + 40e-6 * len(data)})

        def crash_lines(*texts):
            return [ln for t in texts for ln in t.split("\n") if any(m in ln for m in CRASH_MARKS)][:2]

        def one(bi):
            """both runs of input bi; returns plain data, all bookkeeping happens in the caller"""
            label, data = bad[bi]
            pl = plan[bi]
            limit = pl["limit"]
            o = {"mixed": None}
            root = os.path.join(tmp, "a%d" % bi)
            shutil.rmtree(root, ignore_errors=True)
            os.makedirs(os.path.join(root, "proj"))
            with open(os.path.join(root, "proj", "bad.py"), "wb") as f:
                f.write(data)
            rc, so, se, secs = run_cli(pl["args"], root, limit + 60)
            o.update(rc=rc, se=se, secs=secs, crash=crash_lines(se, so), mention=None)
            o["time_excess"] = rc is None or secs > limit
            alone_fails = rc is None or bool(o["crash"]) or rc not in (0, 1) or secs > limit
            if not alone_fails and rc == 0:
                mention = bool(stderr_lines(se, "bad.py") - noise_alone)
                reps = glob.glob(os.path.join(root, ".pyscn", "reports", "*"))
                if not mention and pl["fmt"] == "--json" and reps:
                    try:
                        mention = bool(error_strings(json.load(open(reps[0])), "bad.py") - noise_alone)
                    except Exception:
                        mention = True     # unreadable report: not this clause's business
                elif not mention and pl["fmt"] != "--json":
                    mention = True         # only the JSON report is searched for error lists
                o["mention"] = mention
            shutil.rmtree(root, ignore_errors=True)
            if alone_fails or pl["where"] is None:
                return o
            root = os.path.join(tmp, "m%d" % bi)
            shutil.rmtree(root, ignore_errors=True)
            shutil.copytree(os.path.join(ref_root, "proj"), os.path.join(root, "proj"))
            with open(os.path.join(root, "proj", pl["where"]), "wb") as f:
                f.write(data)
            rc, so, se, secs = run_cli(["analyze", "--json", "--no-open", "proj"], root, limit + 120)
            m = {"rc": rc, "se": se, "secs": secs, "crash": any(mk in se for mk in CRASH_MARKS), "report": False, "parts": None, "mention": None}
            if rc is None:
                o["time_excess"] = True
            got = glob.glob(os.path.join(root, ".pyscn", "reports", "*.json"))
            if got and rc in (0, 1) and not m["crash"]:
                m["report"] = True
                d = json.load(open(got[0]))
                m["parts"] = per_file(d, lambda p: not p.endswith("bad.py"))
                m["mention"] = bool((stderr_lines(se, os.path.basename(pl["where"])) | error_strings(d, os.path.basename(pl["where"]))) - noise_mixed)
            o["mixed"] = m
            shutil.rmtree(root, ignore_errors=True)
            return o

        with ThreadPoolExecutor(JOBS) as ex:
            outcomes = list(ex.map(one, range(len(bad))))
        hist["phase_seconds"]["malformed stream, %d runs at a time" % JOBS] = round(time.time() - phase_t0, 1)
        for bi, (label, data) in enumerate(bad):
            hist["by_kind"][label] = hist["by_kind"].get(label, 0) + 1
            pl, o = plan[bi], outcomes[bi]
            if o["time_excess"]:
                # measured while other runs were in flight: the time bound is judged on a second measurement with nothing else running
                hist["remeasured_alone_after_time_excess"] += 1
                o = one(bi)
            limit, sel, fmt, args = pl["limit"], pl["sel"], pl["fmt"], pl["args"]
            cap = 65536
            info = {"kind": label, "size": len(data), "hex": data[:cap].hex(), "truncated_in_replay": len(data) > cap}
            # ---- alone ----------------------------------------------------------------------------------------------------------
            rc, se, secs = o["rc"], o["se"], o["secs"]
            hist["alone_runs"] += 1
            if sel or fmt != "--json":
                hist["selection_format_runs"] += 1
            if secs > hist["max_seconds"]:
                hist["max_seconds"], hist["slowest"] = round(secs, 2), label
            sig = None
            if rc is None:
                sig, what = {"kind": "hang", "input": label}, "does not terminate within %.0f s" % (limit + 60)
            elif o["crash"]:
                sig, what = {"kind": "crash", "input": label}, "crashes: %s" % o["crash"]
            elif rc not in (0, 1):
                sig, what = {"kind": "exit-status", "input": label}, "exits with status %d" % rc
            elif secs > limit:
                sig, what = {"kind": "slow", "input": label}, "takes %.1f s for %d bytes (bound %.1f s)" % (secs, len(data), limit)
            if rc in (0, 1):
                hist["exit%d" % rc] += 1
            if sig:
                k = C.classify(PID, sig)
                msg = "C06: `pyscn %s` on a file of kind `%s` (%d bytes) %s" % (" ".join(args), label, len(data), what)
                if k:
                    res.known_finding(k, "(%s)" % msg[:250])
                else:
                    res.violation(msg, dict(info, signature=sig, args=args, stderr=se[-800:]))
                continue
            nontrivial.add(label)
            # ---- "a file that cannot be parsed is reported as an error or warning": whatever the selection, a run that ends with status 0 must name the
            # file in an error/warning of the report or on stderr
            if bi in unparseable and rc == 0:
                if o["mention"]:
                    hist["unparseable_and_reported"] += 1
                else:
                    sig = {"kind": "unreported-bad-file", "select": (sel[1] if sel else "all")}
                    k = C.classify(PID, sig)
                    msg = "C06: `pyscn %s` exits 0 on a file that cannot be parsed (kind `%s`; rejected by %s) and reports it neither as an error nor as a warning (report and stderr do not name it)" % (
                        " ".join(args), label, "the tree-sitter Python grammar asked directly" if bi in ts_unparseable else "its own parser")
                    if k:
                        res.known_finding(k, "(%s)" % msg[:250])
                    else:
                        res.violation(msg, dict(info, signature=sig, args=args, stderr=se[-400:], tree_sitter=ts_ans[bi]))
            # ---- mixed into the project of valid files --------------------------------------------------------------------------------------
            m = o["mixed"]
            if m is not None:
                where = pl["where"]
                rc, se = m["rc"], m["se"]
                hist["mixed_runs"] += 1
                if rc is None or m["crash"] or rc not in (0, 1):
                    res.violation("C06: analysing the valid project with one extra file of kind `%s` at %s: %s" % (label, where, "no termination" if rc is None else "exit %s / crash: %s" % (rc, se[-200:])),
                                  dict(info, signature={"kind": "mixed-crash", "input": label}, where=where))
                elif not m["report"]:
                    res.violation("C06: with one extra file of kind `%s` (%s) no report is written at all (exit %d): the bad file hides every other file: %s" % (label, where, rc, se[-200:]),
                                  dict(info, signature={"kind": "hides-all", "input": label}, where=where, files=good))
                else:
                    parts = m["parts"]
                    for sec in ("complexity", "dead_code", "cbo", "lcom", "clones"):
                        if parts[sec] != ref_parts[sec]:
                            miss = [x for x in ref_parts[sec] if x not in parts[sec]][:2]
                            extra = [x for x in parts[sec] if x not in ref_parts[sec]][:2]
                            sig = {"kind": "isolation", "section": sec}
                            k = C.classify(PID, sig)
                            msg = "C06 isolation: one extra file of kind `%s` at %s changes the %s results of the OTHER files: lost %s, new %s" % (label, where, sec, miss, extra)
                            if k:
                                res.known_finding(k, "(%s)" % msg[:250])
                            else:
                                res.violation(msg, dict(info, signature=sig, where=where, files=good))
                            break
                    # the same clause in the project: the file that cannot be parsed is named in an error or warning of the full report (or on stderr)
                    if bi in unparseable:
                        if m["mention"]:
                            hist["mixed_unparseable_and_reported"] += 1
                        else:
                            sig = {"kind": "unreported-bad-file", "select": "all", "mixed": True}
                            k = C.classify(PID, sig)
                            msg = "C06: `pyscn analyze --json` on the valid project plus %s, a file that cannot be parsed (kind `%s`; rejected by %s), reports that file neither as an error nor as a warning (report and stderr do not name it; exit %d)" % (
                                where, label, "the tree-sitter Python grammar asked directly" if bi in ts_unparseable else "its own parser", rc)
                            if k:
                                res.known_finding(k, "(%s)" % msg[:250])
                            else:
                                res.violation(msg, dict(info, signature=sig, where=where, files=good, tree_sitter=ts_ans[bi]))
    finally:
        shutil.rmtree(tmp, ignore_errors=True)
    if not ps.ok and not any(fi for _, _, fi in res.violations):
        res.violation("proof obligation or tie broken: " + "; ".join(ps.broken)[:1500], {"broken": ps.broken}, found_input=False)
    res.coverage.update({
        "evaluations": hist["alone_runs"] + hist["mixed_runs"],
        "distinct_nontrivial": len(nontrivial),
        "rule": "VALID shapes: the clause x statement matrix (22 clause positions incl. 2nd/3rd elif, loop-else, except/finally, match cases, async; 39 statement kinds incl. every import form and relative imports that reach the project root (marker file) and beyond, at depth 0 and depth 2; inside a function and at module level; only cells CPython compiles) analysed as one project with all analyses, bisected to one cell on failure; malformed stream: 144 clause-body defects (every compound-statement clause kind x {comment-only body, no body, blank body} x {inside a def, top level}) + 50 hand-picked shapes (empty, NUL, BOMs, UTF-16, invalid UTF-8, unterminated strings, broken blocks, CR/CRLF, nesting of parens/brackets/blocks/defs/"
                "classes/try up to several thousand levels, chains of attributes/calls/operators/elif/decorators up to 20000 links, 60000-line function, 4000 functions) + byte-level "
                "mutations of valid generated modules (truncate, flip, delete, insert token, duplicate span, shuffle lines, random bytes, block body replaced by a comment or nothing); each file alone under a random analysis selection and "
                "output format, every second one also mixed into a project of 5 valid files at a random position (per-file results of the valid files must equal the reference run); "
                "+ 68 deep-nesting inputs: 10 kinds of BALANCED nesting (list, paren, tuple, dict value, call argument, keyword argument, operand, subscript, lambda body, conditional) x 5 depths (30, 450, just below and "
                "just above 1000 tree levels, 2600) with ONE local defect in the innermost operand (5 defects, 4 positions in the file rotated), the same nesting without the defect, 8 randomly mixed nestings of random depth; "
                "'cannot be parsed' is decided by pyscn's parser gate AND by the tree-sitter Python grammar asked directly on the bytes (harness `tsparse`, no pyscn code on the path; union), for every input of the stream; "
                "such a file must be named by an error/warning (JSON report or stderr) that a VALID file of the same name does not get as well (control runs), alone when the run exits 0 and in the mixed project; "
                "scaling probes t(n) vs t(4n) per family (valid functions, statements, JS, unclosed brackets, random printable at 150/600 KiB; ONE if/elif chain of 10 000 / 40 000 clauses and the same branches as separate ifs "
                "at 0.4/1.6 MB, the chain also against the separate ifs of the same size; one try with N except clauses, one match with N cases, one boolean expression with N operands at 0.4/1.6 MB; "
                "an excess that is not a known finding is measured a second time and the smaller times count); the CLI invocations of the stream run %d at a time, a time-limit excess is re-measured with nothing else running" % JOBS,
        "samples": [{"kind": l, "size": len(b), "head_hex": b[:48].hex()} for l, b in bad[:3] + bad[50:52] + [x for x in bad if x[0].startswith("deep nesting")][:2]],
        "traces_validated_against_impl": hist["mixed_runs"],
        "distribution": hist,
    })
    return res.finish("other")
