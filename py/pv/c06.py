"""C06 — no input crashes or hangs the analyser, and a bad file never hides the others (DESIGN.md §4 C06)."""
import glob
import json
import os
import random
import shutil
import subprocess
import tempfile
import time

from . import common as C
from . import pygen

PID = "C06"
CRASH_MARKS = ("panic:", "goroutine ", "fatal error", "SIGSEGV", "runtime error", "stack overflow")


def valid_module(rng, idx):
    g = pygen.Gen(rng, max_depth=3, max_len=4, max_nodes=40)
    fs = [g.function("fn%d_%d" % (idx, k)) for k in range(rng.randint(1, 3))]
    src = pygen.render_module(fs, random.Random(rng.randrange(10 ** 6)), cosmetics=True, prelude=True)[0]
    src += "\nclass Holder%d:\n    dep: E0 = None\n\n    def get(self):\n        return self.x\n\n    def put(self, v):\n        self.x = v\n" % idx
    return src


def malformed_stream(rng, valid_sources, n):
    """(label, bytes) — syntactically invalid Python, truncated and binary data, odd encodings, very deep / very long inputs"""
    out = [("empty", b""), ("whitespace", b"   \n\t\n  \n"), ("nul bytes", b"x = 1\x00\x00\ny = 2\n"), ("only nul", b"\x00" * 64),
           ("utf-16 with BOM", "def f(a):\n    return a\n".encode("utf-16")), ("utf-8 BOM", b"\xef\xbb\xbfdef f(a):\n    return a\n"),
           ("latin-1 bytes", "s = 'caf\xe9'\n".encode("latin-1")), ("invalid utf-8", b"def f():\n    return '\xff\xfe\xfd'\n"),
           ("unterminated string", b"s = 'abc\ndef f():\n    pass\n"), ("unterminated triple quote", b'"""docstring\ndef f():\n    pass\n'),
           ("stray indent", b"  x = 1\n y = 2\n"), ("tabs and spaces", b"def f():\n\tif 1:\n        return 1\n"), ("def without body", b"def f(:\n  (((\n"),
           ("lone keywords", b"else:\nelif x:\nexcept:\nfinally:\ncase 1:\n"), ("elif chain broken", b"if a:\n    pass\nelif\nelif b:\n    pass\n"),
           ("match soup", b"match x:\n    case\n    case _ if:\n"), ("decorator only", b"@decorator\n"), ("class without name", b"class :\n    pass\n"),
           ("CRLF line ends", b"def f(a):\r\n    if a:\r\n        return 1\r\n    return 2\r\n"), ("CR only", b"def f(a):\r    return a\r"),
           ("form feed", b"def f(a):\n\x0c    return a\n"), ("backslash at EOF", b"x = 1 + \\"), ("very long line", b"x = [" + b"1, " * 200000 + b"]\n"),
           ("deep parens", b"x = " + b"(" * 3000 + b"1" + b")" * 3000 + b"\n"), ("deep parens unclosed", b"x = " + b"(" * 5000 + b"\n"),
           ("deep brackets", b"x = " + b"[" * 2000 + b"]" * 2000 + b"\n"), ("attribute chain", b"x = a" + b".b" * 20000 + b"\n"),
           ("call chain", b"x = f" + b"()" * 5000 + b"\n"), ("binary op chain", b"x = 1" + b" + 1" * 20000 + b"\n"),
           ("unary chain", b"x = " + b"not " * 3000 + b"y\n"), ("string concat chain", b"x = 'a'" + b" 'a'" * 20000 + b"\n"),
           ("lambda nest", b"x = " + b"lambda: " * 2000 + b"1\n"), ("subscript chain", b"x = a" + b"[0]" * 5000 + b"\n"),
           ("comprehension nest", b"x = " + b"[" * 300 + b"1" + b" for a in b]" * 300 + b"\n"),
           ("nested blocks 90", "".join("    " * i + "if a:\n" for i in range(90)).encode() + b"    " * 90 + b"pass\n"),
           ("nested blocks 400", "".join(" " * i + "if a:\n" for i in range(400)).encode() + b" " * 400 + b"pass\n"),
           ("nested defs 200", "".join(" " * i + "def f%d():\n" % i for i in range(200)).encode() + b" " * 200 + b"return 1\n"),
           ("nested classes 200", "".join(" " * i + "class C%d:\n" % i for i in range(200)).encode() + b" " * 200 + b"x = 1\n"),
           ("nested try 150", "".join(" " * i + "try:\n" for i in range(150)).encode() + b" " * 150 + b"pass\n" + "".join(" " * i + "except E:\n" + " " * (i + 1) + "pass\n" for i in range(149, -1, -1)).encode()),
           ("elif chain 3000", b"def f(a):\n    if a == 0:\n        return 0\n" + "".join("    elif a == %d:\n        return %d\n" % (i, i) for i in range(1, 3000)).encode()),
           ("many functions", "".join("def f%d(a):\n    if a:\n        return 1\n    return 2\n\n" % i for i in range(4000)).encode()),
           ("many statements", b"def f(a):\n" + b"    a += 1\n" * 60000 + b"    return a\n"),
           ("huge f-string", b"x = f\"" + b"{a}" * 5000 + b"\"\n"), ("nested f-string", b"x = f\"{f'{f\"{1}\"}'}\"\n"),
           ("with chain", b"with " + b", ".join(b"open(x%d) as f%d" % (i, i) for i in range(2000)) + b":\n    pass\n"),
           ("decorator stack", b"".join(b"@d%d\n" % i for i in range(3000)) + b"def f():\n    pass\n"),
           ("return outside function + break outside loop", b"return 1\nbreak\ncontinue\nyield 2\nawait x\n"),
           ("global soup", b"global\nnonlocal\ndel\nassert\nraise from\nimport\nfrom import\n"), ("random high bytes", bytes(range(128, 256)) * 4)]
    # large non-Python text saved as .py (tree-sitter's error recovery is the slow path; a time limit added there must not leak into the next file)
    js = ";".join("function f%d(a,b){var c=a?b:{k:[1,2,%d],s:'x%d'};return c&&c.k.map(function(v){return v*%d})}" % (i, i, i, i) for i in range(4000))
    sql = "\n".join("INSERT INTO t%d (id, name, payload) VALUES (%d, 'name%d', '{\"a\": [%d, %d]}');" % (i % 7, i, i, i, i * 3) for i in range(6000))
    unit = b"function f(a){if(a){return a+1;}else{var b=a||0;for(var i=0;i<b;i++){g(i);}}}\n"
    out += [("JS functions one per line 330 KB (slow error recovery)", unit * (330 * 1024 // len(unit))), ("minified JS 450 KB", js.encode()[:450000]), ("SQL dump 450 KB", sql.encode()[:450000]),
            ("CSV 300 KB", ("\n".join(",".join(str((i * j) % 97) for j in range(40)) for i in range(3000))).encode()[:300000]),
            ("base64 blob 400 KB", __import__("base64").b64encode(bytes((i * 7919) % 256 for i in range(300000)))[:400000])]
    # every clause kind with a body that holds only a comment, no body at all, or no header expression — the shapes
    # tree-sitter recovers from with nodes whose expected fields are missing (F38: comment-only `elif` body panicked)
    clauses = [("if a:", None), ("if a:", "elif b:"), ("if a:", "else:"), ("for i in a:", None), ("for i in a:", "else:"), ("while a:", None),
               ("while a:", "else:"), ("try:", "except E:"), ("try:", "except E as e:"), ("try:", "finally:"), ("try:", "except* E:"), ("with a as b:", None),
               ("def g():", None), ("class K:", None), ("match a:", None), ("match a:", "case 1:"), ("async def g():", None), ("async for i in a:", None),
               ("async with a as b:", None), ("if a:", "elif:"), ("while:", None), ("for in a:", None), ("try:", "except E:+else:"), ("try:", "except E:+finally:")]
    for first, second in clauses:
        for defect in ("comment", "missing", "blank"):
            filler = {"comment": "        # only a comment\n", "missing": "", "blank": "\n\n"}[defect]
            for wrap in (True, False):
                ind = "    " if wrap else ""
                lines = ("def f(a, b):\n" if wrap else "")
                if second is None:
                    lines += ind + first + "\n" + filler.replace("        ", ind + "    ")
                else:
                    lines += ind + first + "\n" + ind + "    x = 1\n"
                    parts = second.split("+")
                    for k, hdr in enumerate(parts):
                        lines += ind + hdr + "\n" + (filler.replace("        ", ind + "    ") if k == len(parts) - 1 else ind + "    y = 2\n")
                lines += ind + "return 2\n" if wrap else "z = 3\n"
                out.append(("%s body of `%s`%s" % (defect, second or first, " in def" if wrap else ""), lines.encode()))
    while len(out) < n:
        src = rng.choice(valid_sources).encode()
        kind = rng.choice(["truncate", "flip", "delete", "insert", "dup", "shuffle_lines", "random", "body_commented", "body_commented"])
        if kind == "body_commented":
            ls = src.split(b"\n")
            heads = [i for i, l in enumerate(ls) if l.rstrip().endswith(b":")]
            if heads:
                i = rng.choice(heads)
                ind = len(ls[i]) - len(ls[i].lstrip())
                j = i + 1
                while j < len(ls) and (not ls[j].strip() or len(ls[j]) - len(ls[j].lstrip()) > ind):
                    j += 1
                repl = rng.choice([[b" " * (ind + 4) + b"# body removed"], [], [b""], [b" " * (ind + 4) + b"..."[:0] + b"#"]])
                out.append(("block body replaced by comment/nothing", b"\n".join(ls[:i + 1] + repl + ls[j:])))
                continue
            kind = "truncate"
        if kind == "truncate":
            out.append(("truncated", src[:rng.randrange(len(src))]))
        elif kind == "flip":
            b = bytearray(src)
            for _ in range(rng.randint(1, 8)):
                b[rng.randrange(len(b))] = rng.randrange(256)
            out.append(("bytes flipped", bytes(b)))
        elif kind == "delete":
            i = rng.randrange(len(src))
            out.append(("span deleted", src[:i] + src[i + rng.randint(1, 40):]))
        elif kind == "insert":
            i = rng.randrange(len(src))
            out.append(("token inserted", src[:i] + rng.choice([b"(", b")", b":", b"'''", b"\"", b"\\", b"\n\t", b" def ", b" else: ", b"\x00", b"\xff", b"{", b"]"]) + src[i:]))
        elif kind == "dup":
            i = rng.randrange(len(src))
            out.append(("span duplicated", src[:i] + src[max(0, i - 30):i] * 3 + src[i:]))
        elif kind == "shuffle_lines":
            ls = src.split(b"\n")
            rng.shuffle(ls)
            out.append(("lines shuffled", b"\n".join(ls)))
        else:
            out.append(("random bytes", bytes(rng.randrange(256) for _ in range(rng.randint(1, 400)))))
    return out[:n]


CLAUSES = ["if", "elif1", "elif2", "elif3", "else", "for", "for_else", "while", "while_else", "try", "except", "except2", "try_else", "finally", "with", "def", "class",
           "case1", "case2", "async_for", "async_with", "nested_elif_try"]
STMTS = {
    "import": "import os.path as osp", "import_multi": "import os, sys as system, json", "from_import": "from collections import OrderedDict as OD, deque", "from_rel": "from . import sibling",
    # relative imports that reach the top-level package and beyond it (valid syntax; CPython only refuses them when executed)
    "from_rel_mod": "from .sibling import X", "from_rel2": "from .. import sibling", "from_rel3": "from ...shared.util import helper as h", "from_rel9": "from ......... import deep",
    "from_star": "from os.path import *" , "return": "return a", "raise": "raise ValueError(a)", "assign": "a = b + 1", "augassign": "a += 1", "annassign": "a: int = 1", "expr_call": "print(a, b)",
    "def": "def inner(x):\n    return x", "class": "class Inner:\n    y = 1", "lambda": "f = lambda x: x + a", "listcomp": "c = [x for x in range(a) if x]", "dictcomp": "c = {x: x for x in range(a)}",
    "genexp": "c = sum(x for x in range(a))", "with": "with open(a) as fh:\n    b = fh.read()", "assert": "assert a, b", "del": "del a", "global": "global G", "pass": "pass", "fstring": "c = f\"{a!r:>{b}}\"",
    "walrus": "if (n := a) > 1:\n    b = n", "ternary": "c = a if b else None", "try_in": "try:\n    import json\nexcept ImportError:\n    json = None", "yield": "yield a", "await": "await a",
    "starred": "c, *d = a", "decorated": "@staticmethod\ndef deco():\n    return 1", "match": "match a:\n    case [x, *rest]:\n        b = x\n    case {\"k\": v}:\n        b = v\n    case _:\n        b = 0",
    "type_checking": "if TYPE_CHECKING:\n    import typing", "docstring": "\"\"\"doc\"\"\"", "semicolons": "a = 1; b = 2; return a", "nonlocal_def": "def inner2():\n    nonlocal a\n    a = 2",
}


def shape_cell(clause, stmt):
    """a VALID function whose clause `clause` contains the statement `stmt` (positions x statement kinds, the same matrix idea as C02/C12/C13)"""
    body = STMTS[stmt]
    is_async = stmt == "await" or clause.startswith("async")
    ind = lambda txt, n: "\n".join(" " * n + l for l in txt.split("\n"))
    B = lambda n: ind(body, n)
    t = {
        "if": "    if a:\n%s\n" % B(8),
        "elif1": "    if a:\n        pass\n    elif b:\n%s\n" % B(8),
        "elif2": "    if a:\n        pass\n    elif b:\n        pass\n    elif a > b:\n%s\n" % B(8),
        "elif3": "    if a:\n        pass\n    elif b:\n        pass\n    elif a > b:\n        pass\n    elif a < b:\n%s\n    else:\n        pass\n" % B(8),
        "else": "    if a:\n        pass\n    else:\n%s\n" % B(8),
        "for": "    for i in range(3):\n%s\n" % B(8),
        "for_else": "    for i in range(3):\n        pass\n    else:\n%s\n" % B(8),
        "while": "    while a:\n%s\n        break\n" % B(8),
        "while_else": "    while a:\n        break\n    else:\n%s\n" % B(8),
        "try": "    try:\n%s\n    except Exception:\n        pass\n" % B(8),
        "except": "    try:\n        pass\n    except Exception:\n%s\n" % B(8),
        "except2": "    try:\n        pass\n    except ValueError:\n        pass\n    except (KeyError, OSError) as e:\n%s\n" % B(8),
        "try_else": "    try:\n        pass\n    except Exception:\n        pass\n    else:\n%s\n" % B(8),
        "finally": "    try:\n        pass\n    finally:\n%s\n" % B(8),
        "with": "    with open(b) as fh2:\n%s\n" % B(8),
        "def": "    def nested(a, b):\n%s\n" % B(8),
        "class": "    class Nested:\n        def m(self, a, b):\n%s\n" % B(12),
        "case1": "    match a:\n        case 1:\n%s\n        case _:\n            pass\n" % B(12),
        "case2": "    match a:\n        case 1:\n            pass\n        case [x, y] if x:\n%s\n" % B(12),
        "async_for": "    async for i in b:\n%s\n" % B(8),
        "async_with": "    async with b as fh3:\n%s\n" % B(8),
        "nested_elif_try": "    if a:\n        pass\n    elif b:\n        pass\n    elif a > b:\n        try:\n            for i in range(2):\n                if i:\n                    pass\n                elif a:\n                    pass\n                elif b:\n%s\n        finally:\n            pass\n" % B(20),
    }[clause]
    head = "%sdef cell_%s_%s(a, b):\n" % ("async " if is_async else "", clause, stmt)
    return "from typing import TYPE_CHECKING\nG = 0\n\n" + head + t + "    return b\n"


def shape_matrix():
    """{file name: source} — every (clause, statement) cell inside a function and at module level; only cells CPython compiles are kept"""
    out = {}
    for c in CLAUSES:
        for st in STMTS:
            src = shape_cell(c, st)
            variants = {"fn": src}
            lines = src.split("\n")
            k = next(i for i, l in enumerate(lines) if l.startswith(("def ", "async def ")))
            variants["mod"] = "\n".join(lines[:k] + ["a = 1", "b = 2"] + [l[4:] for l in lines[k + 1:-2]]) + "\n"
            for v, text in variants.items():
                try:
                    compile(text, "cell", "exec")
                except SyntaxError:
                    continue
                out["%s_%s_%s.py" % (v, c, st)] = text
    return out


def shape_run(files, root, timeout):
    """analyse the given cells as one project; returns None when fine, else a description"""
    shutil.rmtree(root, ignore_errors=True)
    os.makedirs(os.path.join(root, "proj"))
    open(os.path.join(root, "proj", "sibling.py"), "w").write("X = 1\n")
    # a root marker makes `proj` the project root, so `from .. import x` in a top-level module reaches above it;
    # the relative-import cells are also placed two packages deep
    open(os.path.join(root, "proj", "requirements.txt"), "w").write("")
    for fn, text in files.items():
        open(os.path.join(root, "proj", fn), "w").write(text)
        if "_from_rel" in fn:
            d = os.path.join(root, "proj", "pkg", "inner")
            os.makedirs(d, exist_ok=True)
            for dd in (os.path.join(root, "proj", "pkg"), d):
                open(os.path.join(dd, "__init__.py"), "w").write("")
            open(os.path.join(d, "sibling.py"), "w").write("X = 1\n")
            open(os.path.join(d, fn), "w").write(text)
    rc, so, se, secs = run_cli(["analyze", "--json", "--no-open", "--min-complexity", "1", "proj"], root, timeout)
    shutil.rmtree(root, ignore_errors=True)
    if rc is None:
        return "does not terminate within %d s" % timeout
    if any(m in se or m in so for m in CRASH_MARKS):
        return "crashes: %s" % [ln for ln in (se + so).split("\n") if any(m in ln for m in CRASH_MARKS)][:2]
    if rc not in (0, 1):
        return "exits with status %d" % rc
    return None


def run_cli(args, cwd, timeout):
    t0 = time.time()
    try:
        p = subprocess.run([os.path.join(C.BUILD, "pyscn")] + args, cwd=cwd, stdout=subprocess.PIPE, stderr=subprocess.PIPE, timeout=timeout,
                           preexec_fn=lambda: __import__("resource").setrlimit(__import__("resource").RLIMIT_AS, (8 << 30, 8 << 30)))
        return p.returncode, p.stdout.decode("utf-8", "replace"), p.stderr.decode("utf-8", "replace"), time.time() - t0
    except subprocess.TimeoutExpired:
        return None, "", "", time.time() - t0


def per_file(d, fname_filter):
    """the parts of a report that belong to files accepted by fname_filter, canonical and order-free"""
    out = {}
    cx = (d.get("complexity") or {}).get("Functions") or []
    out["complexity"] = sorted((f["FilePath"], f["Name"], f["StartLine"], f["Metrics"]["Complexity"], f["RiskLevel"]) for f in cx if fname_filter(f["FilePath"]))
    dc = (d.get("dead_code") or {}).get("files") or []
    out["dead_code"] = sorted((f["file_path"], fn["name"], x["location"]["start_line"], x["location"]["end_line"], x["severity"])
                              for f in dc if fname_filter(f["file_path"]) for fn in f["functions"] for x in fn["findings"])
    for sec, val in (("cbo", lambda c: c["Metrics"]["CouplingCount"]), ("lcom", lambda c: c["Metrics"]["LCOM4"])):
        out[sec] = sorted((c["FilePath"], c["Name"], c["StartLine"], val(c), c["RiskLevel"]) for c in ((d.get(sec) or {}).get("Classes") or []) if fname_filter(c["FilePath"]))
    cl = (d.get("clone") or {}).get("clone_pairs") or []
    out["clones"] = sorted(tuple(sorted([(p["clone1"]["location"]["file_path"], p["clone1"]["location"]["start_line"]), (p["clone2"]["location"]["file_path"], p["clone2"]["location"]["start_line"])])) + (p["type"],)
                           for p in cl if fname_filter(p["clone1"]["location"]["file_path"]) and fname_filter(p["clone2"]["location"]["file_path"]))
    return out


def run(tier, seed, replay=None):
    res = C.Result(PID, tier, seed)
    rng = random.Random(seed * 1000003 + 6)
    ps = C.prove(PID)
    C.proof_coverage(res, ps, "cd /verif/lean && lake build PV.Properties.C06 && #print axioms (audit)")
    res.assumptions += [
        "PARTIAL: isolation and the exit-status logic are proved over the model and tied by fact tables; crash-freedom and the time bound are properties of the runtime (tree-sitter's C code, "
        "cgo, Go's stack and allocator, the algorithms' running time) that the model cannot exhibit — they are SEARCHED here with a malformed stream, not proved",
        "time bound used by the search: 20 s + 40 microseconds per byte of input per run (a linear envelope far above the times measured on valid input of the same size), address space limited to 8 GiB",
    ]
    nbad = 280 if tier == "quick" else 1200
    hist = {"alone_runs": 0, "mixed_runs": 0, "by_kind": {}, "exit0": 0, "exit1": 0, "max_seconds": 0.0, "slowest": "", "selection_format_runs": 0}
    nontrivial = set()
    tmp = tempfile.mkdtemp(prefix="pv_c06_")
    try:
        good = {("good%d.py" % i): valid_module(rng, i) for i in range(4)}
        good["pkg/inner.py"] = valid_module(rng, 9)
        bad = malformed_stream(rng, list(good.values()), nbad)
        if replay:
            rp = json.load(open(replay))["replay"]
            if "hex" in rp:
                bad.insert(0, ("replay", bytes.fromhex(rp["hex"])))
        # reference: the good project alone
        ref_root = os.path.join(tmp, "ref")
        for fn, src in good.items():
            p = os.path.join(ref_root, "proj", fn)
            os.makedirs(os.path.dirname(p), exist_ok=True)
            with open(p, "w") as f:
                f.write(src)
        rc, ref, err = C.pyscn_json(["proj"], ref_root)
        if ref is None:
            res.violation("analyze failed on the reference project of valid files: %s" % err[-300:], {"files": good})
            return res.finish("other")
        ref_parts = per_file(ref, lambda p: True)
        # ---- time bound proportional to the input size: t(4n) against 4 t(n) per input family (complexity analysis only: one parse + CFGs) -----------------
        fam = {
            "valid functions": lambda n: ("def f%d(a):\n    if a:\n        return 1\n    return 2\n\n" * 1).encode() * 0 + "".join("def f%d(a):\n    if a:\n        return 1\n    return 2\n\n" % i for i in range(n // 50)).encode(),
            "valid statements in one function": lambda n: b"def f(a):\n" + b"    a += 1\n" * (n // 11) + b"    return a\n",
            "JS functions one per line": lambda n: unit_js * (n // len(unit_js)),
            "unclosed brackets": lambda n: b"x = [\n" + b"  (1, [2, {3: (4,\n" * (n // 18),
            "random printable": lambda n: bytes(random.Random(n).choice(b"abcdef (){}[]:;,.=+-*/'\"\n\t#@") for _ in range(n)),
        }
        unit_js = b"function f(a){if(a){return a+1;}else{var b=a||0;for(var i=0;i<b;i++){g(i);}}}\n"
        hist["scaling"] = {}
        for name, mk in fam.items():
            times = []
            for n in (150 * 1024, 600 * 1024):
                root = os.path.join(tmp, "scale")
                shutil.rmtree(root, ignore_errors=True)
                os.makedirs(os.path.join(root, "proj"))
                with open(os.path.join(root, "proj", "big.py"), "wb") as f:
                    f.write(mk(n))
                rc, so, se, secs = run_cli(["analyze", "--json", "--no-open", "--select", "complexity", "proj"], root, 600)
                times.append(secs if rc is not None else 600.0)
                shutil.rmtree(root, ignore_errors=True)
            hist["scaling"][name] = [round(t, 2) for t in times]
            # proportional would be x4; x8 leaves a factor 2 for noise and cache effects; below 3 s nothing is concluded
            if times[1] > 3.0 and times[1] > 8.0 * max(times[0], 0.05):
                sig = {"kind": "superlinear", "family": name}
                k = C.classify(PID, sig)
                msg = "C06 time bound: %s: %.1f s for 150 KiB but %.1f s for 600 KiB (x%.1f for x4 input; `analyze --select complexity`)" % (name, times[0], times[1], times[1] / max(times[0], 0.05))
                if k:
                    res.known_finding(k, "(%s)" % msg)
                else:
                    res.violation(msg, {"signature": sig, "family": name, "sizes": [150 * 1024, 600 * 1024], "seconds": times, "head_hex": mk(400)[:200].hex()})
        # ---- valid Python of any shape: the clause x statement matrix (all analyses, incl. the import graph) ---------------------------------------
        cells = shape_matrix()
        hist["shape_cells"] = len(cells)
        # the matrix is analysed in 8 slices side by side (each slice is one project with all analyses); a failing slice is bisected below
        from concurrent.futures import ThreadPoolExecutor
        allnames = sorted(cells)
        slices = [allnames[k::8] for k in range(8)]
        with ThreadPoolExecutor(8) as ex:
            outcomes = list(ex.map(lambda kv: shape_run({n: cells[n] for n in kv[1]}, os.path.join(tmp, "shapes%d" % kv[0]), 240), enumerate(slices)))
        hist["shape_slices"] = len(slices)
        what = next((o for o in outcomes if o), None)
        if what:
            names = sorted(slices[[bool(o) for o in outcomes].index(True)])
            while len(names) > 1:            # bisect to one failing cell (a failure that needs two files keeps the larger set)
                half = names[:len(names) // 2]
                if shape_run({n: cells[n] for n in half}, os.path.join(tmp, "shapes"), 40):
                    names = half
                elif shape_run({n: cells[n] for n in names[len(half):]}, os.path.join(tmp, "shapes"), 40):
                    names = names[len(half):]
                else:
                    break
            sig = {"kind": "valid-shape", "cells": names[:3]}
            k = C.classify(PID, sig)
            msg = "C06: `pyscn analyze` on VALID Python %s: %s" % (names[:3], shape_run({n: cells[n] for n in names}, os.path.join(tmp, "shapes"), 40) or what)
            if k:
                res.known_finding(k, "(%s)" % msg[:250])
            else:
                res.violation(msg, {"signature": sig, "files": {n: cells[n] for n in names[:8]}})
        else:
            nontrivial.add("valid shape matrix")
        # which of the inputs does pyscn's own parser reject? (asked in process; only inputs that are valid UTF-8 and small enough to go through the line protocol)
        unparseable = set()
        askable = []
        for bi, (label, data) in enumerate(bad):
            if len(data) <= 200000 and b"\x00" not in data:
                try:
                    askable.append((bi, data.decode("utf-8")))
                except UnicodeDecodeError:
                    pass
        try:
            ans = C.harness_batch("cfg", [{"Src": t, "Path": "bad.py", "AST": False} for _, t in askable])
            unparseable = {bi for (bi, _), a in zip(askable, ans) if "parse_error" in a}
        except Exception:
            unparseable = set()
        hist["rejected_by_the_parser"] = len(unparseable)
        hist["unparseable_and_reported"] = 0
        for bi, (label, data) in enumerate(bad):
            hist["by_kind"][label] = hist["by_kind"].get(label, 0) + 1
            limit = 20.0 + 40e-6 * len(data)
            info = {"kind": label, "size": len(data), "hex": data[:4096].hex(), "truncated_in_replay": len(data) > 4096}
            # ---- alone ----------------------------------------------------------------------------------------------------------
            root = os.path.join(tmp, "a%d" % bi)
            os.makedirs(os.path.join(root, "proj"))
            with open(os.path.join(root, "proj", "bad.py"), "wb") as f:
                f.write(data)
            sel = rng.choice([[], [], ["--select", "complexity"], ["--select", "deadcode"], ["--select", "clones"], ["--select", "cbo,lcom"], ["--select", "deps"]])
            fmt = rng.choice(["--json", "--json", "--yaml", "--csv", "--html", None])
            args = ["analyze", "--no-open"] + ([fmt] if fmt else []) + sel + ["proj"]
            rc, so, se, secs = run_cli(args, root, limit + 60)
            hist["alone_runs"] += 1
            if sel or fmt != "--json":
                hist["selection_format_runs"] += 1
            if secs > hist["max_seconds"]:
                hist["max_seconds"], hist["slowest"] = round(secs, 2), label
            sig = None
            if rc is None:
                sig, what = {"kind": "hang", "input": label}, "does not terminate within %.0f s" % (limit + 60)
            elif any(m in se or m in so for m in CRASH_MARKS):
                sig, what = {"kind": "crash", "input": label}, "crashes: %s" % [ln for ln in (se + so).split("\n") if any(m in ln for m in CRASH_MARKS)][:2]
            elif rc not in (0, 1):
                sig, what = {"kind": "exit-status", "input": label}, "exits with status %d" % rc
            elif secs > limit:
                sig, what = {"kind": "slow", "input": label}, "takes %.1f s for %d bytes (bound %.1f s)" % (secs, len(data), limit)
            if rc in (0, 1):
                hist["exit%d" % rc] += 1
            if sig:
                k = C.classify(PID, sig)
                msg = "C06: `pyscn %s` on a file of kind `%s` (%d bytes) %s" % (" ".join(args), label, len(data), what)
                if k:
                    res.known_finding(k, "(%s)" % msg[:250])
                else:
                    res.violation(msg, dict(info, signature=sig, args=args, stderr=se[-800:]))
                continue
            nontrivial.add(label)
            # ---- "a file that cannot be parsed is reported as an error or warning": whatever the selection, a run that ends with status 0 must name the
            # file in an error/warning of the report or on stderr
            if bi in unparseable and rc == 0:
                mention = "bad.py" in se
                reps = glob.glob(os.path.join(root, ".pyscn", "reports", "*"))
                if not mention and fmt == "--json" and reps:
                    try:
                        def errs(x, path):
                            if isinstance(x, dict):
                                return any(errs(v, path + [k]) for k, v in x.items())
                            if isinstance(x, list):
                                return any(errs(v, path) for v in x)
                            return isinstance(x, str) and "bad.py" in x and any(("rror" in k or "arning" in k) for k in path)
                        mention = errs(json.load(open(reps[0])), [])
                    except Exception:
                        mention = True     # unreadable report: not this clause's business
                elif not mention and fmt != "--json":
                    mention = True         # only the JSON report is searched for error lists
                if mention:
                    hist["unparseable_and_reported"] += 1
                else:
                    sig = {"kind": "unreported-bad-file", "select": (sel[1] if sel else "all")}
                    k = C.classify(PID, sig)
                    msg = "C06: `pyscn %s` exits 0 on a file its parser rejects (kind `%s`) and reports it neither as an error nor as a warning (report and stderr do not name it)" % (" ".join(args), label)
                    if k:
                        res.known_finding(k, "(%s)" % msg[:250])
                    else:
                        res.violation(msg, dict(info, signature=sig, args=args, stderr=se[-400:]))
            # ---- mixed into the project of valid files --------------------------------------------------------------------------------------
            if bi % (2 if tier == "quick" else 3) == 0 or " KB" in label:
                root = os.path.join(tmp, "m%d" % bi)
                shutil.copytree(os.path.join(ref_root, "proj"), os.path.join(root, "proj"))
                where = rng.choice(["aaa_bad.py", "good2_bad.py", "zzz_bad.py", "pkg/bad.py"]) if " KB" not in label else "good1_bad.py"   # big files: always with successors
                with open(os.path.join(root, "proj", where), "wb") as f:
                    f.write(data)
                rc, so, se, secs = run_cli(["analyze", "--json", "--no-open", "proj"], root, limit + 120)
                hist["mixed_runs"] += 1
                got = glob.glob(os.path.join(root, ".pyscn", "reports", "*.json"))
                if rc is None or any(m in se for m in CRASH_MARKS) or rc not in (0, 1):
                    res.violation("C06: analysing the valid project with one extra file of kind `%s` at %s: %s" % (label, where, "no termination" if rc is None else "exit %s / crash: %s" % (rc, se[-200:])),
                                  dict(info, signature={"kind": "mixed-crash", "input": label}, where=where))
                elif not got:
                    res.violation("C06: with one extra file of kind `%s` (%s) no report is written at all (exit %d): the bad file hides every other file: %s" % (label, where, rc, se[-200:]),
                                  dict(info, signature={"kind": "hides-all", "input": label}, where=where, files=good))
                else:
                    d = json.load(open(got[0]))
                    parts = per_file(d, lambda p: not p.endswith("bad.py"))
                    for sec in ("complexity", "dead_code", "cbo", "lcom", "clones"):
                        if parts[sec] != ref_parts[sec]:
                            miss = [x for x in ref_parts[sec] if x not in parts[sec]][:2]
                            extra = [x for x in parts[sec] if x not in ref_parts[sec]][:2]
                            sig = {"kind": "isolation", "section": sec}
                            k = C.classify(PID, sig)
                            msg = "C06 isolation: one extra file of kind `%s` at %s changes the %s results of the OTHER files: lost %s, new %s" % (label, where, sec, miss, extra)
                            if k:
                                res.known_finding(k, "(%s)" % msg[:250])
                            else:
                                res.violation(msg, dict(info, signature=sig, where=where, files=good))
                            break
                shutil.rmtree(root, ignore_errors=True)
            shutil.rmtree(os.path.join(tmp, "a%d" % bi), ignore_errors=True)
    finally:
        shutil.rmtree(tmp, ignore_errors=True)
    if not ps.ok and not any(fi for _, _, fi in res.violations):
        res.violation("proof obligation or tie broken: " + "; ".join(ps.broken)[:1500], {"broken": ps.broken}, found_input=False)
    res.coverage.update({
        "evaluations": hist["alone_runs"] + hist["mixed_runs"],
        "distinct_nontrivial": len(nontrivial),
        "rule": "VALID shapes: the clause x statement matrix (22 clause positions incl. 2nd/3rd elif, loop-else, except/finally, match cases, async; 39 statement kinds incl. every import form and relative imports that reach the project root (marker file) and beyond, at depth 0 and depth 2; inside a function and at module level; only cells CPython compiles) analysed as one project with all analyses, bisected to one cell on failure; malformed stream: 144 clause-body defects (every compound-statement clause kind x {comment-only body, no body, blank body} x {inside a def, top level}) + 50 hand-picked shapes (empty, NUL, BOMs, UTF-16, invalid UTF-8, unterminated strings, broken blocks, CR/CRLF, nesting of parens/brackets/blocks/defs/"
                "classes/try up to several thousand levels, chains of attributes/calls/operators/elif/decorators up to 20000 links, 60000-line function, 4000 functions) + byte-level "
                "mutations of valid generated modules (truncate, flip, delete, insert token, duplicate span, shuffle lines, random bytes, block body replaced by a comment or nothing); each file alone under a random analysis selection and "
                "output format, every second one also mixed into a project of 5 valid files at a random position (per-file results of the valid files must equal the reference run)",
        "samples": [{"kind": l, "size": len(b), "head_hex": b[:48].hex()} for l, b in bad[:3] + bad[50:52]],
        "traces_validated_against_impl": hist["mixed_runs"],
        "distribution": hist,
    })
    return res.finish("other")
