"""Shared machinery of the pyscn verification framework (see /verif/DESIGN.md §2.3, §3)."""
import fcntl
import hashlib
import json
import os
import random
import re
import shutil
import subprocess
import sys
import time

# the registered checks always run with the defaults; the overrides exist for bin/seedcheck_iso, which tests a seeded change in a scratch copy
ROOT = os.environ.get("VERIF_ROOT", "/verif")
REPO = os.environ.get("VERIF_REPO", "/repo")
BUILD = os.path.join(ROOT, ".build")
LEAN = os.path.join(ROOT, "lean")
GEN = os.path.join(LEAN, "PV", "Generated")
EVID = os.path.join(ROOT, "evidence")
REPLAY = os.path.join(BUILD, "replay")
ALLOWED_AXIOMS = {"propext", "Classical.choice", "Quot.sound"}
FORBIDDEN = re.compile(r"\b(sorry|admit|native_decide|bv_decide|implemented_by|unsafe)\b|^\s*axiom\s|maxHeartbeats\s+0\b", re.M)


def log(*a):
    print(*a, file=sys.stderr, flush=True)


def go_env():
    e = dict(os.environ)
    e["GOFLAGS"] = "-mod=mod"
    e["GOPROXY"] = "off"
    e.pop("GOTOOLCHAIN", None)  # /repo needs the cached go1.24.6 toolchain (auto switch)
    e.pop("GOSUMDB", None)
    return e


def sh(cmd, cwd=None, env=None, timeout=3600, input=None, check=False):
    p = subprocess.run(cmd, cwd=cwd, env=env, timeout=timeout, input=input, text=True,
                       stdout=subprocess.PIPE, stderr=subprocess.STDOUT, shell=isinstance(cmd, str))
    if check and p.returncode != 0:
        raise RuntimeError("command failed (%d): %s\n%s" % (p.returncode, cmd, p.stdout[-4000:]))
    return p.returncode, p.stdout


class Lock:
    """File lock serialising the shared builds (Go binaries, Generated/, lake)."""

    def __init__(self, name="build"):
        os.makedirs(BUILD, exist_ok=True)
        self.path = os.path.join(BUILD, name + ".lock")

    def __enter__(self):
        self.f = open(self.path, "w")
        fcntl.flock(self.f, fcntl.LOCK_EX)
        return self

    def __exit__(self, *a):
        fcntl.flock(self.f, fcntl.LOCK_UN)
        self.f.close()


# ---------------------------------------------------------------------------------------
# builds (always from /repo's current working tree)

def write_overlay():
    """overlay.json: injects /verif/harness/** into /repo's module without touching /repo."""
    rep = {}
    h = os.path.join(ROOT, "harness")
    mapping = {"cmd": "cmd/verifharness", "analyzer": "internal/analyzer", "service": "service",
               "pyscn": "cmd/pyscn", "app": "app", "parser": "internal/parser", "config": "internal/config",
               "mcp": "mcp"}
    for sub, dst in mapping.items():
        d = os.path.join(h, sub)
        if not os.path.isdir(d):
            continue
        for fn in sorted(os.listdir(d)):
            if fn.endswith(".go"):
                name = fn if sub == "cmd" else "zz_verif_" + fn
                rep[os.path.join(REPO, dst, name)] = os.path.join(d, fn)
    path = os.path.join(BUILD, "overlay.json")
    with open(path, "w") as f:
        json.dump({"Replace": rep}, f, indent=1)
    return path


def build_go():
    """pyscn binary + verifharness (tag verif, overlay). Returns (ok, output)."""
    os.makedirs(BUILD, exist_ok=True)
    env = go_env()
    rc, out = sh(["go", "build", "-o", os.path.join(BUILD, "pyscn"), "./cmd/pyscn"], cwd=REPO, env=env)
    if rc != 0:
        return False, out
    ov = write_overlay()
    rc, out2 = sh(["go", "build", "-tags", "verif", "-overlay", ov, "-o", os.path.join(BUILD, "verifharness"),
                   "./cmd/verifharness"], cwd=REPO, env=env)
    if rc != 0:
        return False, out + out2
    # the real CLI plus the hidden `verif-formats` command (one analysis, five formats)
    rc, out3 = sh(["go", "build", "-tags", "verif", "-overlay", ov, "-o", os.path.join(BUILD, "pyscn_verif"), "./cmd/pyscn"], cwd=REPO, env=env)
    return rc == 0, out + out2 + out3


def build_extract():
    env = dict(os.environ)
    env["GOFLAGS"] = "-mod=mod"
    env["GOPROXY"] = "off"
    env["GOTOOLCHAIN"] = "local"
    rc, out = sh(["go", "build", "-o", os.path.join(BUILD, "verif-extract"), "."], cwd=os.path.join(ROOT, "extract"), env=env)
    return rc == 0, out


def run_extract():
    """Regenerate PV/Generated/*.lean from /repo. Returns (ok, output). Failing units leave no file."""
    os.makedirs(GEN, exist_ok=True)
    rc, out = sh([os.path.join(BUILD, "verif-extract"), REPO, GEN])
    return rc == 0, out


def lake_build(targets, timeout=3000):
    rc, out = sh(["lake", "build"] + list(targets), cwd=LEAN, timeout=timeout)
    return rc == 0, out


def driver_path():
    return os.path.join(LEAN, ".lake", "build", "bin", "driver")


# ---------------------------------------------------------------------------------------
# proof audit

def strip_comments(src):
    src = re.sub(r"/-.*?-/", "", src, flags=re.S)
    src = re.sub(r"--[^\n]*", "", src)
    return src


def source_audit():
    """grep for forbidden constructs in every non-generated Lean source (comments stripped)."""
    bad = []
    for dp, _, fns in os.walk(os.path.join(LEAN, "PV")):
        for fn in fns:
            if fn.endswith(".lean"):
                p = os.path.join(dp, fn)
                m = FORBIDDEN.search(strip_comments(open(p).read()))
                if m:
                    bad.append("%s: %s" % (p, m.group(0).strip()))
    for fn in ("Driver.lean",):
        p = os.path.join(LEAN, fn)
        if os.path.exists(p):
            m = FORBIDDEN.search(strip_comments(open(p).read()))
            if m:
                bad.append("%s: %s" % (p, m.group(0).strip()))
    return bad


def property_files(pid):
    """PV/Properties/<pid>.lean plus the optional extension PV/Properties/<pid>x.lean (theorems about the executable MIRRORS of the Go
    algorithms: they import the proofs in PV/Proofs, which in turn import <pid>.lean, so they cannot live in <pid>.lean itself)."""
    out = [pid]
    for suffix in "xyz":
        if os.path.exists(os.path.join(LEAN, "PV", "Properties", pid + suffix + ".lean")):
            out.append(pid + suffix)
    return out


def property_theorems(pid):
    """Names of the obligations of a property = theorems `<pid>_*` in PV/Properties/<pid>.lean and its extensions <pid>x/y/z.lean."""
    out = []
    for mod in property_files(pid):
        p = os.path.join(LEAN, "PV", "Properties", mod + ".lean")
        src = strip_comments(open(p).read())
        ns = re.search(r"^namespace\s+(\S+)", src, re.M)
        prefix = (ns.group(1) + ".") if ns else ""
        names = re.findall(r"^\s*theorem\s+(" + pid + r"_\w+)", src, re.M)
        out += [prefix + n for n in names]
    return out


def axiom_audit(pid, theorems):
    """#print axioms for each theorem; returns {theorem: [axioms]} and raw output."""
    os.makedirs(os.path.join(BUILD, "audit"), exist_ok=True)
    f = os.path.join(BUILD, "audit", "Audit_%s.lean" % pid)
    with open(f, "w") as fh:
        for mod in property_files(pid):
            fh.write("import PV.Properties.%s\n" % mod)
        for t in theorems:
            fh.write("#print axioms %s\n" % t)
    rc, out = sh(["lake", "env", "lean", f], cwd=LEAN, timeout=1800)
    res = {}
    for m in re.finditer(r"'([^']+)' depends on axioms: \[([^\]]*)\]", out):
        res[m.group(1)] = [a.strip() for a in m.group(2).replace("\n", " ").split(",") if a.strip()]
    for m in re.finditer(r"'([^']+)' does not depend on any axioms", out):
        res[m.group(1)] = []
    return rc == 0, res, out


# ---------------------------------------------------------------------------------------
# line-protocol subprocesses

class LineProc:
    """A co-process speaking one line in / one line out. Restarts after a crash."""

    def __init__(self, argv, env=None, cwd=None):
        self.argv, self.env, self.cwd = argv, env, cwd
        self.p = None
        self.crashes = 0

    def start(self):
        self.p = subprocess.Popen(self.argv, stdin=subprocess.PIPE, stdout=subprocess.PIPE, stderr=subprocess.PIPE,
                                  text=True, bufsize=1, env=self.env, cwd=self.cwd)

    def ask(self, line):
        if self.p is None or self.p.poll() is not None:
            self.start()
        try:
            self.p.stdin.write(line + "\n")
            self.p.stdin.flush()
            out = self.p.stdout.readline()
        except BrokenPipeError:
            out = ""
        if out == "":
            self.crashes += 1
            err = ""
            try:
                err = self.p.stderr.read()[-2000:]
            except Exception:
                pass
            self.p = None
            return None, err
        return out.rstrip("\n"), None

    def close(self):
        if self.p is not None:
            try:
                self.p.stdin.close()
                self.p.wait(timeout=10)
            except Exception:
                self.p.kill()
            self.p = None


def batch(argv, lines, env=None, cwd=None, timeout=3600):
    """Run argv once over all lines (fast path); returns list of output lines or raises."""
    p = subprocess.run(argv, input="\n".join(lines) + "\n", text=True, stdout=subprocess.PIPE, stderr=subprocess.PIPE,
                       env=env, cwd=cwd, timeout=timeout)
    outs = p.stdout.split("\n")
    if outs and outs[-1] == "":
        outs.pop()
    return p.returncode, outs, p.stderr


def sh_capture(argv, cwd=None, env=None, timeout=900):
    p = subprocess.run(argv, cwd=cwd, env=env, text=True, stdout=subprocess.PIPE, stderr=subprocess.PIPE, timeout=timeout)
    return p.returncode, p.stdout, p.stderr


def harness_env():
    e = dict(os.environ)
    e["GOMEMLIMIT"] = "4GiB"
    return e


def harness_batch(cmd, cases, timeout=3600, jobs=1):
    """cases: list of JSON-able objects; returns list of parsed responses (same length).
    jobs > 1: the cases are dealt round-robin to that many harness processes (results come back in input order)."""
    lines = [cmd + " " + json.dumps(c, separators=(",", ":")) for c in cases]
    if jobs > 1 and len(lines) > 1:
        from concurrent.futures import ThreadPoolExecutor
        jobs = min(jobs, len(lines))
        parts = [lines[k::jobs] for k in range(jobs)]

        def one(part):
            rc, outs, err = batch([os.path.join(BUILD, "verifharness")], part, env=harness_env(), timeout=timeout)
            if len(outs) != len(part):
                raise RuntimeError("verifharness %s: %d responses for %d requests (rc=%s)\n%s" % (cmd, len(outs), len(part), rc, err[-2000:]))
            return outs
        with ThreadPoolExecutor(jobs) as ex:
            res = list(ex.map(one, parts))
        out = [None] * len(lines)
        for k, part in enumerate(res):
            out[k::jobs] = part
        return [json.loads(o) for o in out]
    rc, outs, err = batch([os.path.join(BUILD, "verifharness")], lines, env=harness_env(), timeout=timeout)
    if len(outs) != len(lines):
        raise RuntimeError("verifharness %s: %d responses for %d requests (rc=%s)\n%s" % (cmd, len(outs), len(lines), rc, err[-2000:]))
    return [json.loads(o) for o in outs]


def driver_batch(lines, timeout=3600):
    rc, outs, err = batch([driver_path()], lines, timeout=timeout)
    if len(outs) != len(lines):
        raise RuntimeError("driver: %d responses for %d requests (rc=%s)\n%s" % (len(outs), len(lines), rc, err[-2000:]))
    return outs


# ---------------------------------------------------------------------------------------
# pyscn CLI

_run_counter = [0]


def pyscn(args, cwd, timeout=600, env=None):
    """Run the freshly built pyscn binary. Returns (rc, stdout, stderr)."""
    e = dict(os.environ if env is None else env)
    p = subprocess.run([os.path.join(BUILD, "pyscn")] + list(args), cwd=cwd, text=True, stdout=subprocess.PIPE,
                       stderr=subprocess.PIPE, timeout=timeout, env=e)
    return p.returncode, p.stdout, p.stderr


def pyscn_json(target_args, cwd, extra=(), timeout=600):
    """`pyscn analyze --json` in cwd; returns (rc, report dict or None, stderr). The report
    directory is emptied first so that the newest file is ours."""
    rep = os.path.join(cwd, ".pyscn", "reports")
    if os.path.isdir(rep):
        shutil.rmtree(rep)
    rc, out, err = pyscn(["analyze", "--json", "--no-open"] + list(extra) + list(target_args), cwd=cwd, timeout=timeout)
    data = None
    if os.path.isdir(rep):
        fs = sorted(f for f in os.listdir(rep) if f.endswith(".json"))
        if fs:
            with open(os.path.join(rep, fs[-1])) as f:
                try:
                    data = json.load(f)
                except Exception:
                    data = None
    return rc, data, out + err


# ---------------------------------------------------------------------------------------
# known findings, evidence, verdict

def known_findings():
    p = os.path.join(ROOT, "known_findings.json")
    if not os.path.exists(p):
        return []
    with open(p) as f:
        return json.load(f).get("findings", [])


def classify(pid, signature):
    """Return the known (status == 'known') finding whose signature equals `signature`, else None."""
    for k in known_findings():
        if k.get("property") == pid and k.get("status") == "known" and k.get("signature") == signature:
            return k
    return None


class Result:
    def __init__(self, pid, tier, seed):
        self.pid, self.tier, self.seed = pid, tier, seed
        self.t0 = time.time()
        self.violations = []      # (what, replay_path, found_input: bool)
        self.known = {}           # finding id -> text
        self.coverage = {}
        self.assumptions = []
        self.notes = []
        if os.path.isdir(REPLAY):
            for fn in os.listdir(REPLAY):
                if fn.startswith(pid + "_"):
                    os.remove(os.path.join(REPLAY, fn))

    def violation(self, what, replay_obj, found_input=True):
        os.makedirs(REPLAY, exist_ok=True)
        h = hashlib.sha1(json.dumps(replay_obj, sort_keys=True, default=str).encode()).hexdigest()[:10]
        path = os.path.join(REPLAY, "%s_%s.json" % (self.pid, h))
        with open(path, "w") as f:
            json.dump({"property": self.pid, "what": what, "seed": self.seed, "tier": self.tier, "replay": replay_obj},
                      f, indent=1, default=str)
        self.violations.append((what, path, found_input))

    def known_finding(self, k, detail=""):
        self.known[k["id"]] = "%s %s" % (k["what"], detail)

    def finish(self, level="proof"):
        for fid in sorted(self.known):
            print("KNOWN-FINDING: property=%s %s %s" % (self.pid, fid, self.known[fid].strip()))
        seen = set()
        # a found input always outranks a "no-failing-input-found" report
        any_found = any(f for _, _, f in self.violations)
        for what, path, found in self.violations:
            if path in seen or (any_found and not found):
                continue
            seen.add(path)
            if len(seen) <= 8:
                log("violation:", what)
                print("VIOLATION property=%s replay=%s%s" % (self.pid, path, "" if found else " no-failing-input-found"))
        if len(seen) > 8:
            log("(%d further violations not printed; see %s)" % (len(seen) - 8, REPLAY))
        ev = {
            "property_id": self.pid, "tier": self.tier, "seed": self.seed, "level": level,
            "coverage": self.coverage, "assumptions": self.assumptions,
            "wall_s": round(time.time() - self.t0, 2), "violations": len(seen),
        }
        if level == "other" and not str(ev["coverage"].get("explanation", "")).strip():
            ev["coverage"]["explanation"] = OTHER_EXPLANATION.get(self.pid, OTHER_EXPLANATION["default"])
        if self.notes:
            ev["coverage"]["notes"] = self.notes
        if self.known:
            ev["coverage"]["known_findings_hit"] = sorted(self.known)
        os.makedirs(EVID, exist_ok=True)
        with open(os.path.join(EVID, self.pid + ".json"), "w") as f:
            json.dump(ev, f, indent=1, default=str)
        return 1 if seen else 0


OTHER_EXPLANATION = {
    "default": "partial: the logic part of the property is proved in Lean over a model tied to /repo (obligations / discharged / theorems), "
               "the part of its truth that lives in a runtime the model cannot exhibit is explored (evaluations / distribution); see level_note in MANIFEST.json",
    "C06": "partial by design (DESIGN.md 4 C06, 10.2): isolation of a bad file and the exit-status logic are PROVED over the model of the five per-file service loops "
           "and main (theorems C06_isolation, C06_results, C06_exit, and C06_facts pinning the loops' guards/continues to the source, regenerated every run); "
           "crash-freedom, termination and the time bound of tree-sitter (C), cgo and the Go runtime cannot be exhibited by a Lean model and are SEARCHED: the valid clause x statement "
           "matrix, clause-body defects, a malformed byte stream alone and mixed into valid projects, large foreign text, scaling probes (counts in evaluations/distribution)",
    "C20": "partial by design (DESIGN.md 4 C20, 10.2): that the combined report is the per-analysis results put side by side, that a disabled analysis contributes nothing and that per-file "
           "results do not depend on the other files is PROVED over the combination model (C20_select, C20_disabled, C20_per_file, and C20_facts pinning Execute's task table, goroutine starts "
           "and result assignments to the source, regenerated every run); absence of shared mutable state between the analysis goroutines is a property of the Go runtime execution that the "
           "model cannot exhibit and is EXPLORED: combined vs separate runs, file subsets/orders, the race-detector build under GOMAXPROCS 2/8/16, MCP tools in process (counts in evaluations/distribution)",
}


TRUSTED_BASE = [
    "Lean 4.33.0 kernel (thorough tier: leanchecker re-check of the compiled modules)",
    "axioms allowed in #print axioms: propext, Classical.choice, Quot.sound (audited every run)",
    "verif-extract (Go, go/ast + go/types): translates the stated Go subset faithfully, fails on anything else",
    "correspondence harness (go build -overlay, tag verif), canonicalisers and generators in /verif/py",
]


class ProofState:
    """Outcome of steps 2-4 of a check (extract, lake build, audit) for one property."""

    def __init__(self):
        self.ok = True
        self.broken = []       # human-readable descriptions of broken obligations/ties
        self.theorems = []
        self.discharged = []
        self.axioms = {}
        self.output = ""


def failing_theorems(pid, lake_output):
    """Map `error: PV/Properties/Cxx.lean:LINE:` messages to the enclosing theorem names."""
    out = []
    for m in re.finditer(r"error: (?:\./)?(PV/[\w/]+\.lean):(\d+):(\d+): ([^\n]*)", lake_output):
        path, line = os.path.join(LEAN, m.group(1)), int(m.group(2))
        name = None
        try:
            src = open(path).read().split("\n")
            for i in range(min(line, len(src)) - 1, -1, -1):
                mm = re.match(r"\s*(?:theorem|lemma|def|instance|example)\s+([\w.']+)?", src[i])
                if mm:
                    name = mm.group(1) or "example"
                    break
        except Exception:
            pass
        out.append("%s:%d %s: %s" % (m.group(1), line, name or "?", m.group(4)[:160]))
    return out


def prove(pid, extra_targets=(), need_driver=True):
    """Steps 1-4: build Go, extract, lake build the property (and the driver), audit."""
    ps = ProofState()
    with Lock():
        ok, out = build_extract()
        if not ok:
            raise RuntimeError("cannot build verif-extract:\n" + out)
        ok, out = build_go()
        if not ok:
            ps.ok = False
            ps.broken.append("go build of /repo failed: " + out[-800:])
            ps.output += out
            return ps
        ok, out = run_extract()
        ps.output += out
        extract_errors = [l for l in out.split("\n") if l.startswith("EXTRACT-ERROR")]
        targets = ["PV.Properties." + m for m in property_files(pid)] + list(extra_targets)
        ok, out = lake_build(targets)
        ps.output += out
        if not ok:
            ps.ok = False
            ps.broken += failing_theorems(pid, out) or ["lake build failed: " + out[-600:]]
            rel = [e for e in extract_errors]
            ps.broken += rel
        if need_driver:
            okd, outd = lake_build(["driver"])
            if not okd:
                ps.ok = False
                ps.broken.append("driver build failed: " + "; ".join(failing_theorems(pid, outd))[:600])
                ps.output += outd
        bad = source_audit()
        if bad:
            ps.ok = False
            ps.broken += ["forbidden construct: " + b for b in bad]
        ps.theorems = property_theorems(pid)
        if ok and os.environ.get("PV_TIER") == "thorough":
            # independent re-check of the compiled module (and everything it imports from this project) by leanchecker
            rc, outc = sh(["lake", "env", "leanchecker"] + ["PV.Properties." + m for m in property_files(pid)], cwd=LEAN, timeout=1800)
            ps.output += outc
            ps.leanchecker = "ok" if rc == 0 else "FAILED"
            if rc != 0:
                ps.ok = False
                ps.broken.append("leanchecker rejects PV.Properties.%s: %s" % (pid, outc[-400:]))
        if ok:
            oka, ax, outa = axiom_audit(pid, ps.theorems)
            ps.axioms = ax
            for t in ps.theorems:
                if t in ax and set(ax[t]) <= ALLOWED_AXIOMS:
                    ps.discharged.append(t)
                else:
                    ps.ok = False
                    ps.broken.append("axiom audit failed for %s: %s" % (t, ax.get(t, "not printed")))
    return ps


def proof_coverage(res, ps, checker_cmd):
    used = sorted({a for t in ps.discharged for a in ps.axioms.get(t, [])})
    res.coverage.update({
        "obligations": len(ps.theorems),
        "discharged": len(ps.discharged),
        "checker_cmd": checker_cmd,
        "trusted_base": TRUSTED_BASE + ["axioms actually used by this property's theorems: " + (", ".join(used) or "none")],
        "theorems": [t.split(".")[-1] for t in ps.discharged],
    })
    if getattr(ps, "leanchecker", None):
        res.coverage["leanchecker"] = ps.leanchecker


def seed_from_env():
    try:
        return int(os.environ.get("VERIF_SEED", "1"))
    except ValueError:
        return 1


def f2bits(x):
    import struct
    return "%016x" % struct.unpack("<Q", struct.pack("<d", float(x)))[0]


def bits2f(s):
    import struct
    return struct.unpack("<d", struct.pack("<Q", int(s, 16)))[0]
