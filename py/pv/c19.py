"""C19 — the check gate fails exactly when a gated violation exists (DESIGN.md §4 C19)."""
import itertools
import json
import os
import random
import re
import shutil
import tempfile

from . import common as C

PID = "C19"
ANALYSES = ["complexity", "deadcode", "clones", "deps", "mockdata"]


def func_with_complexity(name, k):
    """a function whose McCabe complexity is exactly k (k-1 sequential ifs)"""
    lines = ["def %s(a):" % name, "    t = 0"]
    for i in range(k - 1):
        lines += ["    if a > %d:" % i, "        t += %d" % (i + 1)]
    lines.append("    return t")
    return "\n".join(lines) + "\n"


def write_project(root, cx, dead, ncycles):
    """cx: list of complexities; dead: list of 'c' (critical: right after return) / 'w' (warning: > 5 lines after return);
    ncycles: number of 2-module import cycles"""
    os.makedirs(root, exist_ok=True)
    with open(os.path.join(root, "cxmod.py"), "w") as f:
        for i, k in enumerate(cx):
            f.write(func_with_complexity("cx_%d" % i, k) + "\n\n")
        f.write("BASE = 1\n")
    with open(os.path.join(root, "deadmod.py"), "w") as f:
        f.write("VALUE = 2\n\n\n")
        for i, d in enumerate(dead):
            f.write("def dead_%d(a):\n    return a\n" % i)
            if d == "w":
                f.write("".join("    # spacer %d\n" % j for j in range(7)))
            f.write("    lost = a + %d\n\n\n" % i)
    for c in range(ncycles):
        with open(os.path.join(root, "cyc%da.py" % c), "w") as f:
            f.write("import cyc%db\n\nA%d = 1\n" % (c, c))
        with open(os.path.join(root, "cyc%db.py" % c), "w") as f:
            f.write("import cyc%da\n\nB%d = 2\n" % (c, c))


def parse_check_stderr(err):
    cx, dead, cyc = set(), set(), set()
    for line in err.split("\n"):
        m = re.match(r"^(.*?):(\d+):(\d+): (\S+) is too complex \((\d+) > (\d+)\)$", line)
        if m:
            cx.add((os.path.basename(m.group(1)), int(m.group(2)), m.group(4), int(m.group(5)), int(m.group(6))))
            continue
        m = re.match(r"^(.*?):(\d+):(\d+): (\w+) \((critical|warning|info)\)$", line)
        if m:
            dead.add((os.path.basename(m.group(1)), int(m.group(2)), m.group(5)))
            continue
        m = re.match(r"^(.*?):1:1: circular dependency detected: (.*)$", line)
        if m:
            cyc.add(frozenset(x.split(".")[-1] for x in m.group(2).split(" -> ")))
    return cx, dead, cyc


SEV_LETTER = {"critical": "c", "warning": "w", "info": "i"}
RANK = {"info": 1, "warning": 2, "critical": 3}


def run(tier, seed, replay=None):
    res = C.Result(PID, tier, seed)
    rng = random.Random(seed * 1000003 + 19)
    ps = C.prove(PID)
    C.proof_coverage(res, ps, "cd /verif/lean && lake build PV.Properties.C19 && #print axioms (audit)")
    res.assumptions += [
        "the model's inputs are the per-analysis results; they are taken from `pyscn analyze --json` on the same tree (that analyze and "
        "check agree per item is itself compared: the per-violation lines of check vs the items of analyze)",
        "C19_gate assumes --max-cycles >= 0 (a negative limit is run on the real binary and recorded, not judged)",
        "config discovery belongs to C17: config scenarios pass --config explicitly",
        "the gate severity is `critical` (check has no severity flag; that a config `[dead_code] min_severity` cannot change it is a "
        "configuration-precedence matter examined under C17, not a gate matter)",
    ]
    mult = 1 if ps.ok else 4
    tmp = tempfile.mkdtemp(prefix="pv_c19_")
    scenarios = []
    # project axis: complexity around the three possible thresholds, dead code none/critical/warning, 0..2 cycles
    proj_specs = []
    for mx in (3, 10, 5):
        for delta in (-1, 0, 1):
            proj_specs.append(([2, mx + delta], [], 0))
    proj_specs += [([2], [], 11), ([2, 11], [], 14)]          # more cycles than any "show the first N" limit
    proj_specs += [([2], ["c"], 0), ([2], ["w"], 0), ([2], ["w", "c"], 0), ([2], [], 1), ([2], [], 2), ([11], ["c"], 2), ([2], [], 0),
                   ([10, 10, 11], ["c", "c"], 1)]
    flag_axis = []
    selects = [None, ["complexity"], ["deadcode"], ["deps"], ["clones"], ["complexity", "deadcode"], ["complexity", "deps"], ["deadcode", "deps"],
               ["complexity", "deadcode", "deps"], ["complexity", "deadcode", "clones", "deps"], ["circular"], ["clones", "deps"]]
    for sel in selects:
        for mc in (None, 3, 10):
            # besides the gate key, keys that must NOT influence the gate: display filters and orders of the same configuration file
            for cfg in (None, {"max_complexity": 5}, {"max_complexity": 0}, {"output_sort_by": "name"}, {"output_min_complexity": 20},
                        {"max_complexity": 5, "output_sort_by": "name", "output_min_complexity": 8}, {"output_sort_by": "risk", "show_details": True}):
                for allow_dead in (False, True):
                    for maxcyc in (None, 1, 2):
                        for allow_circ in (False, True):
                            flag_axis.append((sel, mc, cfg, allow_dead, maxcyc, allow_circ))
    rng.shuffle(flag_axis)
    per_project = (40 if tier == "quick" else 160) * mult
    if replay:
        rp = json.load(open(replay))["replay"]
        if "project" in rp and "flags" in rp:
            proj_specs = [tuple(rp["project"])] + proj_specs
    # build projects and collect analyze results once per (project, config)
    nruns, diffs, nontrivial = 0, 0, set()
    hist = {"exit0": 0, "exit1": 0, "by_gate": {"complexity": 0, "deadcode": 0, "deps": 0}}
    samples = []
    try:
        for pi, (cx, dead, ncyc) in enumerate(proj_specs):
            root = os.path.join(tmp, "p%d" % pi)
            proj = os.path.join(root, "proj")
            write_project(proj, cx, dead, ncyc)
            # ground truth per analysis from analyze --json
            rc, data, err = C.pyscn_json(["proj"], root, extra=["--select", "complexity,deadcode,deps", "--min-complexity", "1", "--min-severity", "info"])
            if data is None:
                res.violation("analyze produced no report: " + err[-300:], {"project": [cx, dead, ncyc]})
                continue
            funcs = [(os.path.basename(f["FilePath"]), f["StartLine"], f["Name"], f["Metrics"]["Complexity"]) for f in (data["complexity"]["Functions"] or [])]
            findings = []
            for fl in data["dead_code"]["files"] or []:
                for fn in fl["functions"] or []:
                    for x in fn["findings"] or []:
                        findings.append((os.path.basename(x["location"]["file_path"]), x["location"]["start_line"], x["severity"]))
            cd = (data["system"]["DependencyAnalysis"].get("CircularDependencies") or {})
            cycles = [frozenset(m.split(".")[-1] for m in c["Modules"]) for c in (cd.get("CircularDependencies") or [])]
            picks = flag_axis[(pi * per_project) % len(flag_axis):][:per_project]
            if len(picks) < per_project:
                picks += flag_axis[:per_project - len(picks)]
            if ncyc > 2:
                # the ratchet use of --max-cycles on a project with many cycles: exactly at, below and above the number of cycles, and at round numbers
                picks = [(sel, None, None, False, mcyc, ac) for sel in (["deps"], ["complexity", "deps"], ["circular"]) for mcyc in (None, 0, 9, 10, ncyc - 1, ncyc, ncyc + 1)
                         for ac in (False, True)]
            lines, meta = [], []
            for (sel, mc, cfg, allow_dead, maxcyc, allow_circ) in picks:
                args = ["check", "--skip-clones"] if sel is None else ["check", "--select", ",".join(sel)]
                if sel is None and rng.random() < 0.3:
                    args = ["check"]
                if mc is not None:
                    args += ["--max-complexity", str(mc)]
                cfgmax, gate = 0, "critical"
                if cfg:
                    cpath = os.path.join(root, "cfg_%s.toml" % "_".join("%s%s" % kv for kv in cfg.items()))
                    with open(cpath, "w") as f:
                        if "max_complexity" in cfg:
                            f.write("[complexity]\nmax_complexity = %d\n" % cfg["max_complexity"])
                            cfgmax = cfg["max_complexity"]
                        if "min_severity" in cfg:
                            f.write("[dead_code]\nmin_severity = \"%s\"\n" % cfg["min_severity"])
                            gate = cfg["min_severity"]
                        outkeys = [("sort_by", json.dumps(cfg["output_sort_by"])) for _ in [0] if "output_sort_by" in cfg] + \
                                  [("min_complexity", str(cfg["output_min_complexity"])) for _ in [0] if "output_min_complexity" in cfg] + \
                                  [("show_details", "true") for _ in [0] if cfg.get("show_details")]
                        if outkeys:
                            f.write("[output]\n" + "".join("%s = %s\n" % kv for kv in outkeys))
                    args += ["--config", cpath]
                if allow_dead:
                    args.append("--allow-dead-code")
                if maxcyc is not None:
                    args += ["--max-cycles", str(maxcyc)]
                if allow_circ:
                    args.append("--allow-circular-deps")
                rc, out, err = C.pyscn(args + ["proj"], cwd=root)
                nruns += 1
                skip_clones = "--skip-clones" in args
                selmask = "-" if sel is None else "".join("1" if (a in sel or (a == "deps" and "circular" in sel)) else "0" for a in ANALYSES)
                # the dead-code response of check only holds findings at or above the merged min severity (= gate)
                dead_tok = SEV_LETTER[gate] + ":" + ",".join(SEV_LETTER[s] for (_, _, s) in findings if RANK[s] >= RANK[gate])
                cx_tok = "%d:%s" % (cfgmax, ",".join(str(c) for (_, _, _, c) in funcs))
                line = "gate %s %d %d %d %d %d %d %s %s 0 %d 0" % (selmask, 10 if mc is None else mc, 1 if mc is not None else 0, int(allow_dead),
                                                                  int(skip_clones), int(allow_circ), 0 if maxcyc is None else maxcyc, cx_tok, dead_tok, len(cycles))
                lines.append(line)
                meta.append((args, rc, err, mc, cfgmax, gate, sel, allow_dead, maxcyc, allow_circ))
            want = C.driver_batch(lines) if os.path.exists(C.driver_path()) else None
            if want is None:
                ps.ok = False
                ps.broken.append("driver missing")
                continue
            for line, w, (args, rc, err, mc, cfgmax, gate, sel, allow_dead, maxcyc, allow_circ) in zip(lines, want, meta):
                exp_rc = 0 if w == "1" else 1
                hist["exit0" if rc == 0 else "exit1"] += 1
                nontrivial.add(line + "|%d" % pi)
                info = {"project": [cx, dead, ncyc], "flags": args, "exit": rc, "model_line": line, "stderr": err[-600:]}
                if len(samples) < 2:
                    samples.append({"project": {"complexities": cx, "dead": dead, "cycles": ncyc}, "cmd": "pyscn " + " ".join(args) + " proj", "exit": rc})
                if rc not in (0, 1):
                    res.violation("pyscn %s exited with status %d" % (" ".join(args), rc), info)
                    continue
                if rc != exp_rc:
                    diffs += 1
                    res.violation("pyscn %s: exit %d, the gate model (fed with what `analyze` reports for the same tree) says %d" % (" ".join(args), rc, exp_rc), info)
                    continue
                # per-violation lines = the violations analyze reports
                en = (lambda a: (a in sel or (a == "deps" and "circular" in sel)) if sel is not None else a in ("complexity", "deadcode"))
                pcx, pdead, pcyc = parse_check_stderr(err)
                eff = mc if mc is not None else (cfgmax if cfgmax > 0 else 10)
                want_cx = {(f, l, n, c, eff) for (f, l, n, c) in funcs if c > eff} if en("complexity") else set()
                want_dead = {(f, l, s) for (f, l, s) in findings if RANK[s] >= RANK[gate]} if en("deadcode") else set()
                want_cyc = set(cycles) if en("deps") else set()
                if want_cx:
                    hist["by_gate"]["complexity"] += 1
                if want_dead:
                    hist["by_gate"]["deadcode"] += 1
                if want_cyc:
                    hist["by_gate"]["deps"] += 1
                if pcx != want_cx:
                    res.violation("check prints complexity violations %s, analyze reports %s" % (sorted(pcx), sorted(want_cx)), info)
                elif pdead != want_dead:
                    res.violation("check prints dead-code violations %s, analyze reports %s" % (sorted(pdead), sorted(want_dead)), info)
                elif pcyc != want_cyc:
                    res.violation("check prints cycles %s, analyze reports %s" % (sorted(map(sorted, pcyc)), sorted(map(sorted, want_cyc))), info)
        # "…or when an analysis could not run": a missing --config file makes the config-reading analyses fail (complexity, dead code,
        # clones) while the dependency check still runs.  WHICH analyses failed is read from the tool's own failure lines; the model
        # then says what the exit status must be.
        root = os.path.join(tmp, "err")
        write_project(os.path.join(root, "proj"), [2], [], 1)
        with open(os.path.join(root, "unparsable.py"), "w") as f:
            f.write("def f(:\n  (((\n")
        err_lines, err_meta = [], []
        for sel in (["complexity", "deps"], ["deadcode", "deps"], ["deps"], ["complexity"], ["clones", "deps"], ["complexity", "deadcode", "deps"],
                    ["clones"], ["deadcode"], None):
            for extra in ([], ["--max-cycles", "1"], ["--allow-circular-deps", "--allow-dead-code"]):
                args = (["check", "--skip-clones"] if sel is None else ["check", "--select", ",".join(sel)]) + extra
                # a target that does not exist: every selected analysis fails to run; WHICH ones count is the gate's business
                rc, out, err = C.pyscn(args + ["no_such_dir"], cwd=root)
                nruns += 1
                failed = {"complexity": "Complexity analysis failed" in err, "deadcode": "Dead code analysis failed" in err,
                          "clones": "Clone detection failed" in err, "deps": "Circular dependency check failed" in err}
                selmask = "-" if sel is None else "".join("1" if a in sel else "0" for a in ANALYSES)
                mcyc = 1 if "--max-cycles" in extra else 0
                line = "gate %s 10 0 %d %d %d %d %s %s %s %s 0" % (selmask, int("--allow-dead-code" in extra), int(sel is None), int("--allow-circular-deps" in extra), mcyc,
                                                              "E" if failed["complexity"] else "0:2", "E" if failed["deadcode"] else "c:",
                                                              "E" if failed["clones"] else "0", "E" if failed["deps"] else "1")
                err_lines.append(line)
                err_meta.append((args, rc, err, failed))
        want = C.driver_batch(err_lines) if os.path.exists(C.driver_path()) else []
        for line, w, (args, rc, err, failed) in zip(err_lines, want, err_meta):
            exp_rc = 0 if w == "1" else 1
            clones_on = ("clones" in args[2].split(",")) if "--select" in args else ("--skip-clones" not in args)
            if exp_rc == 0 and clones_on and failed["clones"]:
                # the property (specExitZero): a selected analysis that could not run fails the gate — also the clone analysis
                if rc == 0:
                    k = C.classify(PID, {"kind": "clone-analysis-error-ignored"})
                    if k:
                        res.known_finding(k, "(`pyscn %s no_such_dir` exits 0)" % " ".join(args))
                        continue
                    res.violation("pyscn %s: exit 0 although the clone analysis was selected and could not run" % " ".join(args),
                                  {"signature": {"kind": "clone-analysis-error-ignored"}, "flags": args, "exit": rc, "stderr": err[-600:]})
                    continue
                exp_rc = 1
            hist["exit0" if rc == 0 else "exit1"] += 1
            hist["analysis_failed_runs"] = hist.get("analysis_failed_runs", 0) + (1 if any(failed.values()) else 0)
            nontrivial.add(line + "|err")
            if rc != exp_rc:
                diffs += 1
                res.violation("pyscn %s: exit %d although it reported %s as failed; the gate model says %d" %
                              (" ".join(args), rc, [k for k, v in failed.items() if v], exp_rc),
                              {"project": "the target directory does not exist", "flags": args, "exit": rc, "model_line": line, "stderr": err[-600:]})
        # an explicit --config that does not exist: the command fails before any analysis (C19_config_error)
        for sel in (["complexity"], ["clones"], ["deps"], None):
            args = (["check"] if sel is None else ["check", "--select", ",".join(sel)]) + ["--config", os.path.join(root, "missing.toml"), "proj"]
            rc, out, err = C.pyscn(args, cwd=root)
            nruns += 1
            if rc != 1:
                res.violation("pyscn %s: exit %d although the configuration file does not exist" % (" ".join(args), rc), {"flags": args, "exit": rc, "stderr": err[-400:]})
        # ---- "the same violations that pyscn analyze reports": projects on which the two commands could pick DIFFERENT files ------------------------------
        big = "def big(a):\n" + "".join("    if a == %d:\n        return %d\n" % (i, i) for i in range(12)) + "    return 0\n"
        fs_cases = [
            ("cycle-through-test-file", {"a.py": "import test_b\nA = 1\n", "test_b.py": "import a\nB = 2\n"}, ["--select", "deps"], "deps"),
            ("cycle-through-module-named-venv", {"a.py": "import venv\nA = 1\n", "venv.py": "import a\nB = 2\n"}, ["--select", "deps"], "deps"),
            ("cycle-in-subpackage", {"pkg/__init__.py": "", "pkg/x.py": "from pkg import y\n", "pkg/y.py": "from pkg import x\n"}, ["--select", "deps"], "deps"),
            ("config-exclude-patterns", {"ok.py": "def ok(a):\n    return a\n", "gen/big.py": big, ".pyscn.toml": "[analysis]\nexclude_patterns = [\"gen/*\"]\n"}, ["--select", "complexity"], "complexity"),
            ("complex-function-in-test-file", {"ok.py": "def ok(a):\n    return a\n", "test_big.py": big}, ["--select", "complexity"], "complexity"),
            ("complex-function-in-hidden-dir", {"ok.py": "def ok(a):\n    return a\n", ".hidden/big.py": big}, ["--select", "complexity"], "complexity"),
            ("complex-function-in-stub", {"ok.py": "def ok(a):\n    return a\n", "big.pyi": big}, ["--select", "complexity"], "complexity"),
            ("dead-code-in-test-file", {"ok.py": "def ok(a):\n    return a\n", "test_dead.py": "def t(a):\n    return a\n    a = 1\n"}, ["--select", "deadcode"], "deadcode"),
        ]
        for title, files, flags, which in fs_cases:
            froot = os.path.join(tmp, "fs_" + title)
            for fn, text in files.items():
                pth = os.path.join(froot, "proj", fn)
                os.makedirs(os.path.dirname(pth), exist_ok=True)
                with open(pth, "w") as f:
                    f.write(text)
            rc, out, err = C.pyscn(["check"] + flags + ["proj"], cwd=froot)
            rc2, data, err2 = C.pyscn_json(["proj"], froot, extra=["--select", {"deps": "deps", "complexity": "complexity", "deadcode": "deadcode"}[which], "--min-complexity", "1"])
            nruns += 2
            if data is None:
                res.violation("analyze produced no report on the file-set case %s: %s" % (title, err2[-200:]), {"files": files})
                continue
            if which == "deps":
                viol = ((data["system"]["DependencyAnalysis"].get("CircularDependencies") or {}).get("TotalCycles") or 0) > 0
            elif which == "complexity":
                viol = any(f["Metrics"]["Complexity"] > 10 for f in data["complexity"]["Functions"] or [])
            else:
                viol = any(x["severity"] == "critical" for fl in (data["dead_code"].get("files") or []) for fn_ in fl["functions"] for x in fn_["findings"])
            nontrivial.add("fs|" + title)
            if (rc != 0) != viol:
                sig = {"kind": "check-vs-analyze-files", "case": title}
                k = C.classify(PID, sig)
                msg = "C19: `pyscn check %s proj` exits %d, but `pyscn analyze` on the same directory reports %s gated violation (%s)" % (" ".join(flags), rc, "a" if viol else "no", title)
                if k:
                    res.known_finding(k, "(%s)" % msg)
                else:
                    res.violation(msg, {"signature": sig, "files": files, "flags": flags, "check_exit": rc, "analyze_has_violation": viol, "stderr": err[-400:]})
        # the excluded point of C19_gate: a negative --max-cycles
        root = os.path.join(tmp, "neg")
        write_project(os.path.join(root, "proj"), [2], [], 0)
        rc, out, err = C.pyscn(["check", "--select", "deps", "--max-cycles", "-1", "proj"], cwd=root)
        res.notes.append("excluded point --max-cycles -1 with 0 cycles: exit %d (not judged)" % rc)
    finally:
        shutil.rmtree(tmp, ignore_errors=True)
    if not ps.ok and not any(f for _, _, f in res.violations):
        res.violation("proof obligation or tie broken: " + "; ".join(ps.broken)[:1500],
                      {"broken": ps.broken, "note": "no project/flag combination on which `pyscn check` violates C19 was found in %d runs" % nruns},
                      found_input=False)
    res.coverage.update({
        "evaluations": nruns,
        "distinct_nontrivial": len(nontrivial),
        "rule": "projects sitting on each boundary (a function of complexity max-1/max/max+1 for the flag, config and default thresholds; "
                "dead code none/critical/warning-only; 0/1/2 import cycles) × seeded sample of the matrix --select subset × --max-complexity "
                "× config (max_complexity / min_severity) × --allow-dead-code × --max-cycles × --allow-circular-deps; every run is distinct",
        "samples": samples,
        "traces_validated_against_impl": nruns - diffs,
        "distribution": hist,
    })
    return res.finish("proof")
