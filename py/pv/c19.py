"""C19 — the check gate fails exactly when a gated violation exists (DESIGN.md §4 C19)."""
import itertools
import json
import os
import random
import re
import shutil
import tempfile

from . import common as C

PID = "C19"
ANALYSES = ["complexity", "deadcode", "clones", "deps", "mockdata"]


def func_with_complexity(name, k):
    """a function whose McCabe complexity is exactly k (k-1 sequential ifs)"""
    lines = ["def %s(a):" % name, "    t = 0"]
    for i in range(k - 1):
        lines += ["    if a > %d:" % i, "        t += %d" % (i + 1)]
    lines.append("    return t")
    return "\n".join(lines) + "\n"


def write_project(root, cx, dead, ncycles):
    """cx: list of complexities; dead: list of 'c' (critical: right after return) / 'w' (warning: > 5 lines after return);
    ncycles: number of 2-module import cycles"""
    os.makedirs(root, exist_ok=True)
    with open(os.path.join(root, "cxmod.py"), "w") as f:
        for i, k in enumerate(cx):
            f.write(func_with_complexity("cx_%d" % i, k) + "\n\n")
        f.write("BASE = 1\n")
    with open(os.path.join(root, "deadmod.py"), "w") as f:
        f.write("VALUE = 2\n\n\n")
        for i, d in enumerate(dead):
            f.write("def dead_%d(a):\n    return a\n" % i)
            if d == "w":
                f.write("".join("    # spacer %d\n" % j for j in range(7)))
            f.write("    lost = a + %d\n\n\n" % i)
    for c in range(ncycles):
        with open(os.path.join(root, "cyc%da.py" % c), "w") as f:
            f.write("import cyc%db\n\nA%d = 1\n" % (c, c))
        with open(os.path.join(root, "cyc%db.py" % c), "w") as f:
            f.write("import cyc%da\n\nB%d = 2\n" % (c, c))


def parse_check_stderr(err):
    cx, dead, cyc = set(), set(), set()
    for line in err.split("\n"):
        m = re.match(r"^(.*?):(\d+):(\d+): (\S+) is too complex \((\d+) > (\d+)\)$", line)
        if m:
            cx.add((os.path.basename(m.group(1)), int(m.group(2)), m.group(4), int(m.group(5)), int(m.group(6))))
            continue
        m = re.match(r"^(.*?):(\d+):(\d+): (\w+) \((critical|warning|info)\)$", line)
        if m:
            dead.add((os.path.basename(m.group(1)), int(m.group(2)), m.group(5)))
            continue
        m = re.match(r"^(.*?):1:1: circular dependency detected: (.*)$", line)
        if m:
            cyc.add(frozenset(x.split(".")[-1] for x in m.group(2).split(" -> ")))
    return cx, dead, cyc


# ---- the --select VALUE: the same selection can be typed in several accepted ways ---------------------------------------------
SPELLINGS = ("lower", "title", "upper", "mixed")
FORMS = ("long", "short", "equals", "repeated")


def spell(name, how, rng):
    if how == "title":
        return name[:1].upper() + name[1:]
    if how == "upper":
        return name.upper()
    if how == "mixed":
        out = "".join(ch.upper() if rng.random() < 0.5 else ch for ch in name)
        return out if out != name else name[:-1] + name[-1].upper()
    return name


def select_args(sel, how, form, rng):
    """the command-line words that select the analyses `sel`; `how` is applied to a random non-empty subset of the names
    (so that lists mixing lower-case and other spellings occur), `form` is the syntactic form of the flag"""
    names = list(sel)
    if how != "lower":
        idx = [i for i in range(len(names)) if rng.random() < 0.6] or [rng.randrange(len(names))]
        names = [spell(n, how, rng) if i in idx else n for i, n in enumerate(names)]
    if form == "short":
        return ["-s", ",".join(names)], names
    if form == "equals":
        return ["--select=" + ",".join(names)], names
    if form == "repeated":
        return [w for n in names for w in ("--select", n)], names
    return ["--select", ",".join(names)], names


# ---- configuration DISCOVERED for the checked project (no --config): layouts with further configuration files that are not the project's --------
CFG_KINDS = (".pyscn.toml", "pyproject.toml")


def cfg_text(kind, mx):
    if kind == "pyproject.toml":
        return "[project]\nname = \"x\"\n\n[tool.pyscn.complexity]\nmax_complexity = %d\n" % mx
    return "[complexity]\nmax_complexity = %d\n" % mx


def gen_layout(rng):
    """a project `proj` whose own configuration (if any) lies in proj or in its parent directory, with 0-2 sub-directories that carry
    a configuration file of their own (a sub-project / vendored package) and functions sitting on every threshold in play"""
    proj_cfg = None if rng.random() < 0.25 else [rng.choice(["target", "target", "parent"]), rng.choice(CFG_KINDS), rng.choice([5, 12])]
    subs = rng.sample(["app", "zlib", "_first", "pkg/inner", "Vendor"], rng.choice([0, 1, 1, 1, 2]))
    nested = [[d, rng.choice(CFG_KINDS), rng.choice([3, 25, 25]), rng.random() < 0.3] for d in subs]
    top = rng.random() < 0.6
    thresholds = sorted({10} | ({proj_cfg[2]} if proj_cfg else set()) | {n[2] for n in nested})
    places = (["main.py"] if top else []) + ["%s/%s%s_mod.py" % (d, "deep/" if deep else "", d.replace("/", "_").lower()) for d, _, _, deep in nested]
    places.append("lib_b/libb_mod.py" if rng.random() < 0.7 or not places else "setup.py")
    funcs = []
    for pth in places:
        t = rng.choice(thresholds)
        funcs.append([pth, [2, max(1, t + rng.choice([-1, 0, 1, 1, 3]))]])
    return {"proj_cfg": proj_cfg, "nested": nested, "funcs": funcs, "sibling_cfg": rng.random() < 0.2}


def write_layout(root, lay, configs):
    """configs False: the Python files; configs True: the configuration files (written after the reference run of `analyze`, see below)"""
    proj = os.path.join(root, "proj")
    os.makedirs(proj, exist_ok=True)

    def put(pth, text):
        os.makedirs(os.path.dirname(pth), exist_ok=True)
        with open(pth, "w") as f:
            f.write(text)
    if configs:
        if lay["proj_cfg"]:
            place, kind, mx = lay["proj_cfg"]
            put(os.path.join(proj if place == "target" else root, kind), cfg_text(kind, mx))
        for d, kind, mx, _deep in lay["nested"]:
            put(os.path.join(proj, d, kind), cfg_text(kind, mx))
        if lay.get("sibling_cfg"):
            put(os.path.join(root, "other", ".pyscn.toml"), cfg_text(".pyscn.toml", 2))
            put(os.path.join(root, "other", "o.py"), "O = 1\n")
        return
    for fi, (pth, ks) in enumerate(lay["funcs"]):
        put(os.path.join(proj, pth), "\n\n".join(func_with_complexity("f%d_%d" % (fi, j), k) for j, k in enumerate(ks)) + "\nV%d = %d\n" % (fi, fi))


def outer_config(start):
    """a configuration file above the scratch directory would be every scenario's project configuration"""
    d = os.path.abspath(start)
    while True:
        if os.path.exists(os.path.join(d, ".pyscn.toml")):
            return os.path.join(d, ".pyscn.toml")
        pp = os.path.join(d, "pyproject.toml")
        if os.path.exists(pp) and "[tool.pyscn" in open(pp, errors="replace").read():
            return pp
        if os.path.dirname(d) == d:
            return None
        d = os.path.dirname(d)


# configuration files that cannot be parsed
BROKEN_CONFIGS = ("[dead_code\nmin_severity = = \n", "[complexity]\nmax_complexity = \n", "[[[\n", "[complexity]\nmax_complexity = 10\n[complexity]\nmax_complexity = 12\n",
                  "complexity = {\n")


SEV_LETTER = {"critical": "c", "warning": "w", "info": "i"}
RANK = {"info": 1, "warning": 2, "critical": 3}


def run(tier, seed, replay=None):
    res = C.Result(PID, tier, seed)
    rng = random.Random(seed * 1000003 + 19)
    ps = C.prove(PID)
    C.proof_coverage(res, ps, "cd /verif/lean && lake build PV.Properties.C19 && #print axioms (audit)")
    res.assumptions += [
        "the model's inputs are the per-analysis results; they are taken from `pyscn analyze --json` on the same tree (that analyze and "
        "check agree per item is itself compared: the per-violation lines of check vs the items of analyze)",
        "the reference for the discovered-configuration layouts is `analyze` on the same Python files before the configuration files are written: `analyze` "
        "refuses a configuration whose max_complexity is not above the medium risk threshold 19 ('invalid configuration'), `check` accepts it (observed, not judged here)",
        "C19_gate assumes --max-cycles >= 0 (a negative limit is run on the real binary and recorded, not judged)",
        "WHERE a configuration file is looked for is C17's subject; here only layouts in which the project's configuration is unambiguous are used (at most one "
        "file on the way from the target directory up to the scratch root, none above it — checked) and the claim is the gate's: the threshold is that file's "
        "max_complexity (else 10), not the one of a file lying below or beside the target; the flag matrix passes --config explicitly",
        "which analyses 'could not run' on a target / configuration is established by `pyscn analyze --select <analysis>` on the same target and configuration (no report, "
        "non-zero status) together with check's own failure lines; for an unparsable configuration file this is applied to the analyses that read it (complexity, dead code, "
        "clones) — check's dependency walk reads no configuration (its limits are flags), so whether it ran is taken from the tool alone; a single non-Python FILE named as "
        "the target is not used as a scenario (whether check may analyse it is a file-selection matter, F57)",
        "the gate severity is `critical` (check has no severity flag; that a config `[dead_code] min_severity` cannot change it is a "
        "configuration-precedence matter examined under C17, not a gate matter)",
    ]
    mult = 1 if ps.ok else 4
    tmp = tempfile.mkdtemp(prefix="pv_c19_")
    scenarios = []
    # project axis: complexity around the three possible thresholds, dead code none/critical/warning, 0..2 cycles
    proj_specs = []
    for mx in (3, 10, 5):
        for delta in (-1, 0, 1):
            proj_specs.append(([2, mx + delta], [], 0))
    proj_specs += [([2], [], 11), ([2, 11], [], 14)]          # more cycles than any "show the first N" limit
    proj_specs += [([2], ["c"], 0), ([2], ["w"], 0), ([2], ["w", "c"], 0), ([2], [], 1), ([2], [], 2), ([11], ["c"], 2), ([2], [], 0),
                   ([10, 10, 11], ["c", "c"], 1)]
    flag_axis = []
    selects = [None, ["complexity"], ["deadcode"], ["deps"], ["clones"], ["complexity", "deadcode"], ["complexity", "deps"], ["deadcode", "deps"],
               ["complexity", "deadcode", "deps"], ["complexity", "deadcode", "clones", "deps"], ["circular"], ["clones", "deps"]]
    for sel in selects:
        for mc in (None, 3, 10):
            # besides the gate key, keys that must NOT influence the gate: display filters and orders of the same configuration file
            for cfg in (None, {"max_complexity": 5}, {"max_complexity": 0}, {"output_sort_by": "name"}, {"output_min_complexity": 20},
                        {"max_complexity": 5, "output_sort_by": "name", "output_min_complexity": 8}, {"output_sort_by": "risk", "show_details": True}):
                for allow_dead in (False, True):
                    for maxcyc in (None, 1, 2):
                        for allow_circ in (False, True):
                            flag_axis.append((sel, mc, cfg, allow_dead, maxcyc, allow_circ))
    rng.shuffle(flag_axis)
    per_project = (48 if tier == "quick" else 160) * mult
    if replay:
        rp = json.load(open(replay))["replay"]
        if "project" in rp and "flags" in rp:
            proj_specs = [tuple(rp["project"])] + proj_specs
    # build projects and collect analyze results once per (project, config)
    nruns, diffs, nontrivial = 0, 0, set()
    hist = {"exit0": 0, "exit1": 0, "by_gate": {"complexity": 0, "deadcode": 0, "deps": 0},
            "select_spelling": {k: 0 for k in SPELLINGS}, "select_form": {k: 0 for k in FORMS}, "select_spelling_rejected": 0,
            "gated_violation_under_nonlower_spelling": 0}
    samples = []
    try:
        for pi, (cx, dead, ncyc) in enumerate(proj_specs):
            root = os.path.join(tmp, "p%d" % pi)
            proj = os.path.join(root, "proj")
            write_project(proj, cx, dead, ncyc)
            # ground truth per analysis from analyze --json
            rc, data, err = C.pyscn_json(["proj"], root, extra=["--select", "complexity,deadcode,deps", "--min-complexity", "1", "--min-severity", "info"])
            if data is None:
                res.violation("analyze produced no report: " + err[-300:], {"project": [cx, dead, ncyc]})
                continue
            funcs = [(os.path.basename(f["FilePath"]), f["StartLine"], f["Name"], f["Metrics"]["Complexity"]) for f in (data["complexity"]["Functions"] or [])]
            findings = []
            for fl in data["dead_code"]["files"] or []:
                for fn in fl["functions"] or []:
                    for x in fn["findings"] or []:
                        findings.append((os.path.basename(x["location"]["file_path"]), x["location"]["start_line"], x["severity"]))
            cd = (data["system"]["DependencyAnalysis"].get("CircularDependencies") or {})
            cycles = [frozenset(m.split(".")[-1] for m in c["Modules"]) for c in (cd.get("CircularDependencies") or [])]
            picks = flag_axis[(pi * per_project) % len(flag_axis):][:per_project]
            if len(picks) < per_project:
                picks += flag_axis[:per_project - len(picks)]
            if ncyc > 2:
                # the ratchet use of --max-cycles on a project with many cycles: exactly at, below and above the number of cycles, and at round numbers
                picks = [(sel, None, None, False, mcyc, ac) for sel in (["deps"], ["complexity", "deps"], ["circular"]) for mcyc in (None, 0, 9, 10, ncyc - 1, ncyc, ncyc + 1)
                         for ac in (False, True)]
            lines, meta = [], []
            for (sel, mc, cfg, allow_dead, maxcyc, allow_circ) in picks:
                if sel is None:
                    args = ["check", "--skip-clones"]
                    if rng.random() < 0.3:
                        args = ["check"]
                else:
                    # the selection is a SET of analyses: how its members are typed (letter case, as far as the tool accepts it) and the
                    # syntactic form of the flag are part of "every combination of --select"
                    how = "lower" if rng.random() < 0.6 else rng.choice(SPELLINGS[1:])
                    form = "long" if rng.random() < 0.6 else rng.choice(FORMS[1:])
                    words, typed = select_args(sel, how, form, rng)
                    args = ["check"] + words
                    hist["select_spelling"][how] += 1
                    hist["select_form"][form] += 1
                if mc is not None:
                    args += ["--max-complexity", str(mc)]
                cfgmax, gate = 0, "critical"
                if cfg:
                    cpath = os.path.join(root, "cfg_%s.toml" % "_".join("%s%s" % kv for kv in cfg.items()))
                    with open(cpath, "w") as f:
                        if "max_complexity" in cfg:
                            f.write("[complexity]\nmax_complexity = %d\n" % cfg["max_complexity"])
                            cfgmax = cfg["max_complexity"]
                        if "min_severity" in cfg:
                            f.write("[dead_code]\nmin_severity = \"%s\"\n" % cfg["min_severity"])
                            gate = cfg["min_severity"]
                        outkeys = [("sort_by", json.dumps(cfg["output_sort_by"])) for _ in [0] if "output_sort_by" in cfg] + \
                                  [("min_complexity", str(cfg["output_min_complexity"])) for _ in [0] if "output_min_complexity" in cfg] + \
                                  [("show_details", "true") for _ in [0] if cfg.get("show_details")]
                        if outkeys:
                            f.write("[output]\n" + "".join("%s = %s\n" % kv for kv in outkeys))
                    args += ["--config", cpath]
                if allow_dead:
                    args.append("--allow-dead-code")
                if maxcyc is not None:
                    args += ["--max-cycles", str(maxcyc)]
                if allow_circ:
                    args.append("--allow-circular-deps")
                rc, out, err = C.pyscn(args + ["proj"], cwd=root)
                nruns += 1
                skip_clones = "--skip-clones" in args
                selmask = "-" if sel is None else "".join("1" if (a in sel or (a == "deps" and "circular" in sel)) else "0" for a in ANALYSES)
                # the dead-code response of check only holds findings at or above the merged min severity (= gate)
                dead_tok = SEV_LETTER[gate] + ":" + ",".join(SEV_LETTER[s] for (_, _, s) in findings if RANK[s] >= RANK[gate])
                cx_tok = "%d:%s" % (cfgmax, ",".join(str(c) for (_, _, _, c) in funcs))
                line = "gate %s %d %d %d %d %d %d %s %s 0 %d 0" % (selmask, 10 if mc is None else mc, 1 if mc is not None else 0, int(allow_dead),
                                                                  int(skip_clones), int(allow_circ), 0 if maxcyc is None else maxcyc, cx_tok, dead_tok, len(cycles))
                lines.append(line)
                meta.append((args, rc, err, mc, cfgmax, gate, sel, allow_dead, maxcyc, allow_circ, None if sel is None else how))
            want = C.driver_batch(lines) if os.path.exists(C.driver_path()) else None
            if want is None:
                ps.ok = False
                ps.broken.append("driver missing")
                continue
            for line, w, (args, rc, err, mc, cfgmax, gate, sel, allow_dead, maxcyc, allow_circ, how) in zip(lines, want, meta):
                exp_rc = 0 if w == "1" else 1
                if how not in (None, "lower") and rc != 0 and "invalid --select flag" in err:
                    # the tool is free to refuse a spelling (usage error, non-zero); what it ACCEPTS it must honour
                    hist["select_spelling_rejected"] += 1
                    continue
                hist["exit0" if rc == 0 else "exit1"] += 1
                nontrivial.add(line + "|%d" % pi)
                info = {"project": [cx, dead, ncyc], "flags": args, "exit": rc, "model_line": line, "stderr": err[-600:]}
                if len(samples) < 2:
                    samples.append({"project": {"complexities": cx, "dead": dead, "cycles": ncyc}, "cmd": "pyscn " + " ".join(args) + " proj", "exit": rc})
                if rc not in (0, 1):
                    res.violation("pyscn %s exited with status %d" % (" ".join(args), rc), info)
                    continue
                if rc != exp_rc:
                    diffs += 1
                    res.violation("pyscn %s: exit %d, the gate model (fed with what `analyze` reports for the same tree) says %d" % (" ".join(args), rc, exp_rc), info)
                    continue
                # per-violation lines = the violations analyze reports
                en = (lambda a: (a in sel or (a == "deps" and "circular" in sel)) if sel is not None else a in ("complexity", "deadcode"))
                pcx, pdead, pcyc = parse_check_stderr(err)
                eff = mc if mc is not None else (cfgmax if cfgmax > 0 else 10)
                want_cx = {(f, l, n, c, eff) for (f, l, n, c) in funcs if c > eff} if en("complexity") else set()
                want_dead = {(f, l, s) for (f, l, s) in findings if RANK[s] >= RANK[gate]} if en("deadcode") else set()
                want_cyc = set(cycles) if en("deps") else set()
                if want_cx:
                    hist["by_gate"]["complexity"] += 1
                if want_dead:
                    hist["by_gate"]["deadcode"] += 1
                if want_cyc:
                    hist["by_gate"]["deps"] += 1
                if how not in (None, "lower") and (want_cx or want_dead or want_cyc):
                    hist["gated_violation_under_nonlower_spelling"] += 1
                if pcx != want_cx:
                    res.violation("check prints complexity violations %s, analyze reports %s" % (sorted(pcx), sorted(want_cx)), info)
                elif pdead != want_dead:
                    res.violation("check prints dead-code violations %s, analyze reports %s" % (sorted(pdead), sorted(want_dead)), info)
                elif pcyc != want_cyc:
                    res.violation("check prints cycles %s, analyze reports %s" % (sorted(map(sorted, pcyc)), sorted(map(sorted, want_cyc))), info)
        # "…or when an analysis could not run", for every combination of --select and of the allow / limit flags: the CAUSES for which an analysis
        # cannot run (the target does not exist, a directory without any Python file, a configuration file that cannot be parsed — named with
        # --config or discovered in the target) × every subset of the selection × the allow / limit flags (an allow flag allows FINDINGS, it cannot
        # turn a missing analysis into a pass).  WHICH analyses could not run is established INDEPENDENTLY of what `check` prints: by
        # `pyscn analyze --select <a>` on the same target and configuration (the property's own reference command), and in addition by the tool's
        # own failure lines (what it admits must count as well).  The model then says what the exit status must be; the property's clause
        # ("non-zero when an analysis could not run") is also applied directly, so that it does not depend on the model driver.
        root = os.path.join(tmp, "err")
        write_project(os.path.join(root, "proj"), [2], [], 1)
        with open(os.path.join(root, "unparsable.py"), "w") as f:
            f.write("def f(:\n  (((\n")
        os.makedirs(os.path.join(root, "empty_dir"))
        os.makedirs(os.path.join(root, "no_python", "docs"))
        for fn, text in (("docs/readme.txt", "nothing to analyse here\n"), ("data.json", "{}\n"), ("Makefile", "all:\n")):
            with open(os.path.join(root, "no_python", fn), "w") as f:
                f.write(text)
        broken_text = rng.choice(BROKEN_CONFIGS)
        with open(os.path.join(root, "broken.toml"), "w") as f:
            f.write(broken_text)
        write_project(os.path.join(root, "proj_broken_cfg"), [2], [], 1)
        with open(os.path.join(root, "proj_broken_cfg", ".pyscn.toml"), "w") as f:
            discovered_text = rng.choice(BROKEN_CONFIGS)
            f.write(discovered_text)
        # (name, kind, target, configuration words).  kind "files": nothing can be analysed, by any analysis.  kind "config": the analyses that read
        # the configuration cannot run; the dependency check of `check` takes its limits from flags only and reads no configuration, so whether it ran
        # is taken from the tool (analyze refuses the configuration as a whole, which says nothing about check's dependency walk)
        causes = [("missing-target", "files", "no_such_dir", []), ("empty-directory", "files", "empty_dir", []), ("no-python-file", "files", "no_python", []),
                  ("unparsable-explicit-config", "config", "proj", ["--config", os.path.join(root, "broken.toml")]),
                  ("unparsable-discovered-config", "config", "proj_broken_cfg", [])]
        SCENARIO_FILES = {"missing-target": "the target `no_such_dir` does not exist", "empty-directory": "the target `empty_dir` is an empty directory",
                          "no-python-file": "the target `no_python` holds docs/readme.txt, data.json, Makefile and no Python file",
                          "unparsable-explicit-config": {"proj": "cxmod.py (complexity 2), deadmod.py (no dead code), cyc0a.py <-> cyc0b.py", "broken.toml": broken_text},
                          "unparsable-discovered-config": {"proj_broken_cfg": "cxmod.py (complexity 2), deadmod.py (no dead code), cyc0a.py <-> cyc0b.py",
                                                           "proj_broken_cfg/.pyscn.toml": discovered_text}}
        four = ANALYSES[:4]
        err_sels = [None, "default-with-clones"] + [[a for a in four if m >> four.index(a) & 1] for m in range(1, 16)]
        fixed_extras = [[], ["--max-cycles", "1"], ["--allow-circular-deps", "--allow-dead-code"], ["--allow-dead-code"], ["--allow-circular-deps"]]
        pool_extras = [["--allow-dead-code", "-q"], ["--allow-dead-code", "--max-cycles", "2"], ["--allow-circular-deps", "--max-cycles", "1"],
                       ["--max-complexity", "3", "--allow-dead-code"], ["-q"], ["--allow-circular-deps", "-q", "--allow-dead-code"],
                       ["--allow-circular-deps", "--max-complexity", "25"]]
        hist.update({"could_not_run_runs": 0, "could_not_run_by_cause": {c[0]: 0 for c in causes}, "could_not_run_cause_skipped": 0,
                     "could_not_run_with_allow_dead_code": 0, "could_not_run_with_allow_circular_deps": 0, "could_not_run_quiet": 0,
                     "could_not_run_only_allowed_analysis_selected": 0, "could_not_run_established_by": {"analyze": 0, "tool-line-only": 0},
                     "could_not_run_not_announced_by_check": 0})
        err_lines, err_meta = [], []
        for cname, ckind, target, cfgwords in causes:
            # ground truth from the reference command: which analyses cannot run on this target / configuration
            cannot = {}
            for a in four:
                rc_a, data_a, err_a = C.pyscn_json([target], root, extra=["--select", a] + cfgwords)
                nruns += 1
                cannot[a] = (rc_a != 0 and data_a is None)
            expected_to_fail = four if ckind == "files" else four[:3]
            if not all(cannot[a] for a in expected_to_fail):
                # the scenario does not do what it was built for (analyze CAN run there): nothing is claimed about it
                hist["could_not_run_cause_skipped"] += 1
                res.notes.append("could-not-run scenario %s skipped: `analyze` can run %s there" % (cname, [a for a in expected_to_fail if not cannot[a]]))
                continue
            if ckind == "config":
                cannot["deps"] = None
            extras = fixed_extras + pool_extras if tier != "quick" else None
            for sel in err_sels:
                for extra in (extras or fixed_extras + [rng.choice(pool_extras)]):
                    if sel is None:
                        args = ["check", "--skip-clones"]
                    elif sel == "default-with-clones":
                        args = ["check"]
                    else:
                        form = "long" if rng.random() < 0.6 else rng.choice(FORMS[1:])
                        args = ["check"] + select_args(sel, "lower", form, rng)[0]
                        hist["select_spelling"]["lower"] += 1
                        hist["select_form"][form] += 1
                    args = args + extra + cfgwords
                    rc, out, err = C.pyscn(args + [target], cwd=root)
                    nruns += 1
                    admitted = {"complexity": "Complexity analysis failed" in err, "deadcode": "Dead code analysis failed" in err,
                                "clones": "Clone detection failed" in err, "deps": "Circular dependency check failed" in err}
                    failed = {a: bool(admitted[a] or cannot[a]) for a in four}
                    enabled = {a: (a in ("complexity", "deadcode") or (a == "clones" and sel == "default-with-clones")) if not isinstance(sel, list) else a in sel
                               for a in four}
                    selmask = "-" if not isinstance(sel, list) else "".join("1" if a in sel else "0" for a in ANALYSES)
                    mcyc = int(extra[extra.index("--max-cycles") + 1]) if "--max-cycles" in extra else 0
                    mcx = int(extra[extra.index("--max-complexity") + 1]) if "--max-complexity" in extra else None
                    line = "gate %s %d %d %d %d %d %d %s %s %s %s 0" % (selmask, 10 if mcx is None else mcx, int(mcx is not None), int("--allow-dead-code" in extra),
                                                                    int("--skip-clones" in args), int("--allow-circular-deps" in extra), mcyc,
                                                                    "E" if failed["complexity"] else "0:2", "E" if failed["deadcode"] else "c:",
                                                                    "E" if failed["clones"] else "0", "E" if failed["deps"] else "1")
                    err_lines.append(line)
                    err_meta.append((args + [target], rc, err, failed, admitted, enabled, cname, extra, dict(cannot)))
        want = C.driver_batch(err_lines) if os.path.exists(C.driver_path()) else [None] * len(err_lines)
        for line, w, (args, rc, err, failed, admitted, enabled, cname, extra, cannot) in zip(err_lines, want, err_meta):
            info = {"could_not_run_scenario": cname, "scenario_files": SCENARIO_FILES[cname], "flags": args, "exit": rc, "model_line": line, "could_not_run": [a for a in four if failed[a]],
                    "admitted_by_check": [a for a in four if admitted[a]], "stderr": err[-600:]}
            hist["could_not_run_runs"] += 1
            hist["could_not_run_by_cause"][cname] += 1
            hist["could_not_run_with_allow_dead_code"] += int("--allow-dead-code" in extra)
            hist["could_not_run_with_allow_circular_deps"] += int("--allow-circular-deps" in extra)
            hist["could_not_run_quiet"] += int("-q" in extra)
            gating_failed = [a for a in ("complexity", "deadcode", "deps") if enabled[a] and failed[a]]
            allowed = {"deadcode": "--allow-dead-code" in extra, "deps": "--allow-circular-deps" in extra or "--max-cycles" in extra, "complexity": False}
            if gating_failed and all(allowed[a] for a in gating_failed):
                hist["could_not_run_only_allowed_analysis_selected"] += 1
            for a in gating_failed:
                hist["could_not_run_established_by"]["analyze" if cannot[a] else "tool-line-only"] += 1
                if not admitted[a]:
                    hist["could_not_run_not_announced_by_check"] += 1
            # the property's clause, directly: a selected gating analysis that could not run -> non-zero, whatever the allow flags say
            if gating_failed and rc == 0:
                diffs += 1
                res.violation("pyscn %s: exit 0 although the selected %s analysis could not run (%s; `pyscn analyze --select <analysis>` cannot run it on the same "
                              "target / configuration either)" % (" ".join(args), " and ".join(gating_failed), cname), info)
                continue
            if w is None:
                continue
            exp_rc = 0 if w == "1" else 1
            if exp_rc == 0 and enabled["clones"] and failed["clones"]:
                # the property (specExitZero): a selected analysis that could not run fails the gate — also the clone analysis
                if rc == 0:
                    k = C.classify(PID, {"kind": "clone-analysis-error-ignored"})
                    if k:
                        res.known_finding(k, "(`pyscn %s` exits 0)" % " ".join(args))
                        continue
                    res.violation("pyscn %s: exit 0 although the clone analysis was selected and could not run" % " ".join(args),
                                  {"signature": {"kind": "clone-analysis-error-ignored"}, "flags": args, "exit": rc, "stderr": err[-600:]})
                    continue
                exp_rc = 1
            hist["exit0" if rc == 0 else "exit1"] += 1
            hist["analysis_failed_runs"] = hist.get("analysis_failed_runs", 0) + (1 if any(failed.values()) else 0)
            nontrivial.add(line + "|err|" + cname + "|" + " ".join(args))
            if rc != exp_rc:
                diffs += 1
                res.violation("pyscn %s: exit %d although %s could not run (%s); the gate model says %d" %
                              (" ".join(args), rc, [k for k, v in failed.items() if v], cname, exp_rc), info)
        # an explicit --config that does not exist: the command fails before any analysis (C19_config_error)
        for sel in (["complexity"], ["clones"], ["deps"], None):
            args = (["check"] if sel is None else ["check", "--select", ",".join(sel)]) + ["--config", os.path.join(root, "missing.toml"), "proj"]
            rc, out, err = C.pyscn(args, cwd=root)
            nruns += 1
            if rc != 1:
                res.violation("pyscn %s: exit %d although the configuration file does not exist" % (" ".join(args), rc), {"flags": args, "exit": rc, "stderr": err[-400:]})
        # ---- "the same violations that pyscn analyze reports": projects on which the two commands could pick DIFFERENT files ------------------------------
        big = "def big(a):\n" + "".join("    if a == %d:\n        return %d\n" % (i, i) for i in range(12)) + "    return 0\n"
        fs_cases = [
            ("cycle-through-test-file", {"a.py": "import test_b\nA = 1\n", "test_b.py": "import a\nB = 2\n"}, ["--select", "deps"], "deps"),
            ("cycle-through-module-named-venv", {"a.py": "import venv\nA = 1\n", "venv.py": "import a\nB = 2\n"}, ["--select", "deps"], "deps"),
            ("cycle-in-subpackage", {"pkg/__init__.py": "", "pkg/x.py": "from pkg import y\n", "pkg/y.py": "from pkg import x\n"}, ["--select", "deps"], "deps"),
            ("config-exclude-patterns", {"ok.py": "def ok(a):\n    return a\n", "gen/big.py": big, ".pyscn.toml": "[analysis]\nexclude_patterns = [\"gen/*\"]\n"}, ["--select", "complexity"], "complexity"),
            ("complex-function-in-test-file", {"ok.py": "def ok(a):\n    return a\n", "test_big.py": big}, ["--select", "complexity"], "complexity"),
            ("complex-function-in-hidden-dir", {"ok.py": "def ok(a):\n    return a\n", ".hidden/big.py": big}, ["--select", "complexity"], "complexity"),
            ("complex-function-in-stub", {"ok.py": "def ok(a):\n    return a\n", "big.pyi": big}, ["--select", "complexity"], "complexity"),
            ("dead-code-in-test-file", {"ok.py": "def ok(a):\n    return a\n", "test_dead.py": "def t(a):\n    return a\n    a = 1\n"}, ["--select", "deadcode"], "deadcode"),
        ]
        for title, files, flags, which in fs_cases:
            froot = os.path.join(tmp, "fs_" + title)
            for fn, text in files.items():
                pth = os.path.join(froot, "proj", fn)
                os.makedirs(os.path.dirname(pth), exist_ok=True)
                with open(pth, "w") as f:
                    f.write(text)
            rc, out, err = C.pyscn(["check"] + flags + ["proj"], cwd=froot)
            rc2, data, err2 = C.pyscn_json(["proj"], froot, extra=["--select", {"deps": "deps", "complexity": "complexity", "deadcode": "deadcode"}[which], "--min-complexity", "1"])
            nruns += 2
            if data is None:
                res.violation("analyze produced no report on the file-set case %s: %s" % (title, err2[-200:]), {"files": files})
                continue
            if which == "deps":
                viol = ((data["system"]["DependencyAnalysis"].get("CircularDependencies") or {}).get("TotalCycles") or 0) > 0
            elif which == "complexity":
                viol = any(f["Metrics"]["Complexity"] > 10 for f in data["complexity"]["Functions"] or [])
            else:
                viol = any(x["severity"] == "critical" for fl in (data["dead_code"].get("files") or []) for fn_ in fl["functions"] for x in fn_["findings"])
            nontrivial.add("fs|" + title)
            if (rc != 0) != viol:
                sig = {"kind": "check-vs-analyze-files", "case": title}
                k = C.classify(PID, sig)
                msg = "C19: `pyscn check %s proj` exits %d, but `pyscn analyze` on the same directory reports %s gated violation (%s)" % (" ".join(flags), rc, "a" if viol else "no", title)
                if k:
                    res.known_finding(k, "(%s)" % msg)
                else:
                    res.violation(msg, {"signature": sig, "files": files, "flags": flags, "check_exit": rc, "analyze_has_violation": viol, "stderr": err[-400:]})
        # ---- SEVERAL targets on one command line: the gate is about all of them, whichever is named first ("the same violations that pyscn analyze
        # reports for the same files") -----------------------------------------------------------------------------------------------------------------
        mt_cases = [
            ("cycle-in-second-target", {"p1/x.py": "def f():\n    return 1\n", "p2/a.py": "import b\nA = 1\n", "p2/b.py": "import a\nB = 2\n"}, ["--select", "deps"], "deps"),
            ("complex-function-in-second-target", {"p1/x.py": "def f():\n    return 1\n", "p2/big.py": big}, ["--select", "complexity"], "complexity"),
            ("dead-code-in-second-target", {"p1/x.py": "def f():\n    return 1\n", "p2/d.py": "def t(a):\n    return a\n    a = 1\n"}, ["--select", "deadcode"], "deadcode"),
        ]
        hist["multi_target_gate_runs"] = 0
        for title, files, flags, which in mt_cases:
            froot = os.path.join(tmp, "mt_" + title)
            for fn, text in files.items():
                pth = os.path.join(froot, fn)
                os.makedirs(os.path.dirname(pth), exist_ok=True)
                with open(pth, "w") as f:
                    f.write(text)
            for targets in (["p1", "p2"], ["p2", "p1"]):
                rc, out, err = C.pyscn(["check"] + flags + targets, cwd=froot)
                rc2, data, err2 = C.pyscn_json(targets, froot, extra=["--select", which, "--min-complexity", "1"])
                nruns += 2
                hist["multi_target_gate_runs"] += 1
                if data is None:
                    res.violation("analyze produced no report on the several-targets case %s: %s" % (title, err2[-200:]), {"files": files, "targets": targets})
                    continue
                if which == "deps":
                    viol = ((data["system"]["DependencyAnalysis"].get("CircularDependencies") or {}).get("TotalCycles") or 0) > 0
                elif which == "complexity":
                    viol = any(f["Metrics"]["Complexity"] > 10 for f in data["complexity"]["Functions"] or [])
                else:
                    viol = any(x["severity"] == "critical" for fl in (data["dead_code"].get("files") or []) for fn_ in fl["functions"] for x in fn_["findings"])
                nontrivial.add("mt|" + title)
                if not viol:
                    res.violation("harness: `analyze %s` does not report the planted violation of the several-targets case %s" % (" ".join(targets), title), {"files": files, "targets": targets})
                    continue
                if rc == 0:
                    sig = {"kind": "check-vs-analyze-targets", "case": title}
                    k = C.classify(PID, sig)
                    msg = "C19: `pyscn check %s %s` exits 0, but `pyscn analyze` on the same targets reports a gated violation (%s)" % (" ".join(flags), " ".join(targets), title)
                    if k:
                        res.known_finding(k, "(%s)" % msg)
                    else:
                        res.violation(msg, {"signature": sig, "files": files, "flags": flags, "targets": targets, "check_exit": rc, "stderr": err[-400:]})
        # ---- "explicit flag, else config, else 10" when the configuration is DISCOVERED (no --config): the configuration of the checked project is
        # the file found from the target directory upwards (the one `analyze` reads for the same target).  Layouts in which this is unambiguous
        # (at most one file on the way up) but which hold FURTHER configuration files that are not the project's: in sub-directories of the target
        # (sub-project, vendored package), next to the target.  None of these may move the threshold, wherever the sub-directory sorts, whichever way
        # the target is named, whatever --select says; --max-complexity and an explicit --config still win.
        hist.update({"discovery_layouts": 0, "discovery_runs": 0, "discovery_nested_cfg_runs": 0, "discovery_threshold_source": {"flag": 0, "explicit-config": 0, "project-config": 0, "default": 0},
                     "discovery_target_form": {"rel": 0, "abs": 0, "dot": 0, "noarg": 0, "slash": 0}, "discovery_decided_by_choice_of_config": 0})
        outer = outer_config(tmp)
        layouts = []
        if outer:
            res.notes.append("configuration discovery scenarios skipped: %s lies above the scratch directory" % outer)
        else:
            # a fixed core (each kind of project configuration × a looser / stricter nested file in a sub-directory walked before / after the
            # other files, the violation inside / outside the sub-project) + seeded layouts
            for pc in ([["target", ".pyscn.toml", 12]], [["target", "pyproject.toml", 12]], [["parent", ".pyscn.toml", 12]], [None]):
                for sub in ("app", "zlib"):
                    for nk in CFG_KINDS:
                        nmax = rng.choice([3, 25])
                        eff0 = pc[0][2] if pc[0] else 10
                        lo, hi = sorted((eff0, nmax))
                        k = rng.choice([lo + 1, hi, (lo + hi) // 2 + 1])      # passes one of the two thresholds and fails the other
                        layouts.append({"proj_cfg": pc[0], "nested": [[sub, nk, nmax, rng.random() < 0.3]], "sibling_cfg": False,
                                        "funcs": [[sub + "/" + sub + "_mod.py", [2]], ["lib_b/libb_mod.py" if rng.random() < 0.5 else "setup.py", [2, k]]] +
                                                 ([["main.py", [1]]] if rng.random() < 0.5 else [])})
            rng.shuffle(layouts)
            layouts = layouts[:(10 if tier == "quick" else 16) * mult]
            layouts += [gen_layout(rng) for _ in range((26 if tier == "quick" else 150) * mult)]
        if replay and "layout" in rp:
            layouts = [rp["layout"]] + layouts
        explicit = os.path.join(tmp, "explicit_7.toml")
        with open(explicit, "w") as f:
            f.write(cfg_text(".pyscn.toml", 7))
        for li, lay in enumerate(layouts):
            root = os.path.join(tmp, "lay%d" % li, "w")
            # the reference (which functions, which complexities) is `analyze` on the same Python files BEFORE the configuration files exist:
            # `analyze` validates a configuration file and refuses one whose max_complexity is not above the medium risk threshold (19), which
            # `check` accepts; the claim examined here is the gate's threshold, not that both commands accept the same configuration values
            write_layout(root, lay, False)
            proj = os.path.join(root, "proj")
            rc, data, err = C.pyscn_json(["proj"], root, extra=["--select", "complexity", "--min-complexity", "1"])
            nruns += 1
            write_layout(root, lay, True)
            if data is None:
                res.violation("analyze produced no report on a project with nested configuration files: " + err[-300:], {"layout": lay})
                continue
            funcs = [(os.path.basename(f["FilePath"]), f["StartLine"], f["Name"], f["Metrics"]["Complexity"]) for f in (data["complexity"]["Functions"] or [])]
            exp_funcs = sorted(k for _, ks in lay["funcs"] for k in ks)
            got_named = sorted(c for (_, _, n, c) in funcs if re.match(r"f\d+_\d+$", n))      # analyze also lists the module body of every file
            if got_named != exp_funcs:
                res.notes.append("layout %s: analyze reports complexities %s, the generator intended %s (analyze is the reference)" % (lay, sorted(c for (_, _, _, c) in funcs), exp_funcs))
            hist["discovery_layouts"] += 1
            pmax = lay["proj_cfg"][2] if lay["proj_cfg"] else 0
            variants = [(["complexity"], None, False), (None, None, False), (["complexity"], rng.choice([3, 10, 12, 25]), False), (["complexity"], None, True),
                        (rng.choice([["complexity", "deadcode"], ["complexity", "deps"], ["complexity", "clones"], ["deadcode", "deps"]]), None, False)]
            lines, meta = [], []
            for (sel, mc, use_explicit) in variants:
                tform = rng.choice(["rel", "rel", "abs", "dot", "noarg", "slash"])
                args = ["check", "--skip-clones"] if sel is None else ["check", "--select", ",".join(sel)]
                if mc is not None:
                    args += ["--max-complexity", str(mc)]
                if use_explicit:
                    args += ["--config", explicit]
                cwd, targ = {"rel": (root, ["proj"]), "abs": (root, [proj]), "dot": (proj, ["."]), "noarg": (proj, []), "slash": (root, ["proj/"])}[tform]
                rc, out, err = C.pyscn(args + targ, cwd=cwd)
                nruns += 1
                cfgmax = 7 if use_explicit else pmax
                selmask = "-" if sel is None else "".join("1" if a in sel else "0" for a in ANALYSES)
                line = "gate %s %d %d 0 %d 0 0 %d:%s c: 0 0 0" % (selmask, 10 if mc is None else mc, 1 if mc is not None else 0, int(sel is None), cfgmax,
                                                                ",".join(str(c) for (_, _, _, c) in funcs))
                lines.append(line)
                meta.append((args + targ, tform, rc, err, sel, mc, cfgmax, use_explicit))
            want = C.driver_batch(lines) if os.path.exists(C.driver_path()) else None
            if want is None:
                ps.ok = False
                ps.broken.append("driver missing")
                break
            for line, w, (args, tform, rc, err, sel, mc, cfgmax, use_explicit) in zip(lines, want, meta):
                exp_rc = 0 if w == "1" else 1
                eff = mc if mc is not None else (cfgmax if cfgmax > 0 else 10)
                src = "flag" if mc is not None else "explicit-config" if use_explicit else "project-config" if pmax > 0 else "default"
                hist["discovery_runs"] += 1
                hist["discovery_threshold_source"][src] += 1
                hist["discovery_target_form"][tform] += 1
                hist["discovery_nested_cfg_runs"] += 1 if lay["nested"] else 0
                hist["exit0" if rc == 0 else "exit1"] += 1
                nontrivial.add(line + "|lay%d|%s" % (li, tform))
                cx_on = sel is None or "complexity" in sel
                # would one of the files that are NOT the project's configuration give another verdict?
                if cx_on and src in ("project-config", "default"):
                    others = [n[2] for n in lay["nested"]] + ([2] if lay.get("sibling_cfg") else [])
                    if any(any(c > o for (_, _, _, c) in funcs) != any(c > eff for (_, _, _, c) in funcs) for o in others):
                        hist["discovery_decided_by_choice_of_config"] += 1
                info = {"layout": lay, "flags": args, "cwd": "proj" if tform in ("dot", "noarg") else "parent of proj", "exit": rc, "model_line": line,
                        "effective_max_expected": eff, "threshold_source": src, "stderr": err[-600:]}
                if rc not in (0, 1):
                    res.violation("pyscn %s exited with status %d" % (" ".join(args), rc), info)
                    continue
                if rc != exp_rc:
                    diffs += 1
                    res.violation("pyscn %s: exit %d; the effective maximum complexity is %d (%s) and the gate model (fed with what `analyze` reports for the "
                                  "same tree) says %d" % (" ".join(args), rc, eff, src, exp_rc), info)
                    continue
                pcx, pdead, pcyc = parse_check_stderr(err)
                want_cx = {(f, l, n, c, eff) for (f, l, n, c) in funcs if c > eff} if cx_on else set()
                if want_cx:
                    hist["by_gate"]["complexity"] += 1
                if pcx != want_cx:
                    res.violation("check prints complexity violations %s, analyze reports %s against the effective maximum %d (%s)" % (sorted(pcx), sorted(want_cx), eff, src), info)
        # the excluded point of C19_gate: a negative --max-cycles
        root = os.path.join(tmp, "neg")
        write_project(os.path.join(root, "proj"), [2], [], 0)
        rc, out, err = C.pyscn(["check", "--select", "deps", "--max-cycles", "-1", "proj"], cwd=root)
        res.notes.append("excluded point --max-cycles -1 with 0 cycles: exit %d (not judged)" % rc)
    finally:
        shutil.rmtree(tmp, ignore_errors=True)
    if not ps.ok and not any(f for _, _, f in res.violations):
        res.violation("proof obligation or tie broken: " + "; ".join(ps.broken)[:1500],
                      {"broken": ps.broken, "note": "no project/flag combination on which `pyscn check` violates C19 was found in %d runs" % nruns},
                      found_input=False)
    res.coverage.update({
        "evaluations": nruns,
        "distinct_nontrivial": len(nontrivial),
        "rule": "projects sitting on each boundary (a function of complexity max-1/max/max+1 for the flag, config and default thresholds; "
                "dead code none/critical/warning-only; 0/1/2 import cycles) × seeded sample of the matrix --select subset × --max-complexity "
                "× config (max_complexity / min_severity) × --allow-dead-code × --max-cycles × --allow-circular-deps; every run is distinct; "
                "analysis could not run: target missing / empty directory / directory without Python files / unparsable configuration (--config or discovered) × every "
                "subset of --select (and the default selection with and without clones) × --allow-dead-code / --allow-circular-deps / both / --max-cycles / -q / "
                "--max-complexity, judged against what `analyze --select <analysis>` can run on the same target; "
                "the --select value typed in every accepted way (letter case per member, -s / --select=a,b / repeated flag); "
                "discovered configuration: project configuration in the target / its parent / absent (.pyscn.toml or pyproject.toml) × 0-2 sub-directories with a "
                "configuration file of their own (looser / stricter, sorting before / after the other files, one level deeper) × functions on every threshold in play "
                "× no flag / --max-complexity / explicit --config × select × how the target is named (relative, absolute, '.', none, trailing slash)",
        "samples": samples,
        "traces_validated_against_impl": nruns - diffs,
        "distribution": hist,
    })
    return res.finish("proof")
