"""CFG engine tie shared by C01-C04: the real parser+builder (harness `cfg`) vs the Lean model (driver `cfg`)."""
from . import common as C

KIND = {
    "FunctionDef": "def", "AsyncFunctionDef": "def", "ClassDef": "class", "Return": "ret", "Break": "brk", "Continue": "cont", "Raise": "raise",
    "If": "if", "elif_clause": "elif", "else_clause": "else", "For": "loop", "AsyncFor": "loop", "While": "loop", "Try": "try",
    "ExceptHandler": "handler", "With": "with", "AsyncWith": "with", "Match": "match", "MatchCase": "case",
}


def stmt_tokens(n, out):
    k = KIND.get(n["t"], "s")
    s, e = n["l"]
    out += [k, str(s), str(e)]

    def lst(key):
        xs = n.get(key) or []
        out.append("[")
        out.append(str(len(xs)))
        for x in xs:
            stmt_tokens(x, out)

    if k in ("s", "ret"):
        comp = n.get("comp")
        out.append("1" if comp is not None else "0")
        comp = comp or []
        out.append(str(len(comp)))
        out += ["1" if b else "0" for b in comp]
    elif k in ("brk", "cont", "raise"):
        pass
    elif k in ("if", "elif", "loop"):
        lst("body")
        lst("orelse")
    elif k == "try":
        lst("body")
        lst("handlers")
        lst("orelse")
        lst("finalbody")
    else:  # else handler with match case def class
        lst("body")
    return out


def body_tokens(kind, s, e, body):
    out = [kind, str(s), str(e), "[", str(len(body))]
    for x in body:
        stmt_tokens(x, out)
    return "cfg " + " ".join(out)


def all_defs(ast):
    """every def/class node of the parser's AST (through body/orelse/handlers/finalbody), plus the module"""
    out = []

    def rec(n, depth_path):
        if n["t"] in ("FunctionDef", "AsyncFunctionDef", "ClassDef"):
            out.append(n)
        for key in ("body", "orelse", "handlers", "finalbody"):
            for c in n.get(key) or []:
                rec(c, depth_path)
    rec(ast, ())
    return out


GRAPH_STATS = {"compared": 0, "differ": 0}


def canon_impl(f):
    fs = sorted((x["start"], x["end"], "c" if x["severity"] == "critical" else "w") for x in f["findings"])
    return "%d|%s|%s|%s" % (f["complexity"], ";".join("%d-%d-%s" % x for x in fs), ",".join(map(str, f["live_lines"])), ",".join(map(str, f["dead_lines"])))


def canon_graph(f):
    """the real builder's whole graph in the mirror's notation: per block id (bbN -> N) the statements and the out-edges, in insertion order"""
    bl = {}
    for b in f.get("blocks") or []:
        bl[int(b["id"][2:])] = b
    out = []
    for n in range(max(bl) + 1 if bl else 0):
        b = bl.get(n)
        if b is None:
            out.append("%d::" % n)
            continue
        out.append("%d:%s:%s" % (n, ",".join("%d-%d" % (l[0], l[1]) for l in b["lines"]), ",".join("%s/%s" % (t[2:], ty) for t, ty in b["succ"])))
    return ";".join(out)


def analyse(sources, want_graph=False):
    """sources: list of python source strings. Returns list of dicts:
       {"error": …} or {"ast": …, "funcs": [impl per CFG], "model": {name: model line}, "diffs": [(name, impl, model)]}"""
    reqs = [{"Src": s, "Path": "m.py", "Graph": True, "AST": True} for s in sources]
    go = C.harness_batch("cfg", reqs)
    lines, where = [], []
    for si, r in enumerate(go):
        if "funcs" not in r:
            continue
        defs = {(d["l"][0], d["l"][1]): d for d in all_defs(r["ast"]) if d["t"] != "ClassDef"}
        for f in r["funcs"]:
            if f["name"] == "__main__":
                lines.append(body_tokens("m", 0, 0, r["ast"].get("body") or []))
                where.append((si, f["name"]))
            else:
                d = defs.get((f["start"], f["end"]))
                if d is None:
                    where.append((si, f["name"]))
                    lines.append("bad")
                    continue
                lines.append(body_tokens("f", d["l"][0], d["l"][1], d.get("body") or []))
                where.append((si, f["name"]))
    outs = C.driver_batch(lines) if lines else []
    res = []
    for r in go:
        if "funcs" not in r:
            res.append({"error": r.get("parse_error") or r.get("cfg_error") or r.get("error")})
        else:
            res.append({"ast": r["ast"], "funcs": r["funcs"], "model": {}, "diffs": []})
    for (si, name), out in zip(where, outs):
        f = [x for x in go[si]["funcs"] if x["name"] == name][0]
        res[si]["model"][name] = out
        ci = canon_impl(f)
        parts = out.split("|")
        if len(parts) >= 5:
            mirror_obs, mirror_graph = "|".join(parts[:4]), parts[4]
        else:
            mirror_obs, mirror_graph = out, None
        res[si]["model"][name] = mirror_obs
        if ci != mirror_obs:
            res[si]["diffs"].append((name, ci, mirror_obs))
        elif mirror_graph is not None and f.get("blocks") is not None:
            GRAPH_STATS["compared"] += 1
            cg = canon_graph(f)
            if cg != mirror_graph:
                GRAPH_STATS["differ"] += 1
                res[si]["diffs"].append((name, "graph " + cg, "graph " + mirror_graph))
    return res
