"""C16 — a report is internally consistent and all formats say the same thing (DESIGN.md §4 C16)."""
import glob
import json
import os
import random
import re
import shutil
import tempfile

from . import common as C
from .c03 import func_with_complexity

PID = "C16"
SEV = {"info": 1, "warning": 2, "critical": 3}


def gen_module(rng, idx):
    """a module with functions of varied complexity, dead code of several kinds, classes with varied coupling/cohesion and copied functions"""
    out = ["import os", ""]
    for k in range(rng.randint(0, 4)):
        out.append(func_with_complexity("f%d_%d" % (idx, k), rng.choice([1, 2, 3, 5, 6, 9, 10, 11, 19, 20, 21, 25])))
    for k in range(rng.randint(0, 3)):
        kind = rng.choice(["return", "raise", "break", "branch", "return_info", "mixed", "mixed"])
        if kind == "return":
            out.append("def dead%d_%d(a):\n    return a\n    a = 1\n    a = 2\n" % (idx, k))
        elif kind == "raise":
            out.append("def dead%d_%d(a):\n    raise ValueError(a)\n    a = 1\n" % (idx, k))
        elif kind == "break":
            out.append("def dead%d_%d(a):\n    for i in range(a):\n        break\n        a += 1\n    return a\n" % (idx, k))
        elif kind == "mixed":
            # findings of different severities in ONE function (the severity filter works per function first)
            out.append("def dead%d_%d(a):\n    if a:\n        return 1\n        a = 5\n    else:\n        return 2\n    return 3\n" % (idx, k))
        elif kind == "branch":
            out.append("def dead%d_%d(a):\n    if a:\n        return 1\n    else:\n        return 2\n    return 3\n" % (idx, k))
        else:
            out.append("def dead%d_%d(a):\n    while True:\n        a += 1\n        if a > 10:\n            continue\n            a = 0\n    return a\n" % (idx, k))
    ncls = rng.randint(0, 3)
    for k in range(ncls):
        deps = rng.randint(0, 9)
        out += ["class Dep%d_%d_%d:\n    pass\n" % (idx, k, j) for j in range(deps)]
        body = ["    field%d: Dep%d_%d_%d = None" % (j, idx, k, j) for j in range(deps)] or ["    x = 1"]
        groups = rng.randint(1, 6)
        for g in range(groups):
            body += ["", "    def get%d(self):" % g, "        return self.attr%d" % g, "", "    def set%d(self, v):" % g, "        self.attr%d = v" % g]
        out.append("class Cls%d_%d:\n%s\n" % (idx, k, "\n".join(body)))
    if rng.random() < 0.6:
        body = "    total = 0\n    for item in items:\n        if item > 3:\n            total += item * 2\n        elif item < 0:\n            total -= 1\n        else:\n            total += 1\n    if flag:\n        print(total)\n    result = [t for t in range(total)]\n    return result\n"
        for c in range(rng.randint(2, 3)):
            out.append("def copy%d_%d(items, flag):\n%s" % (idx, c, body if c == 0 or rng.random() < 0.6 else body.replace("item * 2", "item * 3")))
    return "\n".join(out) + "\n"


def norm_keys(x):
    """key spelling differs between the JSON and YAML encoders (yaml.v3 lower-cases field names without a tag)"""
    if isinstance(x, dict):
        return {re.sub(r"[_\-]", "", k.lower()): norm_keys(v) for k, v in x.items()}
    if isinstance(x, list):
        return [norm_keys(v) for v in x]
    return x


def agg_line(minv, items):
    return "agg %d %d %s" % (minv, len(items), " ".join("%d %s" % (v, c) for v, c in items))


def run(tier, seed, replay=None):
    res = C.Result(PID, tier, seed)
    rng = random.Random(seed * 1000003 + 16)
    ps = C.prove(PID)
    C.proof_coverage(res, ps, "cd /verif/lean && lake build PV.Properties.C16 && #print axioms (audit)")
    res.assumptions += [
        "every summary field is recomputed from the items of the SAME report with the proved aggregation model (PV.Agg.aggregate via the driver); averages are compared as sum/count",
        "formats come from separate runs of the binary on the same tree (the CLI writes one format per run); comparisons ignore timestamps/durations and the order of lists, and do not use "
        "the dead-code `reason` field (its run-to-run variation is C05's subject)",
    ]
    nproj = 10 if tier == "quick" else 80
    hist = {"reports": 0, "summary_fields": 0, "items": 0, "format_runs": 0, "empty_sections": 0}
    nontrivial = set()
    have_driver = os.path.exists(C.driver_path())
    if not have_driver:
        ps.ok = False
        ps.broken.append("driver missing")
    tmp = tempfile.mkdtemp(prefix="pv_c16_")
    try:
        for pi in range(nproj):
            root = os.path.join(tmp, "p%d" % pi)
            proj = os.path.join(root, "proj")
            os.makedirs(proj)
            nmod = 0 if pi == 0 else rng.randint(1, 4)
            files = {}
            if pi == 0:
                files["empty.py"] = "x = 1\n"            # nothing to report anywhere: empty sections, nil maps, zero classes
            for m in range(nmod):
                files["mod%d.py" % m] = gen_module(rng, m)
            for fn, src in files.items():
                with open(os.path.join(proj, fn), "w") as f:
                    f.write(src)
            lo, med = rng.choice([(9, 19), (2, 5), (5, 10), (1, 2)])
            cfg = {"complexity": {"low_threshold": lo, "medium_threshold": med}, "cbo": {"show_zeros": rng.random() < 0.5},
                   "lcom": {"low_threshold": rng.choice([2, 1, 3]), "medium_threshold": rng.choice([5, 4, 6])},
                   "clones": {"min_lines": 5, "min_nodes": 10}}
            with open(os.path.join(root, "cfg.toml"), "w") as f:
                for sec, kv in cfg.items():
                    f.write("[%s]\n" % sec + "".join("%s = %s\n" % (k, json.dumps(v)) for k, v in kv.items()))
            flags = ["--config", os.path.join(root, "cfg.toml"), "--min-complexity", str(rng.choice([1, 1, 3, 6, 11])), "--min-severity", rng.choice(["info", "warning", "critical"]),
                     "--min-cbo", str(rng.choice([0, 0, 1, 4]))]
            info = {"files": files, "config": cfg, "flags": flags}
            rc, d, err = C.pyscn_json(["proj"], root, extra=flags)
            hist["format_runs"] += 1
            if d is None:
                res.violation("C16: the JSON report could not be written: %s" % err[-300:], dict(info, signature={"kind": "format-failed", "format": "json"}))
                continue
            hist["reports"] += 1
            bad = []           # (what, signature)

            def expect(name, got, want, tol=0.0):
                hist["summary_fields"] += 1
                ok = (abs((got or 0) - (want or 0)) <= tol) if isinstance(want, float) or isinstance(got, float) else got == want
                if not ok:
                    bad.append(("%s is %r, recomputed from the items of the same report: %r" % (name, got, want), {"kind": "summary", "field": name}))
            lines, after = [], []
            # ---- complexity ------------------------------------------------------------------------------------------------------
            cx = d.get("complexity")
            if cx:
                fns = cx.get("Functions") or []
                cfgc = cx["Config"]
                S = cx["Summary"]
                hist["items"] += len(fns)
                if not fns:
                    hist["empty_sections"] += 1
                for f in fns:
                    k = f["Metrics"]["Complexity"]
                    want = "low" if k <= cfgc["low_threshold"] else "medium" if k <= cfgc["medium_threshold"] else "high"
                    if f["RiskLevel"] != want:
                        bad.append(("function %s: complexity %d is `%s` with the echoed thresholds (%d, %d), expected `%s`" % (f["Name"], k, f["RiskLevel"], cfgc["low_threshold"], cfgc["medium_threshold"], want),
                                    {"kind": "item-risk", "section": "complexity"}))
                    if k < cfgc["min_complexity"]:
                        bad.append(("function %s with complexity %d is listed below the echoed min_complexity %d" % (f["Name"], k, cfgc["min_complexity"]), {"kind": "filter", "section": "complexity"}))
                lines.append(agg_line(-10 ** 9, [(f["Metrics"]["Complexity"], f["RiskLevel"]) for f in fns]))

                def chk_cx(a, S=S, fns=fns):
                    tot, sm, mx, mn = a["nums"]
                    expect("complexity.Summary.TotalFunctions", S["TotalFunctions"], tot)
                    expect("complexity.Summary.AverageComplexity", float(S["AverageComplexity"]), (sm / tot) if tot else 0.0, 1e-9)
                    expect("complexity.Summary.MaxComplexity", S["MaxComplexity"], mx)
                    expect("complexity.Summary.MinComplexity", S["MinComplexity"], mn)
                    for lvl, key in (("low", "LowRiskFunctions"), ("medium", "MediumRiskFunctions"), ("high", "HighRiskFunctions")):
                        expect("complexity.Summary." + key, S[key], a["classes"].get(lvl, 0))
                    expect("sum of complexity.Summary.ComplexityDistribution", sum((S.get("ComplexityDistribution") or {}).values()), tot)
                    expect("complexity.Summary.FilesAnalyzed", S["FilesAnalyzed"], len(files))
                after.append(chk_cx)
            # ---- dead code ---------------------------------------------------------------------------------------------------------
            dc = d.get("dead_code")
            if dc:
                S = dc["summary"]
                minsev = SEV[dc["config"]["min_severity"]]
                tot = crit = warn = inf = ffun = 0
                reasons = {}
                for f in dc.get("files") or []:
                    ftot = 0
                    for fn in f["functions"]:
                        fs = fn.get("findings") or []
                        ftot += len(fs)
                        c = {"critical": 0, "warning": 0, "info": 0}
                        for x in fs:
                            c[x["severity"]] += 1
                            reasons[x["reason"]] = reasons.get(x["reason"], 0) + 1
                            if SEV[x["severity"]] < minsev:
                                bad.append(("dead-code finding at %s:%d of severity `%s` is listed below the echoed min_severity `%s`" % (f["file_path"], x["location"]["start_line"], x["severity"], dc["config"]["min_severity"]),
                                            {"kind": "filter", "section": "dead_code"}))
                        expect("dead_code function %s critical/warning/info counts" % fn["name"], (fn["critical_count"], fn["warning_count"], fn["info_count"]), (c["critical"], c["warning"], c["info"]))
                        crit, warn, inf = crit + c["critical"], warn + c["warning"], inf + c["info"]
                    expect("dead_code file %s total_findings" % f["file_path"], f["total_findings"], ftot)
                    expect("dead_code file %s affected_functions" % f["file_path"], f["affected_functions"], len(f["functions"]))
                    tot += ftot
                    ffun += len(f["functions"])
                hist["items"] += tot
                expect("dead_code.summary.total_findings", S["total_findings"], tot)
                expect("dead_code.summary.critical_findings", S["critical_findings"], crit)
                expect("dead_code.summary.warning_findings", S["warning_findings"], warn)
                expect("dead_code.summary.info_findings", S["info_findings"], inf)
                expect("dead_code.summary.files_with_dead_code", S["files_with_dead_code"], len(dc.get("files") or []))
                expect("dead_code.summary.functions_with_dead_code", S["functions_with_dead_code"], ffun)
                expect("dead_code.summary.findings_by_reason", S.get("findings_by_reason") or {}, reasons)
                expect("dead_code.summary.total_files", S["total_files"], len(files))
            # ---- CBO / LCOM ----------------------------------------------------------------------------------------------------------
            for sec, val, avgk, maxk, mink in (("cbo", lambda c: c["Metrics"]["CouplingCount"], "AverageCBO", "MaxCBO", "MinCBO"), ("lcom", lambda c: c["Metrics"]["LCOM4"], "AverageLCOM", "MaxLCOM", "MinLCOM")):
                s = d.get(sec)
                if not s:
                    continue
                cls = s.get("Classes") or []
                S, cf = s["Summary"], s["Config"]
                hist["items"] += len(cls)
                for c in cls:
                    v = val(c)
                    want = "low" if v <= cf["lowThreshold"] else "medium" if v <= cf["mediumThreshold"] else "high"
                    if c["RiskLevel"] != want:
                        bad.append(("%s class %s: value %d is `%s` with the echoed thresholds (%d, %d), expected `%s`" % (sec, c["Name"], v, c["RiskLevel"], cf["lowThreshold"], cf["mediumThreshold"], want),
                                    {"kind": "item-risk", "section": sec}))
                    if sec == "cbo" and (v < cf["minCBO"] or (v == 0 and not cf["showZeros"])):
                        bad.append(("cbo class %s with CBO %d is listed although minCBO=%d, showZeros=%s" % (c["Name"], v, cf["minCBO"], cf["showZeros"]), {"kind": "filter", "section": "cbo"}))
                    if sec == "cbo" and v != len(c["Metrics"].get("DependentClasses") or []):
                        bad.append(("cbo class %s: CouplingCount %d, %d dependent classes listed" % (c["Name"], v, len(c["Metrics"].get("DependentClasses") or [])), {"kind": "item", "section": "cbo"}))
                lines.append(agg_line(-10 ** 9, [(val(c), c["RiskLevel"]) for c in cls]))

                def chk(a, S=S, sec=sec, avgk=avgk, maxk=maxk, mink=mink):
                    tot, sm, mx, mn = a["nums"]
                    expect("%s.Summary.TotalClasses" % sec, S["TotalClasses"], tot)
                    expect("%s.Summary.%s" % (sec, avgk), float(S[avgk]), (sm / tot) if tot else 0.0, 1e-9)
                    expect("%s.Summary.%s" % (sec, maxk), S[maxk], mx)
                    expect("%s.Summary.%s" % (sec, mink), S[mink], mn)
                    for lvl, key in (("low", "LowRiskClasses"), ("medium", "MediumRiskClasses"), ("high", "HighRiskClasses")):
                        expect("%s.Summary.%s" % (sec, key), S[key], a["classes"].get(lvl, 0))
                    dist = S.get("CBODistribution") or S.get("LCOMDistribution") or {}
                    expect("sum of %s distribution" % sec, sum(dist.values()), tot)
                after.append(chk)
            # ---- clones ----------------------------------------------------------------------------------------------------------------
            cl = d.get("clone")
            if cl:
                st, pairs, groups = cl["statistics"], cl.get("clone_pairs") or [], cl.get("clone_groups") or []
                hist["items"] += len(pairs)
                expect("clone.statistics.total_clone_pairs", st["total_clone_pairs"], len(pairs))
                expect("clone.statistics.total_clone_groups", st["total_clone_groups"], len(groups))
                expect("clone.statistics.total_clones", st["total_clones"], len(cl.get("clones") or []))
                bt = {}
                for p in pairs:
                    name = {1: "Type-1", 2: "Type-2", 3: "Type-3", 4: "Type-4"}[p["type"]]
                    bt[name] = bt.get(name, 0) + 1
                expect("clone.statistics.clones_by_type", st.get("clones_by_type") or {}, bt)
                expect("clone.statistics.average_similarity", float(st.get("average_similarity") or 0.0), (sum(p["similarity"] for p in pairs) / len(pairs)) if pairs else 0.0, 1e-9)
                expect("clone.statistics.files_analyzed", st["files_analyzed"], len(files))
            # ---- the aggregation model ------------------------------------------------------------------------------------------------
            if have_driver and lines:
                for out, fn in zip(C.driver_batch(lines), after):
                    nums, cs, kept = out.split("|")
                    fn({"nums": [int(x) for x in nums.split(" ")], "classes": dict((kv.split("=")[0], int(kv.split("=")[1])) for kv in cs.split(",") if kv)})
            # ---- unified summary = section summaries ---------------------------------------------------------------------------------------
            U = d.get("summary") or {}
            if cx:
                expect("summary.total_functions", U.get("total_functions"), cx["Summary"]["TotalFunctions"])
                expect("summary.average_complexity", float(U.get("average_complexity") or 0.0), float(cx["Summary"]["AverageComplexity"]), 1e-12)
                expect("summary.high_complexity_count", U.get("high_complexity_count"), cx["Summary"]["HighRiskFunctions"])
                expect("summary.total_files", U.get("total_files"), len(files))
            if dc:
                expect("summary.dead_code_count", U.get("dead_code_count"), dc["summary"]["total_findings"])
                expect("summary.critical_dead_code", U.get("critical_dead_code"), dc["summary"]["critical_findings"])
                expect("summary.warning_dead_code", U.get("warning_dead_code"), dc["summary"]["warning_findings"])
                expect("summary.info_dead_code", U.get("info_dead_code"), dc["summary"]["info_findings"])
            if cl:
                expect("summary.clone_pairs", U.get("clone_pairs"), cl["statistics"]["total_clone_pairs"])
                expect("summary.clone_groups", U.get("clone_groups"), cl["statistics"]["total_clone_groups"])
                expect("summary.total_clones", U.get("total_clones"), cl["statistics"]["total_clones"])
            if d.get("cbo"):
                expect("summary.cbo_classes", U.get("cbo_classes"), d["cbo"]["Summary"]["TotalClasses"])
                expect("summary.high_coupling_classes", U.get("high_coupling_classes"), d["cbo"]["Summary"]["HighRiskClasses"])
                expect("summary.medium_coupling_classes", U.get("medium_coupling_classes"), d["cbo"]["Summary"]["MediumRiskClasses"])
                expect("summary.average_coupling", float(U.get("average_coupling") or 0.0), float(d["cbo"]["Summary"]["AverageCBO"]), 1e-12)
            if d.get("lcom"):
                expect("summary.lcom_classes", U.get("lcom_classes"), d["lcom"]["Summary"]["TotalClasses"])
                expect("summary.high_lcom_classes", U.get("high_lcom_classes"), d["lcom"]["Summary"]["HighRiskClasses"])
                expect("summary.medium_lcom_classes", U.get("medium_lcom_classes"), d["lcom"]["Summary"]["MediumRiskClasses"])
            if hist["items"]:
                nontrivial.add(pi)
            # ---- the other formats of the same tree -----------------------------------------------------------------------------------------
            rep = os.path.join(root, ".pyscn", "reports")
            outs = {}
            for fmt in ("yaml", "csv", "html"):
                for old in glob.glob(os.path.join(rep, "*")):
                    os.remove(old)
                rc2, so, se = C.pyscn(["analyze", "--" + fmt, "--no-open"] + flags + ["proj"], cwd=root)
                hist["format_runs"] += 1
                got = glob.glob(os.path.join(rep, "*." + fmt))
                if rc2 != 0 or not got or os.path.getsize(got[0]) == 0:
                    bad.append(("the %s report was not written (exit %d): %s" % (fmt, rc2, (so + se)[-200:]), {"kind": "format-failed", "format": fmt}))
                    continue
                outs[fmt] = open(got[0]).read() if fmt != "yaml" else C.harness_batch("yaml2json", [{"Path": got[0]}])[0]
            rc3, text, se3 = C.pyscn(["analyze", "--no-open"] + flags + ["proj"], cwd=root)
            text = text + se3
            hist["format_runs"] += 1
            if rc3 != 0:
                bad.append(("the text report failed (exit %d): %s" % (rc3, se3[-200:]), {"kind": "format-failed", "format": "text"}))
            if "yaml" in outs:
                y = outs["yaml"]
                if "doc" not in y:
                    bad.append(("the YAML report does not parse: %s" % (y.get("yaml_error") or y.get("error")), {"kind": "format-failed", "format": "yaml"}))
                else:
                    a, b = norm_keys(d), norm_keys(y["doc"])
                    for sec, keys in (("complexity", ["summary"]), ("deadcode", ["summary"]), ("cbo", ["summary"]), ("lcom", ["summary"]), ("clone", ["statistics"]), ("summary", None)):
                        sa, sb = a.get(sec) or {}, b.get(sec) or {}
                        for k in (keys or [None]):
                            xa, xb = (sa.get(k), sb.get(k)) if k else (sa, sb)

                            def strip(x):
                                if isinstance(x, dict):
                                    # an empty map/list is `null` in the JSON and `{}`/`[]` in the YAML report: the same (empty) data
                                    return {kk: strip(v) for kk, v in x.items() if kk not in ("mostcoupledclasses", "leastcohesiveclasses", "mostdependeduponclasses", "generatedat", "durationms")
                                            and v not in (None, {}, [])}
                                if isinstance(x, float):
                                    return round(x, 9)
                                return x
                            hist["summary_fields"] += 1
                            if strip(xa) != strip(xb):
                                ka = strip(xa) or {}
                                kb = strip(xb) or {}
                                diff = [(q, ka.get(q), kb.get(q)) for q in sorted(set(ka) | set(kb)) if ka.get(q) != kb.get(q)] if isinstance(ka, dict) and isinstance(kb, dict) else [(sec, ka, kb)]
                                bad.append(("JSON and YAML reports differ in %s%s: %s" % (sec, "." + k if k else "", diff[:3]), {"kind": "json-vs-yaml", "section": sec}))
                    for sec, listk, ident in (("complexity", "functions", lambda f: (f["filepath"], f["name"], f["startline"], f["metrics"]["complexity"], f["risklevel"])),
                                              ("cbo", "classes", lambda c: (c["filepath"], c["name"], c["metrics"]["couplingcount"], c["risklevel"])),
                                              ("lcom", "classes", lambda c: (c["filepath"], c["name"], c["metrics"]["lcom4"], c["risklevel"]))):
                        la = sorted(ident(x) for x in ((a.get(sec) or {}).get(listk) or []))
                        lb = sorted(ident(x) for x in ((b.get(sec) or {}).get(listk) or []))
                        hist["summary_fields"] += 1
                        if la != lb:
                            bad.append(("JSON and YAML reports list different %s %s: only JSON %s, only YAML %s" % (sec, listk, [x for x in la if x not in lb][:2], [x for x in lb if x not in la][:2]),
                                        {"kind": "json-vs-yaml", "section": sec}))
            if "csv" in outs:
                rows = dict(ln.split(",", 1) for ln in outs["csv"].strip().split("\n")[1:] if "," in ln)
                for label, want in (("Health Score", str(U.get("health_score"))), ("Grade", U.get("grade")), ("Total Files", str(U.get("total_files"))),
                                    ("Average Complexity", "%.2f" % (U.get("average_complexity") or 0.0)), ("High Complexity Count", str(U.get("high_complexity_count"))),
                                    ("Dead Code Count", str(U.get("dead_code_count"))), ("Critical Dead Code", str(U.get("critical_dead_code"))), ("Clone Groups", str(U.get("clone_groups"))),
                                    ("Total Classes Analyzed", str(U.get("cbo_classes"))), ("High Coupling (CBO) Classes", str(U.get("high_coupling_classes"))),
                                    ("Average CBO", "%.2f" % (U.get("average_coupling") or 0.0))):
                    hist["summary_fields"] += 1
                    if label in rows and rows[label] != want:
                        bad.append(("CSV report: %s = %s, the JSON report of the same tree says %s" % (label, rows[label], want), {"kind": "csv-headline", "field": label}))
                    elif label not in rows and label in ("Health Score", "Grade", "Total Files"):
                        bad.append(("CSV report lacks the row %s" % label, {"kind": "csv-headline", "field": label}))
            head = "Health Score: %s/100 (Grade: %s)" % (U.get("health_score"), U.get("grade"))
            for fmt, body in (("html", outs.get("html")), ("text", text if rc3 == 0 else None)):
                if body is None:
                    continue
                hist["summary_fields"] += 1
                if head not in body:
                    m = re.search(r"Health Score: [^\n<]*", body)
                    bad.append(("%s report headline is `%s`, the JSON report of the same tree says `%s`" % (fmt, m.group(0) if m else None, head), {"kind": fmt + "-headline"}))
            if "html" in outs:
                cards = dict((lab, v) for v, lab in re.findall(r'<div class="metric-value">([^<]*)</div>\s*<div class="metric-label">([^<]*)</div>', outs["html"]))
                for label, want in (("Total Files", str(U.get("total_files"))), ("Avg Complexity", "%.2f" % (U.get("average_complexity") or 0.0)), ("Dead Code Issues", str(U.get("dead_code_count")))):
                    hist["summary_fields"] += 1
                    if label in cards and cards[label] != want:
                        bad.append(("HTML report: %s = %s, the JSON report of the same tree says %s" % (label, cards[label], want), {"kind": "html-headline", "field": label}))
            for what, sig in bad:
                k = C.classify(PID, sig)
                if k:
                    res.known_finding(k, "(%s)" % what[:300])
                else:
                    res.violation("C16: " + what, dict(info, signature=sig))
    finally:
        shutil.rmtree(tmp, ignore_errors=True)
    if not ps.ok and not any(fi for _, _, fi in res.violations):
        res.violation("proof obligation or tie broken: " + "; ".join(ps.broken)[:1500], {"broken": ps.broken}, found_input=False)
    res.coverage.update({
        "evaluations": hist["summary_fields"],
        "distinct_nontrivial": len(nontrivial),
        "rule": "generated projects (0-4 modules: functions of complexity 1..25 around the thresholds, five kinds of dead code, classes with 0-9 coupled classes and 1-6 cohesion groups, "
                "copied functions) incl. a project with nothing to report; per project random thresholds (config file) and filters (flags); every summary field of every section and of the "
                "unified summary recomputed from the items; each item's risk level vs the echoed thresholds; filters; YAML vs JSON; CSV/text/HTML headline numbers; every format must be written",
        "samples": [],
        "traces_validated_against_impl": hist["reports"],
        "distribution": hist,
    })
    return res.finish("proof")
