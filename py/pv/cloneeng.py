"""Shared machinery for C08/C09: generated clone projects, the `clones` harness command, the Lean `clones` driver command."""
import copy
import random
import struct

from . import common as C
from . import pygen


class QuietRender(pygen.Render):
    """random identifiers / literals, but no comment or blank-line noise (that is added separately, so that copies stay verbatim)"""

    def emit(self, indent, text):
        self.lines.append("    " * indent + text)
        return len(self.lines)


def gen_skeleton(rng, name, nodes=None):
    g = pygen.Gen(rng, max_depth=rng.choice([2, 3]), max_len=rng.choice([3, 4, 5]), max_nodes=nodes or rng.choice([14, 22, 35, 50]),
                  allow=["s", "ret", "if", "for", "while", "try", "with", "comp", "raise", "brk", "cont"],
                  weights={"s": 8, "if": 3, "for": 3, "while": 2, "try": 1, "with": 1})
    f = g.function(name)
    # pad small bodies so that most functions pass the default size filters (>= 10 nodes, >= 5 lines)
    pad = [("s", 90000 + i) for i in range(rng.choice([4, 6, 8]))]
    f = list(f)
    f[3] = pad[:len(pad) // 2] + list(f[3]) + pad[len(pad) // 2:]
    return tuple(f)


def render_fn(skel, seed):
    r = QuietRender(random.Random(seed), cosmetics=True)
    r.stmt(skel, 0)
    return r.lines


def noise(lines, rng, heavy=False):
    """same code up to whitespace and comments: blank lines, comment lines, trailing comments"""
    out = []
    p = 0.85 if heavy else 0.15
    for ln in lines:
        ind = len(ln) - len(ln.lstrip())
        if heavy and out and rng.random() < p:
            out += ["", " " * ind + "# see ticket %d" % rng.randrange(1000)]
        if out and rng.random() < p:
            out.append("")
        if out and rng.random() < p:
            out.append(" " * ind + "# remark %d" % rng.randrange(1000))
        if rng.random() < p and not ln.rstrip().endswith(":"):
            ln = ln + "  # t%d" % rng.randrange(100)
        out.append(ln)
    return out


def reindent(lines, unit):
    out = []
    for ln in lines:
        ind = len(ln) - len(ln.lstrip())
        out.append(unit * (ind // 4) + ln.lstrip())
    return out


def mutate_skeleton(skel, rng):
    """a near copy: one statement added or dropped in the top-level body"""
    f = list(copy.deepcopy(skel))
    body = list(f[3])
    if len(body) > 3 and rng.random() < 0.5:
        del body[rng.randrange(len(body))]
    else:
        body.insert(rng.randrange(len(body) + 1), ("s", 95000 + rng.randrange(1000)))
    f[3] = body
    return tuple(f)


class Project:
    """files: list of (path, [function line lists]); planted: list of ((path, fn index), (path, fn index)) verbatim copies"""

    def __init__(self):
        self.files = []
        self.planted = []
        self.offset = {}      # (path, fn index) -> (lines in front of the definition inside its entry, placement) for definitions placed under a clause

    def sources(self):
        out = []
        for path, fns in self.files:
            text = []
            for fn in fns:
                text += fn + ["", ""]
            out.append({"Path": path, "Src": "\n".join(text) + "\n"})
        return out

    def fn_span(self, path, k):
        """1-based (start, end) of the k-th function of the file (comment/blank lines inside belong to it; trailing ones may or may not)"""
        for p, fns in self.files:
            if p == path:
                start = 1
                for i, fn in enumerate(fns):
                    if i == k:
                        off = self.offset.get((path, k), (0, None))[0]
                        return start + off, start + len(fn) - 1
                    start += len(fn) + 2
        raise KeyError((path, k))


def gen_project(rng, nbase=None, heavy_noise=False, nodes=None):
    pr = Project()
    nbase = nbase or rng.randint(2, 5)
    bases = []
    for b in range(nbase):
        sk = gen_skeleton(rng, "fn_%d" % b, nodes=rng.choice(nodes) if nodes else None)
        bases.append((sk, rng.randrange(10 ** 6)))
    paths = ["a.py", "b.py", "pkg/c.py", "pkg/sub/d.py", "other/e.py"]
    nfiles = rng.randint(1, 4)
    files = {p: [] for p in rng.sample(paths, nfiles)}
    where = {}      # base index -> list of (path, idx) of its verbatim renderings
    for b, (sk, seed) in enumerate(bases):
        base_lines = render_fn(sk, seed)
        for _ in range(rng.choice([1, 1, 2, 2, 3])):
            kind = rng.choice(["verbatim", "verbatim", "noise", "reindent", "rename", "mutate", "renamed_def"])
            path = rng.choice(list(files))
            if kind == "verbatim":
                lines, verb = list(base_lines), True
            elif kind == "noise":
                lines, verb = noise(base_lines, rng, heavy_noise), True
            elif kind == "reindent":
                lines, verb = reindent(base_lines, rng.choice(["  ", "\t", "        "])), True
            elif kind == "rename":
                lines, verb = render_fn(sk, seed + 1 + rng.randrange(1000)), False
            elif kind == "renamed_def":
                # the same statement skeleton under ANOTHER function name (a different tree of the same shape: distance exactly one relabel), with its
                # own identifiers half of the time; inserted at a random position so that it is often visited before the second verbatim copy
                sk2 = list(sk)
                sk2[2] = "%s_twin%d" % (sk[2], rng.randrange(100))
                lines, verb = render_fn(tuple(sk2), seed if rng.random() < 0.5 else seed + 1 + rng.randrange(1000)), False
            else:
                lines, verb = render_fn(mutate_skeleton(sk, rng), seed), False
            files[path].append(lines)
            if verb:
                where.setdefault(b, []).append((path, len(files[path]) - 1))
    if rng.random() < 0.35:
        # a deliberate triple: a function, its twin under another name (same shape, different tree), and a verbatim copy of the function AFTER the twin
        # in the visiting order — whatever is remembered from comparing with the twin must not leak into the verbatim pair
        b = rng.randrange(len(bases))
        sk, seed = bases[b]
        sk2 = list(sk)
        sk2[2] = "%s_twin" % sk[2]
        order = sorted(files)
        first, last = order[0], order[-1]
        files[first].append(render_fn(sk, seed))
        where.setdefault(b, []).append((first, len(files[first]) - 1))
        files[rng.choice([first, last])].append(render_fn(tuple(sk2), seed))
        files[last].append(render_fn(sk, seed))
        where.setdefault(b, []).append((last, len(files[last]) - 1))
    if rng.random() < 0.4:
        # PADDED copies: a function and copies of it with 2..9 cheap statements (calls, annotated assignments) added at the top of the body, i.e. pairs
        # whose tree sizes differ by 20..45 % while the weighted edit distance stays small — the region where a size-based shortcut and the real
        # distance disagree (every comparison path must agree on these pairs)
        b = rng.randrange(len(bases))
        sk, seed = bases[b]
        base_lines = render_fn(sk, seed)
        target = rng.choice(sorted(files))
        for extra in rng.sample(range(2, 10), rng.choice([2, 3, 4])):
            pad = []
            for i in range(extra):
                pad.append("    " + rng.choice(["log_%d.info(\"step %d\", tag_%d)" % (i, i, i), "metrics_%d.incr(\"k%d\")" % (i, i), "note_%d: int = %d" % (i, i),
                                              "trace(%d)" % i]))
            files[rng.choice([target, rng.choice(sorted(files))])].append([base_lines[0]] + pad + base_lines[1:])
    if where and rng.random() < 0.35:
        # COPY PLACEMENT under a clause: a verbatim copy of a function as the fallback definition under `except ImportError:` or in a `finally:`
        # block (indented one level) — it must be a fragment like the copy at module level
        b = rng.choice(sorted(where))
        sk, seed = bases[b]
        base_lines = render_fn(sk, seed)
        for placement in rng.sample(["except", "finally"], rng.choice([1, 2])):
            head = ["try:", "    import opt_accel_%d" % rng.randrange(100)] + (["except ImportError:"] if placement == "except" else ["finally:"])
            path = rng.choice(sorted(files))
            files[path].append(head + ["    " + ln if ln.strip() else ln for ln in base_lines])
            pr.offset[(path, len(files[path]) - 1)] = (len(head), placement)
            where[b].append((path, len(files[path]) - 1))
    pr.files = [(p, fns) for p, fns in files.items() if fns]
    for b, locs in where.items():
        for x in range(len(locs)):
            for y in range(x + 1, len(locs)):
                pr.planted.append((locs[x], locs[y]))
    return pr


def async_twin(lines, rng, keep=0.25):
    """the `async def` variant of a rendered function: the header becomes `async def`, every statement-level `for` / `with` becomes `async for` / `async with`
    (each one stays synchronous with probability `keep`, which is still valid inside a coroutine). Returns None when nothing but the header would change."""
    out, changed = [], 0
    for k, ln in enumerate(lines):
        body = ln.lstrip()
        ind = ln[:len(ln) - len(body)]
        if k == 0 and body.startswith("def "):
            out.append(ind + "async " + body)
        elif (body.startswith("for ") or body.startswith("with ")) and body.rstrip().endswith(":") and rng.random() >= keep:
            out.append(ind + "async " + body)
            changed += 1
        else:
            out.append(ln)
    return out if changed else None


def add_async_twins(pr, rng, n=1):
    """sync/async pairs: for up to n functions of the project that hold a `for` or `with` statement, the coroutine variant of the same text is added (same
    file or another file, before or after the original). The two fragments differ by FunctionDef/AsyncFunctionDef, For/AsyncFor, With/AsyncWith labels only,
    so the pair is compared in both directions with a rename between related node types on the optimal mapping. Returns the number of twins added."""
    cands = []
    for fi, (path, fns) in enumerate(pr.files):
        for k, fn in enumerate(fns):
            if fn and fn[0].startswith("def ") and any(x.lstrip().startswith(("for ", "with ")) for x in fn[1:]):
                cands.append((fi, k))
    rng.shuffle(cands)
    added = 0
    for fi, k in cands[:n]:
        tw = async_twin(pr.files[fi][1][k], rng, keep=rng.choice([0.0, 0.0, 0.3]))
        if tw is None:
            continue
        # appended at the END of a file (the indices of the planted copies stay valid); the file is the original's or any other one, so the coroutine is
        # visited before the original about as often as after it
        tgt = rng.randrange(len(pr.files))
        pr.files[tgt][1].append(tw)
        added += 1
    return added


def flat_piece(rng, k):
    """a few statements for the body of a LARGE function: simple statements and compound statements of at most 4 lines, so that no nested block is a
    fragment of its own under the default minimum size (5 lines, 10 nodes) — the large function is the fragment"""
    v = lambda: rng.choice(["x", "y", "total", "acc", "item", "res"])
    kind = rng.choice(["s", "s", "s", "call", "aug", "if", "if", "for", "while", "with", "ret"])
    if kind == "s":
        return ["    %s = %d" % (v(), rng.randrange(100))]
    if kind == "call":
        return ["    emit(%s, %d)" % (v(), k)]
    if kind == "aug":
        return ["    %s += %d" % (v(), rng.randrange(100))]
    if kind == "if":
        out = ["    if %s %s %d:" % (v(), rng.choice(["<", ">", "==", "!="]), rng.randrange(100)), "        %s = %d" % (v(), rng.randrange(100))]
        if rng.random() < 0.4:
            out += ["    else:", "        %s -= %d" % (v(), rng.randrange(100))]
        return out
    if kind == "for":
        return ["    for %s in range(%d):" % (v(), rng.randrange(100)), "        %s += %d" % (v(), rng.randrange(100))] + (["        emit(%d)" % k] if rng.random() < 0.5 else [])
    if kind == "while":
        return ["    while %s < %d:" % (v(), rng.randrange(100)), "        %s += 1" % v()]
    if kind == "with":
        return ["    with open(%s) as fh:" % v(), "        fh.write(%d)" % k]
    return ["    if %s:" % v(), "        return %s" % v()]


def gen_large_project(rng, target, as_class=False):
    """a project in which ONE large function (or class) of about `target` statement lines appears verbatim in two or three places (same file / other file /
    other directory; as is, with comment and blank-line noise, re-indented), next to one or two ordinary functions that are copied verbatim as well.
    Only verbatim renderings of the large fragment are generated: what the property demands of such a pair does not depend on how expensive it is to compare."""
    pr = Project()
    if as_class:
        # a class whose members are many short methods and class-level assignments (each member far below the minimum fragment size)
        body, k = [], 0
        while len(body) < target:
            k += 1
            if rng.random() < 0.6:
                body += ["    def m_%d(self, x):" % k, "        %s = x + %d" % (rng.choice(["y", "acc"]), rng.randrange(100)), "        return %s" % rng.choice(["x", "self"])]
            else:
                body += ["    FIELD_%d = %d" % (k, rng.randrange(1000))]
        big = ["class Table_%d:" % rng.randrange(100)] + body
    else:
        body, k = [], 0
        while len(body) < target:
            k += 1
            body += flat_piece(rng, k)
        big = ["def big_%d(x):" % rng.randrange(100)] + body + ["    return x"]
    paths = rng.sample(["a.py", "b.py", "pkg/c.py", "pkg/sub/d.py", "other/e.py"], rng.randint(1, 3))
    files = {p: [] for p in paths}
    small = []
    for b in range(rng.randint(1, 2)):
        small.append(render_fn(gen_skeleton(rng, "ctl_%d" % b, nodes=rng.choice([14, 22])), rng.randrange(10 ** 6)))
    locs = {}
    items = [("big", big, 0)] + [("s%d" % i, fn, 0) for i, fn in enumerate(small)]
    ncopies = rng.choice([1, 1, 2])
    for c in range(ncopies):
        kind = rng.choice(["verbatim", "noise", "reindent"])
        lines = list(big) if kind == "verbatim" else noise(big, rng) if kind == "noise" else reindent(big, rng.choice(["  ", "\t", "        "]))
        items.append(("big", lines, 1))
    for i, fn in enumerate(small):
        if rng.random() < 0.7:
            items.append(("s%d" % i, list(fn), 1))
    rng.shuffle(items)
    for key, lines, _ in items:
        path = rng.choice(paths)
        files[path].append(lines)
        locs.setdefault(key, []).append((path, len(files[path]) - 1))
    pr.files = [(p, fns) for p, fns in files.items() if fns]
    for key, ls in locs.items():
        for x in range(len(ls)):
            for y in range(x + 1, len(ls)):
                pr.planted.append((ls[x], ls[y]))
    return pr


def harness_pool(cmd, cases, jobs=14, weights=None):
    """like common.harness_batch, but the cases are handed out ONE AT A TIME to `jobs` harness processes (heaviest first when `weights` is given), so that
    a few expensive cases do not leave most processes idle while one of them works through its share. Results come back in input order."""
    import json
    import os
    import subprocess
    import threading
    if not cases:
        return []
    lines = [cmd + " " + json.dumps(c, separators=(",", ":")) for c in cases]
    order = sorted(range(len(lines)), key=lambda k: -(weights[k] if weights else 0))
    out = [None] * len(lines)
    lock = threading.Lock()
    pos = [0]
    errors = []

    def worker():
        p = subprocess.Popen([os.path.join(C.BUILD, "verifharness")], stdin=subprocess.PIPE, stdout=subprocess.PIPE, stderr=subprocess.DEVNULL, text=True,
                             env=C.harness_env())
        try:
            while True:
                with lock:
                    if pos[0] >= len(order) or errors:
                        break
                    k = order[pos[0]]
                    pos[0] += 1
                p.stdin.write(lines[k] + "\n")
                p.stdin.flush()
                resp = p.stdout.readline()
                if not resp:
                    raise RuntimeError("verifharness %s: no response for request %d (process ended, rc=%s)" % (cmd, k, p.poll()))
                out[k] = json.loads(resp)
        except Exception as e:      # noqa: BLE001 — reported by the caller's thread
            errors.append(e)
        finally:
            try:
                p.stdin.close()
            except Exception:
                pass
            try:
                p.wait(timeout=30)
            except Exception:
                p.kill()

    ts = [threading.Thread(target=worker) for _ in range(min(jobs, len(lines)))]
    for t in ts:
        t.start()
    for t in ts:
        t.join()
    if errors:
        raise errors[0]
    return out


# ---------------------------------------------------------------------------------------------------------------------------
def f2hex(x):
    return "%016x" % struct.unpack(">Q", struct.pack(">d", float(x)))[0]


def hex2f(h):
    return struct.unpack(">d", struct.pack(">Q", int(h, 16)))[0]


def driver_prefix(mode, g):
    """tokens shared by all modes, from one harness response"""
    cfg = g["cfg"]
    t = ["clones", mode, cfg["T1"], cfg["T2"], cfg["T3"], cfg["T4"], cfg["Sim"], cfg["MaxDist"], str(cfg["MinNodes"]), str(cfg["MinLines"]),
         cfg["MinSim"], cfg["MaxSim"], ",".join(str(x) for x in cfg["Types"]) or "-", str(cfg["MaxClonePairs"]), str(len(g["frags"]))]
    for f in g["frags"]:
        t += [str(f["File"]), str(f["S"]), str(f["E"]), str(f["Size"]), str(f["Lines"])]
    ok = [r for r in g["raw"] if r["OK"]]
    t.append(str(len(ok)))
    for r in ok:
        t += [str(r["I"]), str(r["J"]), r["Sim"], r["Dist"]]
    return t


def pairs_of(lst):
    """harness pair list -> sorted list of canonical strings, the driver's format"""
    return sorted("%d:%d:%d:%s:%s" % (p["I"], p["J"], p["Type"], p["Sim"], p["Dist"]) for p in lst)


def unordered(lst):
    return sorted("%d:%d:%d:%s:%s" % (min(p["I"], p["J"]), max(p["I"], p["J"]), p["Type"], p["Sim"], p["Dist"]) for p in lst)


def parse_pairs(s):
    s = s.strip()
    return [] if s in ("-", "") else s.split(" ")


def band(cfg, sim):
    t1, t2, t3, t4 = (hex2f(cfg[k]) for k in ("T1", "T2", "T3", "T4"))
    return 1 if sim >= t1 else 2 if sim >= t2 else 3 if sim >= t3 else 4 if sim >= t4 else 0
