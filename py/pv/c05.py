"""C05 — reports are reproducible: same tree and options give the same report (DESIGN.md §4 C05)."""
import glob
import json
import os
import random
import shutil
import tempfile

from . import common as C
from .c03 import func_with_complexity

PID = "C05"
IGNORE = ("generated_at", "duration_ms", "GeneratedAt", "Duration", "analysis_time_ms")


def strip(x):
    if isinstance(x, dict):
        return {k: strip(v) for k, v in x.items() if k not in IGNORE}
    if isinstance(x, list):
        return [strip(v) for v in x]
    return x


def first_diffs(a, b, path, out, limit=6):
    if len(out) >= limit:
        return
    if isinstance(a, dict) and isinstance(b, dict):
        for k in sorted(set(a) | set(b)):
            first_diffs(a.get(k), b.get(k), path + [k], out, limit)
    elif isinstance(a, list) and isinstance(b, list) and len(a) == len(b):
        for x, y in zip(a, b):
            first_diffs(x, y, path + ["#"], out, limit)
    elif a != b:
        out.append((".".join(path), a if not isinstance(a, (dict, list)) else "…", b if not isinstance(b, (dict, list)) else "…"))


def tie_project(rng, root):
    """many items whose sort keys tie: equal complexities, equal CBO/LCOM, equal-size cycles, identical clone groups, several dead blocks"""
    os.makedirs(root)
    open(os.path.join(root, "requirements.txt"), "w").close()
    nmod = rng.randint(3, 6)
    for m in range(nmod):
        out = []
        # import cycles of equal size between neighbouring modules
        out.append("import mod%d" % ((m + 1) % nmod))
        if m % 2 == 0:
            out.append("import mod%d" % ((m + 2) % nmod))
        for k in range(rng.randint(2, 5)):
            out.append(func_with_complexity("f%d_%d" % (m, k), rng.choice([3, 3, 3, 6])))
        for k in range(rng.randint(1, 3)):
            out.append("def dead%d_%d(a):\n    for i in range(a):\n        if i:\n            break\n            a += 1\n        else:\n            continue\n            a -= 1\n    return a\n    a = 0\n" % (m, k))
        # dead code whose blocks share a source span (one-line compound statements, several statements on one line): findings that tie on
        # (start line, end line) and are only ordered by the last tie-breaker of the comparator
        for k in range(rng.randint(1, 2)):
            out.append("def deadline%d_%d(items, discount, ctx):\n    total = 0\n    return total\n    if discount: total -= discount\n    for item in items: total += item\n"
                       "    while total: total -= 1\n    with ctx: total = 1\n    total = 2; total += 3\n    try: total = 4\n    except ValueError: total = 5\n" % (m, k))
            out.append("def deadloop%d_%d(items):\n    for item in items:\n        continue\n        if item: item += 1\n        while item: item -= 1\n    raise ValueError(items)\n    if items: items = None\n" % (m, k))
        for k in range(rng.randint(2, 4)):
            out.append("class Dep%d_%d:\n    pass\n" % (m, k))
        for k in range(rng.randint(2, 4)):
            out.append("class K%d_%d(Dep%d_0):\n    a: Dep%d_1 = None\n\n    def get(self):\n        return self.x\n\n    def put(self, v):\n        self.y = v\n" % (m, k, m, m))
        body = "    total = 0\n    for item in items:\n        if item > 3:\n            total += item * 2\n        elif item < 0:\n            total -= 1\n        else:\n            total += 1\n    if flag:\n        print(total)\n    result = [t for t in range(total)]\n    return result\n"
        for k in range(2):
            out.append("def copy%d_%d(items, flag):\n%s" % (m, k, body))
        with open(os.path.join(root, "mod%d.py" % m), "w") as f:
            f.write("\n".join(out) + "\n")
    # a module that imports names and, right after it in the walk order, modules that mention those names WITHOUT importing them (one with a star import
    # only): whatever per-file state an analysis keeps must not make the report depend on which worker / CPU count handled the neighbour
    extra = {
        "shared_names.py": "class Repository:\n    def get(self):\n        return 1\n\nclass Ledger:\n    def put(self, v):\n        self.v = v\n\ndef open_ledger():\n    return Ledger()\n",
        "a_billing.py": "from shared_names import Repository, Ledger, open_ledger\nimport shared_names as sn\n\nclass Invoice:\n    def total(self):\n        self.repo = Repository()\n        return Ledger().put(open_ledger())\n",
        "b_handlers.py": "class Handler:\n    def handle(self, x):\n        self.repo = Repository()\n        self.led = Ledger()\n        return open_ledger()\n\nclass Other(Repository):\n    def m(self):\n        return sn.Ledger()\n",
        "c_star.py": "from shared_names import *\n\nclass StarUser:\n    def run(self):\n        self.r = Repository()\n        return Ledger()\n",
    }
    for fn, src in extra.items():
        with open(os.path.join(root, fn), "w") as f:
            f.write(src)


def run(tier, seed, replay=None):
    res = C.Result(PID, tier, seed)
    rng = random.Random(seed * 1000003 + 5)
    ps = C.prove(PID)
    C.proof_coverage(res, ps, "cd /verif/lean && lake build PV.Properties.C05 && #print axioms (audit)")
    res.assumptions += [
        "the decision on the real code is the repeated-run oracle: the same command is run k times (GOMAXPROCS 1/4/16 in turn) and the reports, with exactly generated_at / duration fields "
        "removed, must be identical including the order of every list; Go randomises map iteration per range statement, so a map order that reaches the output shows with probability "
        ">= 1/2 per run once two entries tie",
        "the theorems are about the emission model (what makes a pipeline order-independent); the site inventory (124 map ranges, 68 unstable sorts, 4 goroutine starts, clock sources) is "
        "regenerated and pinned, the individual sites are NOT classified one by one",
    ]
    k = 6 if tier == "quick" else 24
    hist = {"projects": 0, "runs": 0, "selections": 0}
    nontrivial = set()
    tmp = tempfile.mkdtemp(prefix="pv_c05_")
    try:
        projects = []
        td = os.path.join(C.REPO, "testdata", "python")
        allp = os.path.join(tmp, "all", "proj")
        shutil.copytree(td, allp)
        projects.append(("testdata/python (all)", allp, []))
        for sub in ("simple", "clones", "circular_deps", "complex", "edge_cases"):
            if os.path.isdir(os.path.join(td, sub)):
                p = os.path.join(tmp, sub, "proj")
                shutil.copytree(os.path.join(td, sub), p)
                projects.append(("testdata/python/" + sub, p, []))
        for g in range(3 if tier == "quick" else 12):
            p = os.path.join(tmp, "gen%d" % g, "proj")
            tie_project(rng, p)
            projects.append(("generated tie-rich project %d" % g, p, []))
        # near-duplicate functions with the LSH candidate path FORCED by the configuration (it is otherwise only taken from 500 fragments on): MinHash
        # signatures, buckets and the estimated similarities must be the same in every process
        from . import cloneeng
        for g in range(1 if tier == "quick" else 4):
            p = os.path.join(tmp, "lsh%d" % g, "proj")
            pr = cloneeng.gen_project(rng, nbase=6, nodes=[12, 16, 22])
            for f in pr.sources():
                fp = os.path.join(p, f["Path"])
                os.makedirs(os.path.dirname(fp), exist_ok=True)
                with open(fp, "w") as fh:
                    fh.write(f["Src"])
            cfg = os.path.join(tmp, "lsh%d" % g, "lsh.toml")
            with open(cfg, "w") as fh:
                fh.write("[clones]\nmin_lines = 4\nmin_nodes = 8\nlsh_enabled = \"true\"\nlsh_similarity_threshold = 0.3\nsimilarity_threshold = 0.6\n")
            projects.append(("generated clone project %d, LSH forced" % g, p, ["--select", "clones", "--config", cfg]))
        projects.append(("testdata/python (all), --select complexity,deadcode,cbo", allp, ["--select", "complexity,deadcode,cbo"]))
        projects.append(("generated tie-rich project 0, --select deps,clones", os.path.join(tmp, "gen0", "proj"), ["--select", "deps,clones", "--min-complexity", "1"]))
        for title, proj, extra in projects:
            hist["projects"] += 1
            root = os.path.dirname(proj)
            base = None
            seen_paths = set()
            for r in range(k):
                env = dict(os.environ, GOMAXPROCS=str([1, 4, 16][r % 3]))
                rep = os.path.join(root, ".pyscn", "reports")
                shutil.rmtree(rep, ignore_errors=True)
                rc, out, err = C.pyscn(["analyze", "--json", "--no-open"] + extra + ["proj"], cwd=root, env=env)
                hist["runs"] += 1
                got = glob.glob(os.path.join(rep, "*.json"))
                if not got:
                    res.violation("analyze produced no JSON report on %s: %s" % (title, err[-300:]), {"project": title})
                    break
                d = strip(json.load(open(got[0])))
                if base is None:
                    base = d
                    nontrivial.add(title)
                    continue
                diffs = []
                first_diffs(base, d, [], diffs)
                for path, a, b in diffs:
                    if path in seen_paths:
                        continue
                    seen_paths.add(path)
                    sig = {"kind": "differs", "path": path}
                    kf = C.classify(PID, sig)
                    what = "C05: run %d (GOMAXPROCS=%s) of `analyze --json %s` on %s differs from run 1 at %s: %r vs %r" % (r + 1, env["GOMAXPROCS"], " ".join(extra), title, path, a, b)
                    if kf:
                        res.known_finding(kf, "(%s)" % what[:260])
                    else:
                        res.violation(what, {"signature": sig, "project": title, "flags": extra, "run": r + 1, "gomaxprocs": env["GOMAXPROCS"]})
    finally:
        shutil.rmtree(tmp, ignore_errors=True)
    if not ps.ok and not any(fi for _, _, fi in res.violations):
        res.violation("proof obligation or tie broken: " + "; ".join(ps.broken)[:1500], {"broken": ps.broken}, found_input=False)
    res.coverage.update({
        "evaluations": hist["runs"],
        "distinct_nontrivial": len(nontrivial),
        "rule": "the repository's own testdata (all of it and five sub-projects) + generated tie-rich projects (equal complexities, equal CBO/LCOM, equal-size import cycles, identical clone "
                "groups, several dead blocks per function), full analysis and two --select subsets; %d runs each with GOMAXPROCS 1/4/16 in turn, compared with the first run including list order" % k,
        "samples": [{"project": t, "flags": e, "runs": k} for t, _, e in projects[:3]],
        "traces_validated_against_impl": hist["runs"],
        "distribution": hist,
    })
    return res.finish("proof")
