"""C05 — reports are reproducible: same tree and options give the same report (DESIGN.md §4 C05)."""
import glob
import json
import os
import random
import shutil
import tempfile

from . import common as C
from .c03 import func_with_complexity

PID = "C05"
IGNORE = ("generated_at", "duration_ms", "GeneratedAt", "Duration", "analysis_time_ms")


def strip(x):
    if isinstance(x, dict):
        return {k: strip(v) for k, v in x.items() if k not in IGNORE}
    if isinstance(x, list):
        return [strip(v) for v in x]
    return x


def first_diffs(a, b, path, out, limit=6):
    if len(out) >= limit:
        return
    if isinstance(a, dict) and isinstance(b, dict):
        for k in sorted(set(a) | set(b)):
            first_diffs(a.get(k), b.get(k), path + [k], out, limit)
    elif isinstance(a, list) and isinstance(b, list) and len(a) == len(b):
        for x, y in zip(a, b):
            first_diffs(x, y, path + ["#"], out, limit)
    elif a != b:
        out.append((".".join(path), a if not isinstance(a, (dict, list)) else "…", b if not isinstance(b, (dict, list)) else "…"))


def tie_project(rng, root):
    """many items whose sort keys tie: equal complexities, equal CBO/LCOM, equal-size cycles, identical clone groups, several dead blocks"""
    os.makedirs(root)
    open(os.path.join(root, "requirements.txt"), "w").close()
    nmod = rng.randint(3, 6)
    for m in range(nmod):
        out = []
        # import cycles of equal size between neighbouring modules
        out.append("import mod%d" % ((m + 1) % nmod))
        if m % 2 == 0:
            out.append("import mod%d" % ((m + 2) % nmod))
        for k in range(rng.randint(2, 5)):
            out.append(func_with_complexity("f%d_%d" % (m, k), rng.choice([3, 3, 3, 6])))
        for k in range(rng.randint(1, 3)):
            out.append("def dead%d_%d(a):\n    for i in range(a):\n        if i:\n            break\n            a += 1\n        else:\n            continue\n            a -= 1\n    return a\n    a = 0\n" % (m, k))
        # dead code whose blocks share a source span (one-line compound statements, several statements on one line): findings that tie on
        # (start line, end line) and are only ordered by the last tie-breaker of the comparator
        for k in range(rng.randint(1, 2)):
            out.append("def deadline%d_%d(items, discount, ctx):\n    total = 0\n    return total\n    if discount: total -= discount\n    for item in items: total += item\n"
                       "    while total: total -= 1\n    with ctx: total = 1\n    total = 2; total += 3\n    try: total = 4\n    except ValueError: total = 5\n" % (m, k))
            out.append("def deadloop%d_%d(items):\n    for item in items:\n        continue\n        if item: item += 1\n        while item: item -= 1\n    raise ValueError(items)\n    if items: items = None\n" % (m, k))
        for k in range(rng.randint(2, 4)):
            out.append("class Dep%d_%d:\n    pass\n" % (m, k))
        for k in range(rng.randint(2, 4)):
            out.append("class K%d_%d(Dep%d_0):\n    a: Dep%d_1 = None\n\n    def get(self):\n        return self.x\n\n    def put(self, v):\n        self.y = v\n" % (m, k, m, m))
        body = "    total = 0\n    for item in items:\n        if item > 3:\n            total += item * 2\n        elif item < 0:\n            total -= 1\n        else:\n            total += 1\n    if flag:\n        print(total)\n    result = [t for t in range(total)]\n    return result\n"
        for k in range(2):
            out.append("def copy%d_%d(items, flag):\n%s" % (m, k, body))
        with open(os.path.join(root, "mod%d.py" % m), "w") as f:
            f.write("\n".join(out) + "\n")
    # a module that imports names and, right after it in the walk order, modules that mention those names WITHOUT importing them (one with a star import
    # only): whatever per-file state an analysis keeps must not make the report depend on which worker / CPU count handled the neighbour
    extra = {
        "shared_names.py": "class Repository:\n    def get(self):\n        return 1\n\nclass Ledger:\n    def put(self, v):\n        self.v = v\n\ndef open_ledger():\n    return Ledger()\n",
        "a_billing.py": "from shared_names import Repository, Ledger, open_ledger\nimport shared_names as sn\n\nclass Invoice:\n    def total(self):\n        self.repo = Repository()\n        return Ledger().put(open_ledger())\n",
        "b_handlers.py": "class Handler:\n    def handle(self, x):\n        self.repo = Repository()\n        self.led = Ledger()\n        return open_ledger()\n\nclass Other(Repository):\n    def m(self):\n        return sn.Ledger()\n",
        "c_star.py": "from shared_names import *\n\nclass StarUser:\n    def run(self):\n        self.r = Repository()\n        return Ledger()\n",
    }
    for fn, src in extra.items():
        with open(os.path.join(root, fn), "w") as f:
            f.write(src)


def _work_func(name, rng):
    """a function with enough control flow that the CFG based analyses spend time on it (distinct name per file: a file that is analysed twice or not at all shows in the report)"""
    a, b = rng.randint(2, 9), rng.randint(2, 9)
    return ("def %s(items, limit):\n    total = 0\n    for index, item in enumerate(items):\n        if item is None:\n            continue\n        if index > limit:\n            break\n"
            "        try:\n            if item %% %d == 0:\n                total += item * %d\n            elif item %% 3 == 0:\n                total -= item\n            else:\n"
            "                while item > %d:\n                    item -= %d\n                    if item == limit:\n                        return total\n                    total += 1\n"
            "        except TypeError:\n            total -= 1\n        finally:\n            limit += 0\n    if total > limit:\n        return total - limit\n    return total\n    total = -1\n"
            % (name, a, b, b, a))


def _work_funcs(name, rng, n):
    return "\n".join(_work_func("%s_%d" % (name, i) if i else name, rng) for i in range(n))


def _work_class(name, base, uses):
    body = "".join("        self.%s = %s()\n" % (u.lower(), u) for u in uses) or "        self.size = 0\n"
    return ("class %s%s:\n    def __init__(self):\n%s        self.items = []\n\n    def add(self, item):\n        if item:\n            self.items.append(item)\n        return len(self.items)\n\n"
            "    def label(self):\n        return '%s'\n" % (name, "(%s)" % base if base else "", body, name))


def walk_order(root, targets):
    """the list of .py files in the order a lexical directory walk yields them (entries of one directory by name, a sub-directory expanded where its name sorts), target after
    target — the order in which the file list reaches the analyses"""
    out = []

    def walk(d):
        for name in sorted(os.listdir(d)):
            p = os.path.join(d, name)
            if os.path.isdir(p):
                walk(p)
            elif name.endswith(".py"):
                out.append(p)
    for t in targets:
        p = os.path.join(root, t)
        if os.path.isdir(p):
            walk(p)
        else:
            out.append(p)
    return out


LAYOUTS = ("module-next-to-package", "directory-name-extends-another", "several-targets", "listed-files", "mixed")


def layout_project(rng, root, layout, nunits, nfunc=1):
    """Project LAYOUTS — the property quantifies over every input project and every command, and nothing in it says that the files reach the analyses in plain string
    order: a module `name.py` next to a package `name/`, a directory whose name extends another one with a character below '/' (`pkg/`, `pkg-tools/`, `pkg.v2/`), several
    path arguments in arbitrary order, explicitly listed files.  Many small files with distinct function / class names and imports between them, so that every analysis
    (per-file loops and the module graph) has work on every file.  Returns the list of targets (relative to the parent of `root`)."""
    os.makedirs(root)
    open(os.path.join(root, "requirements.txt"), "w").close()
    files = {}
    names = ["part%02d" % i for i in range(nunits)]
    rng.shuffle(names)
    tops = ["proj"]
    for i, nm in enumerate(names):
        kind = layout if layout != "mixed" else rng.choice(LAYOUTS[:3])  # "several-targets" / "listed-files": plain packages, the order comes from the arguments
        prev = names[i - 1] if i else None
        imp = "import %s\n" % prev if prev and rng.random() < 0.7 else ""
        if kind == "module-next-to-package":
            # walk order: name/__init__.py, name/alpha.py, name/beta.py, name.py ; string order: name.py first ('.' < '/')
            files["%s/__init__.py" % nm] = "from . import alpha\n" + _work_funcs(nm + "_init", rng, nfunc)
            files["%s/alpha.py" % nm] = imp + _work_funcs(nm + "_alpha", rng, nfunc) + _work_class(nm.capitalize() + "Alpha", None, [])
            files["%s/beta.py" % nm] = "from .alpha import %sAlpha\n" % nm.capitalize() + _work_funcs(nm + "_beta", rng, nfunc) + _work_class(nm.capitalize() + "Beta", nm.capitalize() + "Alpha", [nm.capitalize() + "Alpha"])
            files["%s.py" % nm] = imp + _work_funcs(nm + "_mod", rng, nfunc) + _work_class(nm.capitalize() + "Mod", None, [])
        elif kind == "directory-name-extends-another":
            ext = rng.choice(["-tools", ".v2", "-x", " old", "+ext"])
            files["%s/__init__.py" % nm] = _work_funcs(nm + "_init", rng, nfunc)
            files["%s/core.py" % nm] = imp + _work_funcs(nm + "_core", rng, nfunc) + _work_class(nm.capitalize() + "Core", None, [])
            files["%s%s/helper.py" % (nm, ext)] = "import %s.core\n" % nm + _work_funcs(nm + "_helper", rng, nfunc) + _work_class(nm.capitalize() + "Helper", None, [])
            files["%s%s/zz.py" % (nm, ext)] = _work_funcs(nm + "_zz", rng, nfunc)
        else:
            files["%s/__init__.py" % nm] = _work_funcs(nm + "_init", rng, nfunc)
            files["%s/one.py" % nm] = imp + _work_funcs(nm + "_one", rng, nfunc) + _work_class(nm.capitalize() + "One", None, [])
            files["%s/two.py" % nm] = "from .one import %sOne\n" % nm.capitalize() + _work_funcs(nm + "_two", rng, nfunc) + _work_class(nm.capitalize() + "Two", nm.capitalize() + "One", [])
    for rel, src in files.items():
        fp = os.path.join(root, rel)
        os.makedirs(os.path.dirname(fp), exist_ok=True)
        with open(fp, "w") as f:
            f.write(src)
    if layout in ("several-targets", "mixed"):
        # the top-level directories (and top-level modules) as path arguments, in arbitrary order
        tops = ["proj/" + e for e in sorted(os.listdir(root)) if not e.endswith(".txt")]
        rng.shuffle(tops)
    elif layout == "listed-files":
        # every file named on the command line, in arbitrary order
        tops = ["proj/" + rel for rel in sorted(files)]
        rng.shuffle(tops)
    return tops, files


SHAPES = ("ring+tail-out", "ring+tail-in", "ring+tail-in+out", "ring+chord+tail", "two-rings-bridged", "layered-dag", "ring")


def import_graph_project(rng, root, shape):
    """Import-graph SHAPES for the module-level metrics (depth, chains, cycles, coupling): the tie-rich projects only contain rings with chords, where every entry point is
    equivalent; here a cycle has chains of further imports hanging off one member / leading into one member, two cycles are joined by a chain, or there is no cycle at all —
    a value that is computed by walking the graph from some start module must not depend on WHICH module the (randomised) map iteration starts from."""
    os.makedirs(root)
    open(os.path.join(root, "requirements.txt"), "w").close()
    pool = ["core", "util", "base", "extra", "more", "leaf", "api", "db", "io", "cfg", "log", "net", "ui", "cli", "job", "task", "auth", "repo", "view", "form"]
    rng.shuffle(pool)
    names = iter("%s_%s" % (rng.choice("abcdefghijklmnopqrstuvwxyz"), w) for w in pool)
    edges = []
    mods = []

    def new():
        m = next(names)
        mods.append(m)
        return m

    def ring(n):
        r = [new() for _ in range(n)]
        for i in range(n):
            edges.append((r[i], r[(i + 1) % n]))
        return r

    def chain(start, n, inward=False):
        cur = start
        for _ in range(n):
            nx = new()
            edges.append((nx, cur) if inward else (cur, nx))
            cur = nx
        return cur

    info = {"shape": shape}
    if shape == "layered-dag":
        layers = [[new() for _ in range(rng.randint(1, 3))] for _ in range(rng.randint(3, 5))]
        for a, b in zip(layers, layers[1:]):
            for x in a:
                for y in rng.sample(b, rng.randint(1, len(b))):
                    edges.append((x, y))
    else:
        n = rng.randint(2, 4)
        r = ring(n)
        info["ring"] = n
        if shape != "ring":
            at = rng.choice(r)
            t = rng.randint(2, 4)
            info["tail"] = t
            if shape in ("ring+tail-out", "ring+tail-in+out", "ring+chord+tail"):
                chain(at, t)
            if shape in ("ring+tail-in", "ring+tail-in+out"):
                chain(rng.choice(r), rng.randint(1, 3), inward=True)
            if shape == "ring+chord+tail" and n >= 3:
                edges.append((r[0], r[2]))
            if shape == "two-rings-bridged":
                end = chain(at, rng.randint(1, 2))
                r2 = ring(rng.randint(2, 3))
                edges.append((end, rng.choice(r2)))
                chain(rng.choice(r2), rng.randint(1, 3))
    files = {}
    for m in mods:
        deps = [b for a, b in edges if a == m]
        src = "".join(("import %s\n" % d) if rng.random() < 0.6 else ("from %s import helper_%s\n" % (d, d)) for d in deps)
        src += "\n\ndef helper_%s(x):\n    if x:\n        return x + 1\n    return 0\n\n\nclass %s:\n    def get(self):\n        return helper_%s(1)\n" % (m, m.title().replace("_", ""), m)
        files[m + ".py"] = src
        with open(os.path.join(root, m + ".py"), "w") as f:
            f.write(src)
    info["modules"] = len(mods)
    info["edges"] = ["%s -> %s" % e for e in edges]
    return info, files


def run(tier, seed, replay=None):
    res = C.Result(PID, tier, seed)
    rng = random.Random(seed * 1000003 + 5)
    ps = C.prove(PID)
    C.proof_coverage(res, ps, "cd /verif/lean && lake build PV.Properties.C05 && #print axioms (audit)")
    res.assumptions += [
        "the decision on the real code is the repeated-run oracle: the same command is run k times (GOMAXPROCS 1/4/16 in turn) and the reports, with exactly generated_at / duration fields "
        "removed, must be identical including the order of every list; Go randomises map iteration per range statement, so a map order that reaches the output shows with probability "
        ">= 1/2 per run once two entries tie",
        "the theorems are about the emission model (what makes a pipeline order-independent); the site inventory (124 map ranges, 68 unstable sorts, 4 goroutine starts, clock sources) is "
        "regenerated and pinned, the individual sites are NOT classified one by one",
        "scheduling-dependent outcomes (one analysis disturbing another through shared state) are only SAMPLED: project layouts whose file list is not in string order, ~100 files, the "
        "analyses side by side, k runs under three GOMAXPROCS values; an interference that needs a narrower timing window than these runs offer is not excluded",
    ]
    k = 6 if tier == "quick" else 24
    hist = {"projects": 0, "runs": 0, "selections": 0, "file_list_not_in_string_order": 0, "import_cycle_with_tail": 0}
    nontrivial = set()
    tmp = tempfile.mkdtemp(prefix="pv_c05_")
    try:
        projects = []
        td = os.path.join(C.REPO, "testdata", "python")
        allp = os.path.join(tmp, "all", "proj")
        shutil.copytree(td, allp)
        projects.append(("testdata/python (all)", allp, []))
        for sub in ("simple", "clones", "circular_deps", "complex", "edge_cases"):
            if os.path.isdir(os.path.join(td, sub)):
                p = os.path.join(tmp, sub, "proj")
                shutil.copytree(os.path.join(td, sub), p)
                projects.append(("testdata/python/" + sub, p, []))
        for g in range(3 if tier == "quick" else 12):
            p = os.path.join(tmp, "gen%d" % g, "proj")
            tie_project(rng, p)
            projects.append(("generated tie-rich project %d" % g, p, []))
        # near-duplicate functions with the LSH candidate path FORCED by the configuration (it is otherwise only taken from 500 fragments on): MinHash
        # signatures, buckets and the estimated similarities must be the same in every process
        from . import cloneeng
        for g in range(1 if tier == "quick" else 4):
            p = os.path.join(tmp, "lsh%d" % g, "proj")
            pr = cloneeng.gen_project(rng, nbase=6, nodes=[12, 16, 22])
            for f in pr.sources():
                fp = os.path.join(p, f["Path"])
                os.makedirs(os.path.dirname(fp), exist_ok=True)
                with open(fp, "w") as fh:
                    fh.write(f["Src"])
            cfg = os.path.join(tmp, "lsh%d" % g, "lsh.toml")
            with open(cfg, "w") as fh:
                fh.write("[clones]\nmin_lines = 4\nmin_nodes = 8\nlsh_enabled = \"true\"\nlsh_similarity_threshold = 0.3\nsimilarity_threshold = 0.6\n")
            projects.append(("generated clone project %d, LSH forced" % g, p, ["--select", "clones", "--config", cfg]))
        projects.append(("testdata/python (all), --select complexity,deadcode,cbo", allp, ["--select", "complexity,deadcode,cbo"]))
        projects.append(("generated tie-rich project 0, --select deps,clones", os.path.join(tmp, "gen0", "proj"), ["--select", "deps,clones", "--min-complexity", "1"]))
        # ---- project layouts: the file list reaches the analyses in an order that is not plain string order; every analysis selection that runs more than one analysis
        # side by side over that list (clone detection left out where the number of files would make it dominate the run time, and included on a smaller project)
        nlay = 3 if tier == "quick" else 10
        lay_sel = [["--skip-clones", "--min-complexity", "1"], ["--select", "complexity,deadcode,deps", "--min-complexity", "1"], ["--select", "cbo,lcom,deps"],
                   ["--skip-clones", "--skip-lcom"], ["--select", "complexity,deps"]]
        lays = list(LAYOUTS)
        rng.shuffle(lays)
        for g in range(nlay):
            layout = lays[g % len(lays)]
            p = os.path.join(tmp, "lay%d" % g, "proj")
            targets, files = layout_project(rng, p, layout, rng.randint(24, 34), 1 if tier == "quick" else rng.randint(1, 3))
            order = walk_order(os.path.dirname(p), targets)
            unsorted = order != sorted(order)
            hist["layout:" + layout] = hist.get("layout:" + layout, 0) + 1
            hist["file_list_not_in_string_order"] += int(unsorted)
            sel = lay_sel[0] if g == 0 else rng.choice(lay_sel)
            hist["selections"] += 1
            projects.append(("generated layout project %d (%s, %d files, file list %s string order)" % (g, layout, len(files), "NOT in" if unsorted else "in"), p, sel, targets,
                             {"layout": layout, "targets": targets, "files": files}))
        # small projects of every layout with ALL analyses (clone detection included) side by side
        for g in range(2 if tier == "quick" else 5):
            layout = lays[(nlay + g) % len(lays)]
            p = os.path.join(tmp, "laysmall%d" % g, "proj")
            targets, files = layout_project(rng, p, layout, rng.randint(3, 5))
            order = walk_order(os.path.dirname(p), targets)
            unsorted = order != sorted(order)
            hist["file_list_not_in_string_order"] += int(unsorted)
            hist["layout:" + layout] = hist.get("layout:" + layout, 0) + 1
            hist["selections"] += 1
            projects.append(("generated small layout project %d (%s, %d files, file list %s string order), all analyses" % (g, layout, len(files), "NOT in" if unsorted else "in"), p,
                             ["--min-complexity", "1"] if g % 2 == 0 else [], targets, {"layout": layout, "targets": targets, "files": files}))
        # ---- import-graph shapes, module-level analysis alone and next to others
        shapes = list(SHAPES)
        rng.shuffle(shapes)
        nshape = 14 if tier == "quick" else 42
        for g in range(nshape):
            shape = shapes[g % len(shapes)]
            p = os.path.join(tmp, "shape%d" % g, "proj")
            info, files = import_graph_project(rng, p, shape)
            hist["shape:" + shape] = hist.get("shape:" + shape, 0) + 1
            hist["import_cycle_with_tail"] += int(shape.startswith("ring+") or shape == "two-rings-bridged")
            sel = ["--select", "deps"] if g % 3 != 2 else rng.choice([["--select", "deps,cbo"], ["--skip-clones"], []])
            hist["selections"] += 1
            projects.append(("generated import-graph project %d (%s, %d modules)" % (g, shape, info["modules"]), p, sel, ["proj"], dict(info, files=files)))
        for ent in projects:
            title, proj, extra = ent[:3]
            targets = ent[3] if len(ent) > 3 else ["proj"]
            rinfo = ent[4] if len(ent) > 4 else {}
            hist["projects"] += 1
            root = os.path.dirname(proj)
            base = None
            seen_paths = set()
            for r in range(k):
                env = dict(os.environ, GOMAXPROCS=str([1, 4, 16][r % 3]))
                rep = os.path.join(root, ".pyscn", "reports")
                shutil.rmtree(rep, ignore_errors=True)
                rc, out, err = C.pyscn(["analyze", "--json", "--no-open"] + extra + targets, cwd=root, env=env)
                hist["runs"] += 1
                got = glob.glob(os.path.join(rep, "*.json"))
                if not got:
                    res.violation("analyze produced no JSON report on %s: %s" % (title, err[-300:]), dict(rinfo, project=title, flags=extra))
                    break
                d = strip(json.load(open(got[0])))
                if base is None:
                    base = d
                    nontrivial.add(title)
                    continue
                diffs = []
                first_diffs(base, d, [], diffs)
                for path, a, b in diffs:
                    if path in seen_paths:
                        continue
                    seen_paths.add(path)
                    sig = {"kind": "differs", "path": path}
                    kf = C.classify(PID, sig)
                    what = "C05: run %d (GOMAXPROCS=%s) of `analyze --json %s` on %s differs from run 1 at %s: %r vs %r" % (r + 1, env["GOMAXPROCS"], " ".join(extra), title, path, a, b)
                    if kf:
                        res.known_finding(kf, "(%s)" % what[:260])
                    else:
                        res.violation(what, dict(rinfo, signature=sig, project=title, flags=extra, run=r + 1, gomaxprocs=env["GOMAXPROCS"],
                                                   command="pyscn analyze --json --no-open %s" % " ".join(extra + (targets if len(targets) <= 8 else targets[:8] + ["…"]))))
    finally:
        shutil.rmtree(tmp, ignore_errors=True)
    if not ps.ok and not any(fi for _, _, fi in res.violations):
        res.violation("proof obligation or tie broken: " + "; ".join(ps.broken)[:1500], {"broken": ps.broken}, found_input=False)
    res.coverage.update({
        "evaluations": hist["runs"],
        "distinct_nontrivial": len(nontrivial),
        "rule": "the repository's own testdata (all of it and five sub-projects) + generated tie-rich projects (equal complexities, equal CBO/LCOM, equal-size import cycles, identical clone "
                "groups, several dead blocks per function), full analysis and two --select subsets; generated project LAYOUTS whose file list is not in string order (module next to a "
                "package of the same name, directory names extending one another with a character below '/', several path arguments / explicitly listed files in arbitrary order; ~100 files, "
                "analyses side by side) and import-graph SHAPES (cycle with a chain hanging off / leading into one member, two cycles joined by a chain, chord, layered DAG, bare ring) "
                "with `--select deps` and wider selections; %d runs each with GOMAXPROCS 1/4/16 in turn, compared with the first run including list order" % k,
        "samples": [{"project": e[0], "flags": e[2], "runs": k} for e in projects[:3] + projects[-19:-8]],
        "traces_validated_against_impl": hist["runs"],
        "distribution": hist,
    })
    return res.finish("proof")
