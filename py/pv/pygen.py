"""Structured generator of Python programs (statement skeletons) with three renderers:
plain source for pyscn (with per-id line spans), instrumented source for CPython, token form for the Lean driver.

Skeleton nodes (JSON-able lists):
  ["s", i]                      simple statement (assignment / call / pass / assert / del / import …)
  ["ret", i] ["brk", i] ["cont", i] ["raise", i]
  ["if", i, then, orelse]       orelse: None | ["elif", <if node>] | ["else", body]
  ["for", i, body, els] ["while", i, body, els]        els: None | body
  ["try", i, body, handlers, els, fin]                  handlers: [[hid, body], …]; els/fin: None | body
  ["with", i, body]
  ["match", i, cases]                                   cases: [[cid, body], …]
  ["def", i, name, body] ["class", i, name, body]
  ["comp", i, kind, nfor, hasif]                        statement-level comprehension: x = [e for … if …]
Every node has a unique integer id `i` (handlers and cases have their own ids).
"""
import random

TERMINATORS = ("ret", "brk", "cont", "raise")


class Gen:
    def __init__(self, rng, max_depth=3, max_len=4, allow=None, weights=None, max_nodes=120):
        self.rng = rng
        self.max_depth = max_depth
        self.max_len = max_len
        self.next_id = 1
        self.allow = set(allow or ["s", "ret", "brk", "cont", "raise", "if", "for", "while", "try", "with", "match", "def", "class", "comp"])
        self.weights = weights or {}
        self.nname = 0
        self.max_nodes = max_nodes
        self.no_finally = False

    def nid(self):
        i = self.next_id
        self.next_id += 1
        return i

    def name(self, prefix):
        self.nname += 1
        return "%s%d" % (prefix, self.nname)

    def body(self, depth, in_loop, in_func, min_len=1):
        n = self.rng.randint(min_len, self.max_len) if self.next_id < self.max_nodes else 1
        return [self.stmt(depth, in_loop, in_func) for _ in range(n)]

    def stmt(self, depth, in_loop, in_func):
        r = self.rng
        kinds = ["s", "s", "s"]
        if "ret" in self.allow and in_func:
            kinds += ["ret"]
        if "raise" in self.allow:
            kinds += ["raise"]
        if in_loop:
            if "brk" in self.allow:
                kinds += ["brk"]
            if "cont" in self.allow:
                kinds += ["cont"]
        if "comp" in self.allow:
            kinds += ["comp"]
        if depth < self.max_depth and self.next_id < self.max_nodes:
            for k, w in (("if", 4), ("for", 2), ("while", 2), ("try", 3), ("with", 1), ("match", 1), ("def", 1), ("class", 1)):
                if k in self.allow:
                    kinds += [k] * self.weights.get(k, w)
        k = r.choice(kinds)
        i = self.nid()
        d = depth + 1
        if k in ("s",) + TERMINATORS:
            return [k, i]
        if k == "comp":
            return ["comp", i, r.choice(["list", "set", "dict", "gen"]), r.randint(1, 2), r.random() < 0.5]
        if k == "if":
            return self.gen_if(i, d, in_loop, in_func, r.randint(0, 3))
        if k in ("for", "while"):
            els = self.body(d, in_loop, in_func) if r.random() < 0.3 else None
            return [k, i, self.body(d, True, in_func), els]
        if k == "try":
            nh = r.randint(1, 2) if self.no_finally else r.randint(0, 2)
            fin = None if self.no_finally else (self.body(d, in_loop, in_func) if (nh == 0 or r.random() < 0.4) else None)
            handlers = [[self.nid(), self.body(d, in_loop, in_func)] for _ in range(nh)]
            els = self.body(d, in_loop, in_func) if (nh > 0 and r.random() < 0.3) else None
            return ["try", i, self.body(d, in_loop, in_func), handlers, els, fin]
        if k == "with":
            return ["with", i, self.body(d, in_loop, in_func)]
        if k == "match":
            return ["match", i, [[self.nid(), self.body(d, in_loop, in_func)] for _ in range(r.randint(1, 3))]]
        if k == "def":
            return ["def", i, self.name("inner"), self.body(d, False, True)]
        if k == "class":
            return ["class", i, self.name("K"), self.body(d, False, False)]
        raise AssertionError(k)

    def gen_if(self, i, d, in_loop, in_func, nelif):
        r = self.rng
        then = self.body(d, in_loop, in_func)
        if nelif > 0:
            return ["if", i, then, ["elif", self.gen_if(self.nid(), d, in_loop, in_func, nelif - 1)]]
        if r.random() < 0.5:
            return ["if", i, then, ["else", self.body(d, in_loop, in_func)]]
        return ["if", i, then, None]

    def function(self, name=None):
        return ["def", self.nid(), name or self.name("f"), self.body(0, False, True)]


def handler_scheme(n, hi, last, rng):
    """how the hi-th except clause of try `n` is spelled in the PLAIN source. Whatever the spelling, every clause stays reachable in Python: after a clause
    `except Exception:` only classes that do not derive from Exception follow; BaseException and the bare clause only come last."""
    scheme = n[1] % 4
    if scheme == 1 and len(n[3]) >= 2:
        if hi == 0:
            return "except Exception:"
        if last:
            return rng.choice(["except KeyboardInterrupt:", "except SystemExit as exc:", "except BaseException:", "except:", "except GeneratorExit:"])
        return ["except KeyboardInterrupt:", "except SystemExit:", "except GeneratorExit:"][(hi - 1) % 3]
    if scheme == 2:
        return ["except E%d as exc:" % hi, "except (E%d, KeyError):" % hi, "except E%d:" % hi][hi % 3] if not last else rng.choice(["except Exception as exc:", "except E%d:" % hi, "except:"])
    return "except Exception:" if (last and rng.random() < 0.5) else "except E%d:" % hi


def star_try(n):
    """render this try with `except*` clauses (Python 3.11)? Decided from the skeleton alone so that every renderer agrees: every fifth try whose handler
    bodies hold no return/break/continue (a syntax error inside except*)."""
    if n[1] % 5 != 0 or not n[3]:
        return False
    for hid, hb in n[3]:
        for st in hb:
            for x in walk(st):
                if x[0] in ("ret", "brk", "cont"):
                    return False
    return True


def walk(node):
    """yield every node (statements, handlers and cases as pseudo-nodes ["handler", id, body] / ["case", id, body])"""
    yield node
    k = node[0]
    subs = []
    if k == "if":
        subs.append(node[2])
        if node[3]:
            if node[3][0] == "elif":
                subs.append([node[3][1]])
            else:
                subs.append(node[3][1])
    elif k in ("for", "while"):
        subs.append(node[2])
        if node[3]:
            subs.append(node[3])
    elif k == "try":
        subs.append(node[2])
        for h in node[3]:
            yield ["handler", h[0], h[1]]
            subs.append(h[1])
        if node[4]:
            subs.append(node[4])
        if node[5]:
            subs.append(node[5])
    elif k == "with":
        subs.append(node[2])
    elif k == "match":
        for c in node[2]:
            yield ["case", c[0], c[1]]
            subs.append(c[1])
    elif k in ("def", "class"):
        subs.append(node[3])
    for b in subs:
        for s in b:
            yield from walk(s)


# ---------------------------------------------------------------------------------------------------
# plain rendering (what pyscn analyses)

class Render:
    """Cosmetic choices (identifier names, literals, comments, blank lines) come from `rng` and must not matter."""

    def __init__(self, rng=None, cosmetics=True):
        self.rng = rng or random.Random(0)
        self.cos = cosmetics
        self.lines = []
        self.loc = {}   # id -> (start_line, end_line), 1-based

    def emit(self, indent, text):
        if self.cos and self.rng.random() < 0.08:
            self.lines.append("")
        if self.cos and self.rng.random() < 0.08:
            self.lines.append("    " * indent + "# note %d" % self.rng.randrange(1000))
        self.lines.append("    " * indent + text)
        return len(self.lines)

    def handler_head(self, n, hi, last):
        return handler_scheme(n, hi, last, self.rng)

    def var(self):
        return self.rng.choice(["x", "y", "total", "acc", "item", "res"]) if self.cos else "x"

    def lit(self):
        return str(self.rng.randrange(100)) if self.cos else "1"

    def cond(self):
        return "%s %s %s" % (self.var(), self.rng.choice(["<", ">", "==", "!="]) if self.cos else "<", self.lit())

    def body(self, stmts, indent):
        for s in stmts:
            self.stmt(s, indent)

    def stmt(self, n, indent):
        k, i = n[0], n[1]
        if k == "s":
            form = self.rng.randrange(5) if self.cos else 0
            text = ["%s = %s" % (self.var(), self.lit()), "print(%s)" % self.var(), "pass", "%s += %s" % (self.var(), self.lit()),
                    "assert %s" % self.cond()][form]
            ln = self.emit(indent, text)
            self.loc[i] = (ln, ln)
        elif k == "ret":
            # the returned expression is sometimes a comprehension (its implicit loop gets blocks of its own; the return must still end the block)
            comp = {0: "[v0 for v0 in range(3)]", 1: "(v0 for v0 in range(2) if v0)", 2: "{v0: v0 for v0 in range(2)}", 3: "([v0 for v0 in range(2) if v0])"}.get(i % 9)
            if comp is not None:
                ln = self.emit(indent, "return %s" % comp)
            else:
                ln = self.emit(indent, "return %s" % self.var() if (self.cos and self.rng.random() < 0.7) else "return")
            self.loc[i] = (ln, ln)
        elif k == "brk":
            ln = self.emit(indent, "break")
            self.loc[i] = (ln, ln)
        elif k == "cont":
            ln = self.emit(indent, "continue")
            self.loc[i] = (ln, ln)
        elif k == "raise":
            ln = self.emit(indent, "raise ValueError(%s)" % self.lit())
            self.loc[i] = (ln, ln)
        elif k == "comp":
            fors = " ".join("for v%d in range(%s)" % (j, self.lit()) for j in range(n[3]))
            flt = " if v0 %% 2" if n[4] else ""
            flt = " if v0 % 2" if n[4] else ""
            o, c = {"list": ("[", "]"), "set": ("{", "}"), "gen": ("(", ")"), "dict": ("{", "}")}[n[2]]
            elt = "v0: v0" if n[2] == "dict" else "v0"
            ln = self.emit(indent, "%s = %s%s %s%s%s" % (self.var(), o, elt, fors, flt, c))
            self.loc[i] = (ln, ln)
        elif k == "if":
            self.render_if(n, indent, "if")
        elif k in ("for", "while"):
            head = "for %s in range(%s):" % (self.var(), self.lit()) if k == "for" else "while %s:" % self.cond()
            start = self.emit(indent, head)
            self.body(n[2], indent + 1)
            if n[3] is not None:
                self.emit(indent, "else:")
                self.body(n[3], indent + 1)
            self.loc[i] = (start, len(self.lines))
        elif k == "try":
            start = self.emit(indent, "try:")
            self.body(n[2], indent + 1)
            for hi, (hid, hb) in enumerate(n[3]):
                last = hi == len(n[3]) - 1
                hstart = self.emit(indent, ("except* E%d:" % hi) if star_try(n) else self.handler_head(n, hi, last))
                self.body(hb, indent + 1)
                self.loc[hid] = (hstart, len(self.lines))
            if n[4] is not None:
                self.emit(indent, "else:")
                self.body(n[4], indent + 1)
            if n[5] is not None:
                self.emit(indent, "finally:")
                self.body(n[5], indent + 1)
            self.loc[i] = (start, len(self.lines))
        elif k == "with":
            start = self.emit(indent, "with open(%s) as fh:" % self.var())
            self.body(n[2], indent + 1)
            self.loc[i] = (start, len(self.lines))
        elif k == "match":
            start = self.emit(indent, "match %s:" % self.var())
            for ci, (cid, cb) in enumerate(n[2]):
                cstart = self.emit(indent + 1, "case %d:" % ci)
                self.body(cb, indent + 2)
                self.loc[cid] = (cstart, len(self.lines))
            self.loc[i] = (start, len(self.lines))
        elif k == "def":
            start = self.emit(indent, "def %s(%s):" % (n[2], "self, x" if n[2].startswith("m_") else "x"))
            self.body(n[3], indent + 1)
            self.loc[i] = (start, len(self.lines))
        elif k == "class":
            start = self.emit(indent, "class %s:" % n[2])
            self.body(n[3], indent + 1)
            self.loc[i] = (start, len(self.lines))
        else:
            raise AssertionError(k)

    def render_if(self, n, indent, kw):
        i = n[1]
        start = self.emit(indent, "%s %s:" % (kw, self.cond()))
        self.body(n[2], indent + 1)
        o = n[3]
        if o is not None:
            if getattr(self, "cos", False) and self.rng.random() < 0.25:
                # a comment line at CLAUSE indentation between two clauses: a child of the if statement in the concrete syntax tree
                self.lines.append("    " * indent + "# next clause %d" % self.rng.randrange(1000))
            if o[0] == "elif":
                self.render_if(o[1], indent, "elif")
            else:
                self.emit(indent, "else:")
                self.body(o[1], indent + 1)
        self.loc[i] = (start, len(self.lines))

    def source(self):
        return "\n".join(self.lines) + "\n"


def render_module(defs, rng=None, cosmetics=True, prelude=True):
    r = Render(rng, cosmetics)
    if prelude:
        for j in range(3):
            r.lines.append("class E%d(Exception): pass" % j)
        r.lines.append("")
    for d in defs:
        r.stmt(d, 0)
        r.lines.append("")
    return r.source(), r.loc


# ---------------------------------------------------------------------------------------------------
# token form for the Lean driver:  prefix encoding, lists as "[ n item… ]"

def tokens(node, out):
    k = node[0]

    def lst(b):
        out.append("[")
        out.append(str(len(b)))
        for s in b:
            tokens(s, out)

    if k in ("s",) + TERMINATORS:
        out += [k, str(node[1])]
    elif k == "comp":
        out += ["comp", str(node[1]), str(node[3]), "1" if node[4] else "0"]
    elif k == "if":
        out += ["if", str(node[1])]
        lst(node[2])
        o = node[3]
        if o is None:
            out.append("none")
        elif o[0] == "elif":
            out.append("elif")
            tokens(o[1], out)
        else:
            out.append("else")
            lst(o[1])
    elif k in ("for", "while"):
        out += [k, str(node[1])]
        lst(node[2])
        if node[3] is None:
            out.append("none")
        else:
            out.append("else")
            lst(node[3])
    elif k == "try":
        out += ["try", str(node[1])]
        lst(node[2])
        out.append(str(len(node[3])))
        for hid, hb in node[3]:
            out.append(str(hid))
            lst(hb)
        for part in (node[4], node[5]):
            if part is None:
                out.append("none")
            else:
                out.append("some")
                lst(part)
    elif k == "with":
        out += ["with", str(node[1])]
        lst(node[2])
    elif k == "match":
        out += ["match", str(node[1]), str(len(node[2]))]
        for cid, cb in node[2]:
            out.append(str(cid))
            lst(cb)
    elif k in ("def", "class"):
        out += [k, str(node[1])]
        lst(node[3])
    else:
        raise AssertionError(k)
    return out


# ---------------------------------------------------------------------------------------------------
# instrumented rendering (what CPython executes): every statement records its id, every choice comes from a script

PRELUDE = '''
class E0(Exception): pass
class E1(Exception): pass
class E2(Exception): pass
_EXC = [E0, E1, E2, ValueError]
class _Rt:
    def __init__(self): self.script = []; self.pos = 0; self.seen = set(); self.steps = 0
    def pick(self, n):
        self.steps += 1
        if self.steps > 400: raise SystemExit
        if self.pos < len(self.script):
            v = self.script[self.pos] % n; self.pos += 1; return v
        return 0
_rt = _Rt()
def _maybe_raise():
    k = _rt.pick(12)
    if k >= 8: raise _EXC[k - 8]()
def _m(i): _rt.seen.add(i)
def _s(i): _rt.seen.add(i); _maybe_raise(); return None
def _c(i): _rt.seen.add(i); _maybe_raise(); return _rt.pick(2) == 1
def _x(i): _rt.seen.add(i); return _EXC[_rt.pick(4)]()
def _it(i):
    _rt.seen.add(i); _maybe_raise()
    n = _rt.pick(3)
    def gen():
        for k in range(n):
            yield k
            _rt.seen.add(i); _maybe_raise()
    return gen()
class _cm:
    def __init__(self, i): _rt.seen.add(i); _maybe_raise()
    def __enter__(self): return self
    def __exit__(self, t, v, tb):
        k = _rt.pick(6)
        if k == 5: raise _EXC[_rt.pick(4)]()
        return k == 4 and t is not None
def _v(i): _rt.seen.add(i); _maybe_raise(); return _rt.pick(4)
def _d(i):
    def deco(f): _rt.seen.add(i); _maybe_raise(); return f
    return deco
'''


class Instr:
    def __init__(self):
        self.lines = []

    def emit(self, indent, text):
        self.lines.append("    " * indent + text)

    def body(self, stmts, indent):
        if not stmts:
            self.emit(indent, "pass")
        for s in stmts:
            self.stmt(s, indent)

    def stmt(self, n, indent):
        k, i = n[0], n[1]
        if k in ("s", "comp"):
            self.emit(indent, "_s(%d)" % i)
        elif k == "ret":
            self.emit(indent, "return _s(%d)" % i)
        elif k == "brk":
            self.emit(indent, "_m(%d); break" % i)
        elif k == "cont":
            self.emit(indent, "_m(%d); continue" % i)
        elif k == "raise":
            self.emit(indent, "raise _x(%d)" % i)
        elif k == "if":
            self.render_if(n, indent, "if")
        elif k in ("for", "while"):
            self.emit(indent, "for _k%d in _it(%d):" % (i, i) if k == "for" else "while _c(%d):" % i)
            self.body(n[2], indent + 1)
            if n[3] is not None:
                self.emit(indent, "else:")
                self.body(n[3], indent + 1)
        elif k == "try":
            self.emit(indent, "try:")
            self.body(n[2], indent + 1)
            for hi, (hid, hb) in enumerate(n[3]):
                self.emit(indent, ("except* E%d:" if star_try(n) else "except E%d:") % hi)
                self.emit(indent + 1, "_m(%d)" % hid)
                self.body(hb, indent + 1)
            if n[4] is not None:
                self.emit(indent, "else:")
                self.body(n[4], indent + 1)
            if n[5] is not None:
                self.emit(indent, "finally:")
                self.body(n[5], indent + 1)
        elif k == "with":
            self.emit(indent, "with _cm(%d):" % i)
            self.body(n[2], indent + 1)
        elif k == "match":
            self.emit(indent, "match _v(%d):" % i)
            for ci, (cid, cb) in enumerate(n[2]):
                self.emit(indent + 1, "case %d:" % ci)
                self.emit(indent + 2, "_m(%d)" % cid)
                self.body(cb, indent + 2)
        elif k == "def":
            self.emit(indent, "@_d(%d)" % i)
            self.emit(indent, "def %s(*a):" % n[2])
            self.body(n[3], indent + 1)
        elif k == "class":
            self.emit(indent, "@_d(%d)" % i)
            self.emit(indent, "class %s:" % n[2])
            self.body(n[3], indent + 1)
        else:
            raise AssertionError(k)

    def render_if(self, n, indent, kw):
        self.emit(indent, "%s _c(%d):" % (kw, n[1]))
        self.body(n[2], indent + 1)
        o = n[3]
        if o is not None:
            if getattr(self, "cos", False) and self.rng.random() < 0.25:
                # a comment line at CLAUSE indentation between two clauses: a child of the if statement in the concrete syntax tree
                self.lines.append("    " * indent + "# next clause %d" % self.rng.randrange(1000))
            if o[0] == "elif":
                self.render_if(o[1], indent, "elif")
            else:
                self.emit(indent, "else:")
                self.body(o[1], indent + 1)


def render_instrumented(fdef):
    """source of ONE top-level function definition, without its own @_d decorator"""
    r = Instr()
    r.emit(0, "def %s(*a):" % fdef[2])
    r.body(fdef[3], 1)
    return "\n".join(r.lines) + "\n"


RUNNER = PRELUDE + '''
import json, random, sys
def _run_all(cases):
    out = []
    for c in cases:
        ns = dict(globals())
        try:
            exec(compile(c["src"], "<case>", "exec"), ns)
        except SyntaxError as e:
            out.append({"syntax_error": str(e)}); continue
        rng = random.Random(c["seed"])
        seen_all = set(); runs = []
        for r in range(c["nscripts"]):
            _rt.script = [rng.randrange(0, 24) for _ in range(rng.choice([4, 10, 30, 80]))]
            if r == 0: _rt.script = []
            _rt.pos = 0; _rt.seen = set(); _rt.steps = 0
            try:
                ns[c["entry"]](0)
            except SystemExit:
                pass
            except BaseException:
                pass
            seen_all |= _rt.seen
            if c.get("keep_runs") and len(runs) < 50:
                runs.append({"script": list(_rt.script), "seen": sorted(_rt.seen)})
        out.append({"seen": sorted(seen_all), "runs": runs})
    return out
if __name__ == "__main__":
    cases = json.load(sys.stdin)
    json.dump(_run_all(cases), sys.stdout)
'''
