package main

// Fact tables: a regenerated, purely syntactic tie for functions that mix decision logic with I/O
// (outside the translator's subset).  For every listed function we dump, in source order,
//   * the condition of every `if`, the tag/cases of every `switch`, the condition of every `for`,
//   * every `return` expression list,
//   * every assignment / inc-dec whose target is one of the listed "tracked" names,
// as normalised source text.  The Lean side states the expected table as a theorem proved by
// `decide`; a changed guard, operator, constant or assignment breaks that theorem.

import (
	"go/types"
	"bytes"
	"fmt"
	"go/ast"
	"go/parser"
	"go/printer"
	"go/token"
	"os"
	"path/filepath"
	"strings"
)

type FactUnit struct {
	Name    string // Lean module PV.Generated.<Name>
	File    string // relative to the repo root
	Funcs   []string
	Tracked []string // assignment targets worth recording (prefix match on the printed LHS)
	Loops   bool     // also record loop headers (init/post/range) and break/continue
	Lits    bool     // descend into function literals (goroutine bodies, deferred closures)
}

var factUnits = []FactUnit{
	{
		Name:    "GateFacts",
		File:    "cmd/pyscn/check.go",
		Funcs:   []string{"NewCheckCommand", "runCheck", "determineEnabledAnalyses", "containsAnalysis", "checkComplexity", "checkDeadCode", "checkCircularDependencies"},
		Tracked: []string{"issueCount", "hasErrors", "maxComplexity", "minSeverity", "skipComplexity", "skipDeadCode", "skipClones", "skipDeps", "skipMockdata"},
	},
	{
		Name:    "SummaryFacts",
		File:    "app/analyze_usecase.go",
		Funcs:   []string{"calculateSummary"},
		Tracked: []string{"summary.*", "totalLines", "groupCount", "linesInThousands", "groupDensity"},
	},
	{
		Name:    "LoopCx",
		File:    "service/complexity_service.go",
		Funcs:   []string{"Analyze"},
		Tracked: []string{"errors", "warnings", "allFunctions", "allFiles", "allClasses", "allFragments", "filesProcessed", "filesAnalyzed", "functions, fileWarnings, fileErrors", "fileResult, fileWarnings, fileErrors", "classes, fileWarnings, fileErrors"},
		Loops:   true,
	},
	{
		Name:    "LoopDead",
		File:    "service/dead_code_service.go",
		Funcs:   []string{"Analyze"},
		Tracked: []string{"errors", "warnings", "allFunctions", "allFiles", "allClasses", "allFragments", "filesProcessed", "filesAnalyzed", "functions, fileWarnings, fileErrors", "fileResult, fileWarnings, fileErrors", "classes, fileWarnings, fileErrors"},
		Loops:   true,
	},
	{
		Name:    "LoopCBO",
		File:    "service/cbo_service.go",
		Funcs:   []string{"Analyze"},
		Tracked: []string{"errors", "warnings", "allFunctions", "allFiles", "allClasses", "allFragments", "filesProcessed", "filesAnalyzed", "functions, fileWarnings, fileErrors", "fileResult, fileWarnings, fileErrors", "classes, fileWarnings, fileErrors"},
		Loops:   true,
	},
	{
		Name:    "LoopLCOM",
		File:    "service/lcom_service.go",
		Funcs:   []string{"Analyze"},
		Tracked: []string{"errors", "warnings", "allFunctions", "allFiles", "allClasses", "allFragments", "filesProcessed", "filesAnalyzed", "functions, fileWarnings, fileErrors", "fileResult, fileWarnings, fileErrors", "classes, fileWarnings, fileErrors"},
		Loops:   true,
	},
	{
		Name:    "LoopClone",
		File:    "service/clone_service.go",
		Funcs:   []string{"DetectClonesInFiles"},
		Tracked: []string{"errors", "warnings", "allFunctions", "allFiles", "allClasses", "allFragments", "filesProcessed", "filesAnalyzed", "functions, fileWarnings, fileErrors", "fileResult, fileWarnings, fileErrors", "classes, fileWarnings, fileErrors"},
		Loops:   true,
	},
	{
		Name:    "LoopMain",
		File:    "cmd/pyscn/main.go",
		Funcs:   []string{"main"},
		Tracked: []string{"errors", "warnings", "allFunctions", "allFiles", "allClasses", "allFragments", "filesProcessed", "filesAnalyzed", "functions, fileWarnings, fileErrors", "fileResult, fileWarnings, fileErrors", "classes, fileWarnings, fileErrors"},
		Loops:   true,
	},
	{
		Name:    "TaskFacts",
		File:    "app/analyze_usecase.go",
		Funcs:   []string{"Execute"},
		Tracked: []string{"tasks", "t.Result", "t.Error", "result, err", "response", "errors", "files, err", "useCaseCfg.ConfigFile"},
		Loops:   true,
		Lits:    true,
	},
	{
		Name:    "CxSummaryFacts",
		File:    "service/complexity_service.go",
		Funcs:   []string{"filterFunctions", "generateSummary", "calculateRiskLevel"},
		Tracked: []string{"totalComplexity", "maxComplexity", "minComplexity", "lowCount", "mediumCount", "highCount", "complexityDist[distKey]", "avgComplexity", "filtered", "complexity", "distKey"},
		Loops:   true,
	},
	{
		Name:    "DeadSummaryFacts",
		File:    "service/dead_code_service.go",
		Funcs:   []string{"filterFiles", "filterFindingsBySeverity", "generateSummary"},
		Tracked: []string{"summary.*", "filtered", "filteredFunctions", "filteredFile.*", "filteredFile"},
		Loops:   true,
	},
	{
		Name:    "CBOSummaryFacts",
		File:    "service/cbo_service.go",
		Funcs:   []string{"filterClasses", "generateSummary"},
		Tracked: []string{"summary.*", "filtered", "totalCBO", "maxCBO", "minCBO", "lowCount", "mediumCount", "highCount", "cboDistribution[cboRange]", "cboDist[key]"},
		Loops:   true,
	},
	{
		Name:    "LCOMSummaryFacts",
		File:    "service/lcom_service.go",
		Funcs:   []string{"filterClasses", "generateSummary"},
		Tracked: []string{"summary.*", "filtered", "totalLCOM", "maxLCOM", "minLCOM", "lowCount", "mediumCount", "highCount"},
		Loops:   true,
	},
	{
		Name:    "CloneStatsFacts",
		File:    "service/clone_service.go",
		Funcs:   []string{"createStatistics"},
		Tracked: []string{"stats.*", "totalSimilarity", "typeStr"},
		Loops:   true,
	},
	{
		Name:    "ConfigFacts",
		File:    "internal/config/toml_loader.go",
		Funcs:   []string{"ResolveConfigPath", "FindConfigFileFromPath"},
		Tracked: []string{"searchPath", "current", "parent", "pyscnPath", "pyprojectPath", "dir"},
		Loops:   true,
	},
	{
		Name: "CloneLoopFacts",
		File: "internal/analyzer/clone_detector.go",
		Funcs: []string{"detectClonePairsWithContext", "detectClonePairsStandardWithContext", "detectClonePairsWithBatchingContext",
			"tryCreateClonePair", "addPairWithLimit", "limitAndSortClonePairs", "compareFragments", "compareWithAPTED", "compareFragmentsWithClassifier",
			"DetectClonesWithLSH", "extractFragmentsRecursive", "isFragmentCandidate"},
		Tracked: []string{"minSimilarity", "topPairs", "cd.clonePairs", "needsBatching", "estimatedPairs", "batchEnd", "batchSize", "maxPairs", "minhashThreshold",
			"a", "b", "f1", "f2", "sig1", "sig2", "fragment1", "fragment2", "key", "pairs", "pairs[len(pairs)-1]", "n", "cands", "est", "pair", "seenPairs[key]", "i", "j", "candidateTypes", "*fragments", "fragment", "cloneType", "similarity", "distance"},
		Loops: true,
	},
	{
		Name:    "LSHFacts",
		File:    "internal/analyzer/lsh_index.go",
		Funcs:   []string{"NewLSHIndex", "AddFragment", "FindCandidates", "addToBuckets", "computeBandKeys"},
		Tracked: []string{"bands", "rows", "r", "b", "total", "maxBands", "start", "end", "part", "key", "ids[id]", "idx.buckets[k]", "exists", "out", "keys"},
		Loops:   true,
	},
	{
		Name:    "MinHashFacts",
		File:    "internal/analyzer/minhash.go",
		Funcs:   []string{"NewMinHasher", "generateHashFunctions", "ComputeSignature", "EstimateJaccardSimilarity"},
		Tracked: []string{"numHashes", "rng", "ai", "bi", "a[i], b[i]", "m.hashFunctions[i]", "set[f]", "base", "sig[i]", "minv", "v", "n", "match"},
		Loops:   true,
	},
	{
		Name:    "GroupReportFacts",
		File:    "service/clone_service.go",
		Funcs:   []string{"DetectClonesInFiles", "filterDetectedPairs"},
		Tracked: []string{"clonePairs", "cloneGroups", "clonePairs, _", "clonePairs, cloneGroups", "filtered", "domainClonePairs", "domainCloneGroups"},
		Loops:   true,
	},
	{
		Name:    "GroupDetectorFacts",
		File:    "internal/analyzer/clone_detector.go",
		Funcs:   []string{"GroupClonePairs", "configuredGroupingStrategy", "groupClonesWithStrategy"},
		Tracked: []string{"thr", "k", "cd.cloneGroups"},
		Loops:   true,
	},
	{
		Name:    "CloneServiceFacts",
		File:    "service/clone_service.go",
		Funcs:   []string{"filterClonePairs", "createDetectorConfig", "convertCloneType"},
		Tracked: []string{"typeEnabled", "filtered", "groupMode", "groupThreshold", "kVal"},
		Loops:   true,
	},
}

func nodeText(fset *token.FileSet, n ast.Node) string {
	var b bytes.Buffer
	_ = printer.Fprint(&b, fset, n)
	s := b.String()
	s = strings.Join(strings.Fields(s), " ")
	return s
}

func genFacts(l *Loader, u FactUnit, outdir string) error {
	fset := token.NewFileSet()
	f, err := parser.ParseFile(fset, filepath.Join(l.Root, u.File), nil, 0)
	if err != nil {
		return fmt.Errorf("facts %s: %v", u.Name, err)
	}
	var b strings.Builder
	fmt.Fprintf(&b, "-- GENERATED by /verif/extract from /repo/%s — do not edit; regenerated on every run.\n", u.File)
	fmt.Fprintf(&b, "namespace PV.Generated.%s\n\n", u.Name)
	for _, fn := range u.Funcs {
		var fd *ast.FuncDecl
		for _, d := range f.Decls {
			if x, ok := d.(*ast.FuncDecl); ok && x.Name.Name == fn {
				fd = x
			}
		}
		if fd == nil {
			return fmt.Errorf("facts %s: function %s not found in %s", u.Name, fn, u.File)
		}
		var facts []string
		add := func(kind string, n ast.Node) { facts = append(facts, kind+": "+nodeText(fset, n)) }
		ast.Inspect(fd.Body, func(n ast.Node) bool {
			switch x := n.(type) {
			case *ast.FuncLit:
				if !u.Lits {
					return false
				}
			case *ast.IfStmt:
				add("if", x.Cond)
			case *ast.ForStmt:
				if u.Loops && x.Init != nil {
					add("forinit", x.Init)
				}
				if x.Cond != nil {
					add("for", x.Cond)
				}
				if u.Loops && x.Post != nil {
					add("forpost", x.Post)
				}
			case *ast.RangeStmt:
				if u.Loops {
					k, v := "_", "_"
					if x.Key != nil {
						k = nodeText(fset, x.Key)
					}
					if x.Value != nil {
						v = nodeText(fset, x.Value)
					}
					facts = append(facts, "range: "+k+", "+v+" := "+nodeText(fset, x.X))
				}
			case *ast.BranchStmt:
				if u.Loops {
					facts = append(facts, x.Tok.String())
				}
			case *ast.GoStmt:
				if u.Loops {
					facts = append(facts, "go: "+nodeText(fset, x.Call.Fun)[:4]+"…("+func() string {
						parts := []string{}
						for _, a := range x.Call.Args {
							parts = append(parts, nodeText(fset, a))
						}
						return strings.Join(parts, ", ")
					}()+")")
				}
			case *ast.ExprStmt:
				if u.Loops {
					if t := nodeText(fset, x.X); strings.HasPrefix(t, "os.Exit(") || strings.HasPrefix(t, "panic(") || strings.HasPrefix(t, "wg.") {
						facts = append(facts, "call: "+t)
					}
				}
			case *ast.SwitchStmt:
				if x.Tag != nil {
					add("switch", x.Tag)
				}
			case *ast.CaseClause:
				for _, e := range x.List {
					add("case", e)
				}
			case *ast.ReturnStmt:
				if len(x.Results) == 0 {
					facts = append(facts, "return")
				} else {
					parts := []string{}
					for _, r := range x.Results {
						t := nodeText(fset, r)
						if strings.HasPrefix(t, "fmt.Errorf(") {
							t = "fmt.Errorf(…)"
						}
						if strings.HasPrefix(t, "&CheckCommand{") {
							// keep only the fields that are defaults of gate-relevant flags
							t = nodeText(fset, r)
						}
						parts = append(parts, t)
					}
					facts = append(facts, "return: "+strings.Join(parts, ", "))
				}
			case *ast.AssignStmt:
				hit := false
				for _, lhs := range x.Lhs {
					lt := nodeText(fset, lhs)
					for _, tr := range u.Tracked {
						if lt == tr || (strings.HasSuffix(tr, "*") && strings.HasPrefix(lt, strings.TrimSuffix(tr, "*"))) {
							hit = true
						}
					}
				}
				if hit {
					facts = append(facts, "assign: "+nodeText(fset, x))
				}
			case *ast.IncDecStmt:
				lt := nodeText(fset, x.X)
				for _, tr := range u.Tracked {
					if lt == tr {
						facts = append(facts, "incdec: "+nodeText(fset, x))
					}
				}
			}
			return true
		})
		fmt.Fprintf(&b, "def %s : List String := [\n", fn)
		for i, s := range facts {
			sep := ","
			if i == len(facts)-1 {
				sep = ""
			}
			fmt.Fprintf(&b, "  %q%s\n", s, sep)
		}
		b.WriteString("]\n\n")
	}
	fmt.Fprintf(&b, "end PV.Generated.%s\n", u.Name)
	return os.WriteFile(filepath.Join(outdir, u.Name+".lean"), []byte(b.String()), 0o644)
}

func init() {
	for _, u := range factUnits {
		u := u
		generators = append(generators, func(l *Loader, outdir string) error { return genFacts(l, u, outdir) })
	}
}

// ---- named constants ---------------------------------------------------------------------------

type ConstUnit struct {
	Name   string
	PkgDir string
	Files  []string // base names; empty = all files of the package
}

var constUnits = []ConstUnit{
	{Name: "ScoreConsts", PkgDir: "domain", Files: []string{"analyze.go"}},
	{Name: "DefaultConsts", PkgDir: "domain", Files: []string{"defaults.go"}},
}

func genConsts(l *Loader, u ConstUnit, outdir string) error {
	pkg, err := l.Load(u.PkgDir)
	if err != nil {
		return err
	}
	want := map[string]bool{}
	for _, f := range u.Files {
		want[f] = true
	}
	var rows []string
	for i, f := range pkg.Files {
		if len(want) > 0 && !want[pkg.Names[i]] {
			continue
		}
		for _, d := range f.Decls {
			gd, ok := d.(*ast.GenDecl)
			if !ok || gd.Tok != token.CONST {
				continue
			}
			for _, sp := range gd.Specs {
				vs := sp.(*ast.ValueSpec)
				for _, n := range vs.Names {
					obj := pkg.Info.Defs[n]
					c, ok := obj.(*types.Const)
					if !ok {
						continue
					}
					rows = append(rows, n.Name+" = "+c.Val().ExactString())
				}
			}
		}
	}
	var b strings.Builder
	fmt.Fprintf(&b, "-- GENERATED by /verif/extract from /repo/%s (%v) — do not edit; regenerated on every run.\n", u.PkgDir, u.Files)
	fmt.Fprintf(&b, "namespace PV.Generated.%s\n\ndef consts : List String := [\n", u.Name)
	for i, r := range rows {
		sep := ","
		if i == len(rows)-1 {
			sep = ""
		}
		fmt.Fprintf(&b, "  %q%s\n", r, sep)
	}
	fmt.Fprintf(&b, "]\n\nend PV.Generated.%s\n", u.Name)
	return os.WriteFile(filepath.Join(outdir, u.Name+".lean"), []byte(b.String()), 0o644)
}

func init() {
	for _, u := range constUnits {
		u := u
		generators = append(generators, func(l *Loader, outdir string) error { return genConsts(l, u, outdir) })
	}
}
