package main

// verif-extract: regenerates /verif/lean/PV/Generated/*.lean from /repo's working tree.
// usage: verif-extract <repo> <outdir>
// Exit status 0 = all units generated; 2 = a unit could not be translated (broken tie; the
// reason is printed and also written to <outdir>/EXTRACT_ERRORS.txt).

import (
	"fmt"
	"os"
	"path/filepath"
	"strings"
)

type Unit struct {
	Name    string   // Lean module PV.Generated.<Name>
	PkgDir  string   // relative to the repo root
	Structs []string // struct types to translate
	Funcs   []string // functions/methods, in dependency order ("Recv.Name" or "Name")
	Rename  map[string]string
	Aliases map[string]string // Go selector path → Lean term
	Idents  map[string]string // Go identifier → Lean term
	Prelude string            // extra Lean text after the header
	DropRecv bool             // the receiver is only a namespace for configuration read through Aliases
	Params   map[string]string // Go parameter name → Lean binder text replacing it (e.g. "req" → "(lo med : Int)"); "" drops it
}

var units = []Unit{
	{
		Name:    "Score",
		PkgDir:  "domain",
		Structs: []string{"AnalyzeSummary"},
		Funcs: []string{
			"AnalyzeSummary.Validate",
			"AnalyzeSummary.calculateComplexityPenalty",
			"AnalyzeSummary.calculateDeadCodePenalty",
			"AnalyzeSummary.calculateDuplicationPenalty",
			"AnalyzeSummary.calculateCouplingPenalty",
			"AnalyzeSummary.calculateCohesionPenalty",
			"AnalyzeSummary.calculateDependencyPenalty",
			"AnalyzeSummary.calculateArchitecturePenalty",
			"normalizeToScoreBase",
			"penaltyToScore",
			"AnalyzeSummary.CalculateHealthScore",
			"AnalyzeSummary.CalculateFallbackScore",
			"GetGradeFromScore",
		},
	},
	{
		Name: "RiskComplexityService", PkgDir: "service", Funcs: []string{"ComplexityServiceImpl.calculateRiskLevel"}, DropRecv: true,
		Params:  map[string]string{"req": "(lo med : Int)"},
		Aliases: map[string]string{"req.LowThreshold": "lo", "req.MediumThreshold": "med"},
	},
	{
		Name: "RiskComplexityConfig", PkgDir: "internal/config", Funcs: []string{"ComplexityConfig.AssessRiskLevel"}, DropRecv: true,
		Params:  map[string]string{"complexity": "(complexity lo med : Int)"},
		Aliases: map[string]string{"c.LowThreshold": "lo", "c.MediumThreshold": "med"},
	},
	{
		Name: "RiskCBO", PkgDir: "internal/analyzer", Funcs: []string{"CBOAnalyzer.assessRiskLevel"}, DropRecv: true,
		Params:  map[string]string{"cbo": "(cbo lo med : Int)"},
		Aliases: map[string]string{"a.options.LowThreshold": "lo", "a.options.MediumThreshold": "med"},
	},
	{
		Name: "RiskLCOM", PkgDir: "internal/analyzer", Funcs: []string{"LCOMAnalyzer.assessRiskLevel"}, DropRecv: true,
		Params:  map[string]string{"lcom4": "(lcom4 lo med : Int)"},
		Aliases: map[string]string{"a.options.LowThreshold": "lo", "a.options.MediumThreshold": "med"},
	},
	{
		Name: "CloneBands", PkgDir: "internal/analyzer", Funcs: []string{"CloneDetector.classifyCloneType"}, DropRecv: true,
		Params: map[string]string{"similarity": "(similarity distance t1 t2 t3 t4 : F)", "distance": ""},
		Aliases: map[string]string{"cd.cloneDetectorConfig.Type1Threshold": "t1", "cd.cloneDetectorConfig.Type2Threshold": "t2",
			"cd.cloneDetectorConfig.Type3Threshold": "t3", "cd.cloneDetectorConfig.Type4Threshold": "t4"},
	},
	{
		Name: "LSHAuto", PkgDir: "domain", Funcs: []string{"ShouldUseLSH"},
	},
	{
		Name: "CloneSignificant", PkgDir: "internal/analyzer", Funcs: []string{"CloneDetector.isSignificantClone"}, DropRecv: true,
		Params: map[string]string{"pair": "(sim dist simThr t4 maxDist : F) (size1 size2 minNodes : Int)"},
		Aliases: map[string]string{"cd.cloneDetectorConfig.SimilarityThreshold": "simThr", "cd.cloneDetectorConfig.Type4Threshold": "t4",
			"cd.cloneDetectorConfig.MaxEditDistance": "maxDist", "cd.cloneDetectorConfig.MinNodes": "minNodes",
			"pair.Similarity": "sim", "pair.Distance": "dist", "pair.Fragment1.Size": "size1", "pair.Fragment2.Size": "size2"},
	},
	{
		Name: "CloneOverlap", PkgDir: "internal/analyzer", Funcs: []string{"CloneDetector.isOverlappingLocation"}, DropRecv: true,
		Params: map[string]string{"loc1": "(file1 s1 e1 file2 s2 e2 : Int)", "loc2": ""},
		Aliases: map[string]string{"loc1.FilePath": "file1", "loc2.FilePath": "file2", "loc1.StartLine": "s1", "loc1.EndLine": "e1",
			"loc2.StartLine": "s2", "loc2.EndLine": "e2"},
	},
	{
		Name: "CloneInclude", PkgDir: "internal/analyzer", Funcs: []string{"CloneDetector.shouldIncludeFragment"}, DropRecv: true,
		Params: map[string]string{"fragment": "(size lines minNodes minLines : Int)"},
		Aliases: map[string]string{"fragment.Size": "size", "fragment.LineCount": "lines", "cd.cloneDetectorConfig.MinNodes": "minNodes",
			"cd.cloneDetectorConfig.MinLines": "minLines"},
	},
	{
		Name: "CloneBatchSize", PkgDir: "internal/analyzer", Funcs: []string{"CloneDetector.calculateBatchSize"}, DropRecv: true,
		Params: map[string]string{"fragmentCount": "(fragmentCount batchThreshold largeProject batchSmall batchLarge : Int)"},
		Aliases: map[string]string{"cd.cloneDetectorConfig.BatchSizeThreshold": "batchThreshold", "cd.cloneDetectorConfig.LargeProjectSize": "largeProject",
			"cd.cloneDetectorConfig.BatchSizeSmall": "batchSmall", "cd.cloneDetectorConfig.BatchSizeLarge": "batchLarge"},
	},
}

func genUnit(l *Loader, u Unit, outdir string) error {
	pkg, err := l.Load(u.PkgDir)
	if err != nil {
		return err
	}
	t := &Translator{pkg: pkg, funcs: map[string]*FuncSpec{}, structs: map[string]bool{},
		aliases: u.Aliases, idents: u.Idents, dropRecv: u.DropRecv, paramOverride: u.Params}
	if t.aliases == nil {
		t.aliases = map[string]string{}
	}
	if t.idents == nil {
		t.idents = map[string]string{}
	}
	var b strings.Builder
	fmt.Fprintf(&b, "-- GENERATED by /verif/extract from /repo/%s — do not edit; regenerated on every run.\n", u.PkgDir)
	b.WriteString("import PV.Model.Arith\nset_option linter.unusedVariables false\nnamespace PV.Generated." + u.Name + "\nopen PV\n\n")
	b.WriteString(u.Prelude)
	for _, s := range u.Structs {
		t.structs[s] = true
	}
	for _, s := range u.Structs {
		txt, err := t.Struct(s)
		if err != nil {
			return err
		}
		b.WriteString(txt + "\n")
	}
	var specs []*FuncSpec
	for _, fn := range u.Funcs {
		fd := pkg.FindFunc(fn)
		if fd == nil {
			return fmt.Errorf("unit %s: function %s not found in %s", u.Name, fn, u.PkgDir)
		}
		lean := fn
		if i := strings.Index(fn, "."); i >= 0 {
			lean = fn[i+1:]
		}
		if r, ok := u.Rename[fn]; ok {
			lean = r
		}
		fs := &FuncSpec{GoName: fn, LeanName: lean, decl: fd, mutates: writesReceiver(fd, pkg.Info)}
		key := fn
		if fd.Recv == nil {
			key = fd.Name.Name
		}
		t.funcs[key] = fs
		specs = append(specs, fs)
	}
	// transitive receiver-field read sets (functions are listed in dependency order)
	t.reads = map[string]map[string]bool{}
	for _, fs := range specs {
		r, calls := readFields(fs.decl, pkg.Info)
		recv := ""
		if i := strings.Index(fs.GoName, "."); i >= 0 {
			recv = fs.GoName[:i]
		}
		for _, c := range calls {
			for f := range t.reads[recv+"."+c] {
				r[f] = true
			}
		}
		t.reads[fs.GoName] = r
	}
	for _, fs := range specs {
		txt, err := t.Func(fs)
		if err != nil {
			return fmt.Errorf("unit %s: %v", u.Name, err)
		}
		b.WriteString(txt + "\n")
	}
	b.WriteString("end PV.Generated." + u.Name + "\n")
	return os.WriteFile(filepath.Join(outdir, u.Name+".lean"), []byte(b.String()), 0o644)
}

func main() {
	if len(os.Args) != 3 {
		fmt.Fprintln(os.Stderr, "usage: verif-extract <repo> <outdir>")
		os.Exit(64)
	}
	repo, outdir := os.Args[1], os.Args[2]
	if err := os.MkdirAll(outdir, 0o755); err != nil {
		fmt.Fprintln(os.Stderr, err)
		os.Exit(1)
	}
	l, err := NewLoader(repo)
	if err != nil {
		fmt.Fprintln(os.Stderr, err)
		os.Exit(1)
	}
	var errs []string
	for _, u := range units {
		if err := genUnit(l, u, outdir); err != nil {
			errs = append(errs, err.Error())
			_ = os.Remove(filepath.Join(outdir, u.Name+".lean")) // never leave a stale model behind
		}
	}
	for _, g := range generators {
		if err := g(l, outdir); err != nil {
			errs = append(errs, err.Error())
		}
	}
	errFile := filepath.Join(outdir, "EXTRACT_ERRORS.txt")
	if len(errs) > 0 {
		_ = os.WriteFile(errFile, []byte(strings.Join(errs, "\n")+"\n"), 0o644)
		for _, e := range errs {
			fmt.Println("EXTRACT-ERROR:", e)
		}
		os.Exit(2)
	}
	_ = os.Remove(errFile)
	fmt.Println("extract ok")
}

// generators: table extractors other than function translation (filled in tables.go)
var generators []func(l *Loader, outdir string) error
