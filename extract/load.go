package main

// Loading and (lenient) type-checking of packages of /repo with the standard library only.
// Module-internal imports are type-checked recursively from source, stdlib imports go
// through the "source" importer, anything else (third-party, cgo) becomes an empty fake
// package: expressions that depend on it get an invalid type and the translator refuses
// to translate them (it fails loudly rather than guessing).

import (
	"fmt"
	"go/ast"
	"go/build"
	"go/importer"
	"go/parser"
	"go/token"
	"go/types"
	"os"
	"path/filepath"
	"strings"
)

type Pkg struct {
	Dir   string
	Path  string
	Fset  *token.FileSet
	Files []*ast.File
	Names []string // file names, parallel to Files
	Types *types.Package
	Info  *types.Info
}

type Loader struct {
	Root    string // /repo
	ModPath string
	Fset    *token.FileSet
	std     types.Importer
	cache   map[string]*Pkg
	fakes   map[string]*types.Package
}

func NewLoader(root string) (*Loader, error) {
	mod, err := os.ReadFile(filepath.Join(root, "go.mod"))
	if err != nil {
		return nil, err
	}
	modPath := ""
	for _, l := range strings.Split(string(mod), "\n") {
		l = strings.TrimSpace(l)
		if strings.HasPrefix(l, "module ") {
			modPath = strings.TrimSpace(strings.TrimPrefix(l, "module "))
			break
		}
	}
	if modPath == "" {
		return nil, fmt.Errorf("no module line in go.mod")
	}
	fset := token.NewFileSet()
	return &Loader{Root: root, ModPath: modPath, Fset: fset,
		std:   importer.ForCompiler(fset, "source", nil),
		cache: map[string]*Pkg{}, fakes: map[string]*types.Package{}}, nil
}

func (l *Loader) Import(path string) (*types.Package, error) {
	if path == "C" || path == "unsafe" {
		if path == "unsafe" {
			return types.Unsafe, nil
		}
	}
	if path == l.ModPath || strings.HasPrefix(path, l.ModPath+"/") {
		rel := strings.TrimPrefix(strings.TrimPrefix(path, l.ModPath), "/")
		p, err := l.Load(rel)
		if err != nil {
			return nil, err
		}
		return p.Types, nil
	}
	first := strings.Split(path, "/")[0]
	if !strings.Contains(first, ".") {
		if p, err := l.std.Import(path); err == nil {
			return p, nil
		}
	}
	if p, ok := l.fakes[path]; ok {
		return p, nil
	}
	name := path[strings.LastIndex(path, "/")+1:]
	p := types.NewPackage(path, name)
	p.MarkComplete()
	l.fakes[path] = p
	return p, nil
}

// Load parses and type-checks the package in directory rel (relative to the root).
func (l *Loader) Load(rel string) (*Pkg, error) {
	if p, ok := l.cache[rel]; ok {
		return p, nil
	}
	dir := filepath.Join(l.Root, rel)
	ctx := build.Default
	ctx.CgoEnabled = true
	bp, err := ctx.ImportDir(dir, 0)
	if err != nil {
		if _, ok := err.(*build.MultiplePackageError); !ok && bp == nil {
			return nil, err
		}
	}
	names := append(append([]string{}, bp.GoFiles...), bp.CgoFiles...)
	pkg := &Pkg{Dir: dir, Path: l.ModPath + "/" + rel, Fset: l.Fset}
	for _, n := range names {
		f, err := parser.ParseFile(l.Fset, filepath.Join(dir, n), nil, parser.ParseComments)
		if err != nil {
			return nil, fmt.Errorf("parse %s: %w", n, err)
		}
		pkg.Files = append(pkg.Files, f)
		pkg.Names = append(pkg.Names, n)
	}
	l.cache[rel] = pkg // break import cycles (there are none, but be safe)
	info := &types.Info{
		Types:      map[ast.Expr]types.TypeAndValue{},
		Defs:       map[*ast.Ident]types.Object{},
		Uses:       map[*ast.Ident]types.Object{},
		Selections: map[*ast.SelectorExpr]*types.Selection{},
	}
	conf := types.Config{Importer: l, FakeImportC: true, Error: func(error) {}}
	tp, _ := conf.Check(pkg.Path, l.Fset, pkg.Files, info)
	pkg.Types = tp
	pkg.Info = info
	return pkg, nil
}

// FindFunc returns the declaration of function or method name ("Recv.Name" for methods).
func (p *Pkg) FindFunc(name string) *ast.FuncDecl {
	recv, fn := "", name
	if i := strings.Index(name, "."); i >= 0 {
		recv, fn = name[:i], name[i+1:]
	}
	for _, f := range p.Files {
		for _, d := range f.Decls {
			fd, ok := d.(*ast.FuncDecl)
			if !ok || fd.Name.Name != fn {
				continue
			}
			r := ""
			if fd.Recv != nil && len(fd.Recv.List) == 1 {
				t := fd.Recv.List[0].Type
				if s, ok := t.(*ast.StarExpr); ok {
					t = s.X
				}
				if id, ok := t.(*ast.Ident); ok {
					r = id.Name
				}
			}
			if r == recv {
				return fd
			}
		}
	}
	return nil
}

func (p *Pkg) FileOf(n ast.Node) string {
	return filepath.Base(p.Fset.Position(n.Pos()).Filename)
}
